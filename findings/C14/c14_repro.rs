//! C14 reproducer: backoff is total, monotone and capped for every attempt number.
use std::time::Duration;
use tower_resilience_reconnect::ReconnectPolicy;
use tower_resilience_retry::{ExponentialBackoff, ExponentialRandomBackoff, IntervalFunction};

#[test]
fn exponential_is_total_and_capped_for_large_attempts() {
    let b = ExponentialBackoff::new(Duration::from_millis(100)).max_interval(Duration::from_secs(5));
    let mut prev = Duration::ZERO;
    for attempt in (0..200usize).chain([1_000, 10_000, 1 << 31, (1 << 31) + 1, usize::MAX - 1, usize::MAX]) {
        let d = b.next_interval(attempt);
        assert!(d <= Duration::from_secs(5), "attempt {attempt}: {d:?} above cap");
        assert!(d >= prev, "attempt {attempt}: {d:?} < previous {prev:?} (not monotone)");
        prev = d;
    }
}

#[test]
fn exponential_without_cap_saturates() {
    let b = ExponentialBackoff::new(Duration::from_secs(86_400)).multiplier(10.0);
    let mut prev = Duration::ZERO;
    for attempt in 0..400usize {
        let d = b.next_interval(attempt);
        assert!(d >= prev);
        prev = d;
    }
}

#[test]
fn jittered_is_total() {
    let b = ExponentialRandomBackoff::new(Duration::from_secs(3600), 1.0).multiplier(10.0);
    for attempt in (0..400usize).chain([usize::MAX]) {
        let _ = b.next_interval(attempt);
    }
}

#[test]
fn reconnect_default_policy_survives_a_dead_backend() {
    let p = ReconnectPolicy::default();
    for attempt in 0..10_000usize {
        let d = p.delay_for_attempt(attempt).unwrap();
        assert!(d <= Duration::from_secs(5));
    }
}
