//! C20: Tower readiness contract.
//!
//! `Service::call` may only be invoked on a service *instance* on which
//! `poll_ready` returned `Ready(Ok(()))` since that instance's previous `call`.
//! A clone of a service is a new instance that has not been polled.
//!
//! Every test wraps a strict contract-checking inner service (`Strict`) in one
//! middleware configured so that it never triggers (no rejection, no timeout,
//! no injected fault), drives three sequential requests through
//! `ready().await.call(req).await`, and then asserts that the inner service
//! never observed a `call` without a preceding `poll_ready` on the same
//! instance.
//!
//! Violations are counted in a shared atomic instead of panicking, because a
//! panic inside a spawned task would be swallowed by the runtime.

use std::fmt;
use std::sync::Arc;
use std::sync::atomic::{AtomicUsize, Ordering};
use std::task::{Context, Poll};
use std::time::Duration;

use futures::future::BoxFuture;
use tower::{Layer, Service, ServiceExt};

use tower_resilience_adaptive::{AdaptiveLimiterLayer, Aimd};
use tower_resilience_bulkhead::BulkheadLayer;
use tower_resilience_cache::CacheLayer;
use tower_resilience_chaos::ChaosLayer;
use tower_resilience_circuitbreaker::CircuitBreakerLayer;
use tower_resilience_coalesce::CoalesceLayer;
use tower_resilience_executor::ExecutorLayer;
use tower_resilience_fallback::FallbackLayer;
use tower_resilience_hedge::HedgeLayer;
use tower_resilience_ratelimiter::RateLimiterLayer;
use tower_resilience_reconnect::{ReconnectConfig, ReconnectLayer, ReconnectPolicy};
use tower_resilience_retry::{FixedInterval, RetryLayer};
use tower_resilience_timelimiter::TimeLimiterLayer;

// ---------------------------------------------------------------------------
// Strict inner service
// ---------------------------------------------------------------------------

#[derive(Clone, Debug, PartialEq, Eq)]
struct StrictError(&'static str);

impl fmt::Display for StrictError {
    fn fmt(&self, f: &mut fmt::Formatter<'_>) -> fmt::Result {
        write!(f, "strict error: {}", self.0)
    }
}

impl std::error::Error for StrictError {}

/// Counters shared between all clones of a `Strict` service.
#[derive(Clone, Default)]
struct Probe {
    /// Number of `call`s made on an instance that was not ready.
    violations: Arc<AtomicUsize>,
    /// Total number of `call`s.
    calls: Arc<AtomicUsize>,
    /// Total number of `poll_ready`s.
    polls: Arc<AtomicUsize>,
    /// Total number of clones taken.
    clones: Arc<AtomicUsize>,
}

impl Probe {
    fn violations(&self) -> usize {
        self.violations.load(Ordering::SeqCst)
    }
    fn calls(&self) -> usize {
        self.calls.load(Ordering::SeqCst)
    }
    fn summary(&self) -> String {
        format!(
            "violations={} calls={} polls={} clones={}",
            self.violations.load(Ordering::SeqCst),
            self.calls.load(Ordering::SeqCst),
            self.polls.load(Ordering::SeqCst),
            self.clones.load(Ordering::SeqCst),
        )
    }
}

/// Inner service that enforces the readiness contract per instance.
struct Strict {
    /// Per-instance: set by `poll_ready`, consumed by `call`. NOT shared by clones.
    ready: bool,
    probe: Probe,
    /// The first `fail_first` calls (counted across all clones) fail.
    fail_first: usize,
    /// Latency of the response future.
    latency: Duration,
}

impl Strict {
    fn new() -> (Self, Probe) {
        Self::with(0, Duration::ZERO)
    }

    fn with(fail_first: usize, latency: Duration) -> (Self, Probe) {
        let probe = Probe::default();
        (
            Strict {
                ready: false,
                probe: probe.clone(),
                fail_first,
                latency,
            },
            probe,
        )
    }
}

impl Clone for Strict {
    fn clone(&self) -> Self {
        self.probe.clones.fetch_add(1, Ordering::SeqCst);
        Strict {
            // A clone is a fresh instance: it has never been polled.
            ready: false,
            probe: self.probe.clone(),
            fail_first: self.fail_first,
            latency: self.latency,
        }
    }
}

impl Service<u32> for Strict {
    type Response = u32;
    type Error = StrictError;
    type Future = BoxFuture<'static, Result<u32, StrictError>>;

    fn poll_ready(&mut self, _cx: &mut Context<'_>) -> Poll<Result<(), Self::Error>> {
        self.probe.polls.fetch_add(1, Ordering::SeqCst);
        self.ready = true;
        Poll::Ready(Ok(()))
    }

    fn call(&mut self, req: u32) -> Self::Future {
        if !std::mem::take(&mut self.ready) {
            self.probe.violations.fetch_add(1, Ordering::SeqCst);
        }
        let n = self.probe.calls.fetch_add(1, Ordering::SeqCst);
        let fail = n < self.fail_first;
        let latency = self.latency;
        Box::pin(async move {
            if latency > Duration::ZERO {
                tokio::time::sleep(latency).await;
            }
            if fail {
                Err(StrictError("scripted failure"))
            } else {
                Ok(req)
            }
        })
    }
}

// ---------------------------------------------------------------------------
// Driver
// ---------------------------------------------------------------------------

const REQUESTS: [u32; 3] = [11, 22, 33];

/// Drives three sequential requests through `ready().call()` and checks that
/// each response is what the inner service produced.
async fn drive<S>(svc: &mut S, layer: &str)
where
    S: Service<u32, Response = u32>,
    S::Error: fmt::Debug,
{
    for req in REQUESTS {
        let resp = svc
            .ready()
            .await
            .unwrap_or_else(|e| panic!("{layer}: poll_ready failed: {e:?}"))
            .call(req)
            .await
            .unwrap_or_else(|e| panic!("{layer}: call({req}) failed: {e:?}"));
        assert_eq!(resp, req, "{layer}: response must be the inner's response");
    }
}

/// Final assertion shared by all tests.
fn check(probe: &Probe, layer: &str, min_calls: usize) {
    assert!(
        probe.calls() >= min_calls,
        "{layer}: inner service was called {} times, expected at least {min_calls} ({})",
        probe.calls(),
        probe.summary()
    );
    assert_eq!(
        probe.violations(),
        0,
        "{layer}: inner `call` invoked on an instance that was never polled ready ({})",
        probe.summary()
    );
}

// ---------------------------------------------------------------------------
// Self-test of the probe
// ---------------------------------------------------------------------------

/// The bare strict service, driven correctly, reports no violation; calling a
/// never-polled clone reports exactly one.
#[tokio::test]
async fn readiness_strict_selftest() {
    let (mut svc, probe) = Strict::new();
    drive(&mut svc, "strict").await;
    check(&probe, "strict", 3);

    let mut unpolled = svc.clone();
    assert_eq!(unpolled.call(1).await, Ok(1));
    assert_eq!(probe.violations(), 1, "probe must detect an unpolled clone");

    // Calling twice after one poll_ready is a violation as well.
    let (mut svc, probe) = Strict::new();
    let _ = svc.ready().await.unwrap().call(1).await;
    let _ = svc.call(2).await;
    assert_eq!(probe.violations(), 1, "probe must detect a stale readiness");
}

// ---------------------------------------------------------------------------
// Middleware under test
// ---------------------------------------------------------------------------

#[tokio::test]
async fn readiness_bulkhead() {
    let (inner, probe) = Strict::new();
    let layer = BulkheadLayer::builder()
        .name("c20-bulkhead")
        .max_concurrent_calls(10)
        .max_wait_duration(Duration::from_secs(1))
        .build();
    let mut svc = layer.layer(inner);
    drive(&mut svc, "bulkhead").await;
    check(&probe, "bulkhead", 3);
}

#[tokio::test]
async fn readiness_chaos() {
    let (inner, probe) = Strict::new();
    // Zero rates: pure pass-through.
    let layer = ChaosLayer::builder()
        .name("c20-chaos")
        .latency_rate(0.0)
        .build();
    let mut svc = layer.layer(inner);
    drive(&mut svc, "chaos").await;
    check(&probe, "chaos", 3);
}

#[tokio::test]
async fn readiness_circuitbreaker() {
    let (inner, probe) = Strict::new();
    let layer = CircuitBreakerLayer::builder()
        .name("c20-circuitbreaker")
        .failure_rate_threshold(0.5)
        .sliding_window_size(10)
        .build();
    let mut svc = layer.layer(inner);
    drive(&mut svc, "circuitbreaker").await;
    check(&probe, "circuitbreaker", 3);
}

#[tokio::test]
async fn readiness_circuitbreaker_fallback() {
    let (inner, probe) = Strict::new();
    let layer = CircuitBreakerLayer::builder()
        .name("c20-circuitbreaker-fallback")
        .failure_rate_threshold(0.5)
        .sliding_window_size(10)
        .build();
    let mut svc = layer.layer(inner).with_fallback(
        |_req: u32| -> BoxFuture<'static, Result<u32, StrictError>> {
            Box::pin(async { Ok(u32::MAX) })
        },
    );
    drive(&mut svc, "circuitbreaker+fallback").await;
    check(&probe, "circuitbreaker+fallback", 3);
}

#[tokio::test]
async fn readiness_executor() {
    let (inner, probe) = Strict::new();
    let layer = ExecutorLayer::current();
    let mut svc = layer.layer(inner);
    drive(&mut svc, "executor").await;
    check(&probe, "executor", 3);
}

#[tokio::test]
async fn readiness_fallback() {
    let (inner, probe) = Strict::new();
    let layer = FallbackLayer::<u32, u32, StrictError>::value(u32::MAX);
    let mut svc = layer.layer(inner);
    drive(&mut svc, "fallback").await;
    check(&probe, "fallback", 3);
}

#[tokio::test]
async fn readiness_ratelimiter() {
    let (inner, probe) = Strict::new();
    let layer = RateLimiterLayer::builder()
        .name("c20-ratelimiter")
        .limit_for_period(1000)
        .refresh_period(Duration::from_secs(1))
        .timeout_duration(Duration::from_secs(1))
        .build();
    let mut svc = layer.layer(inner);
    drive(&mut svc, "ratelimiter").await;
    check(&probe, "ratelimiter", 3);
}

#[tokio::test]
async fn readiness_timelimiter_cancel() {
    let (inner, probe) = Strict::new();
    let layer = TimeLimiterLayer::builder()
        .name("c20-timelimiter-cancel")
        .timeout_duration(Duration::from_secs(5))
        .cancel_running_future(true)
        .build();
    let mut svc = layer.layer(inner);
    drive(&mut svc, "timelimiter(cancel_running_future=true)").await;
    check(&probe, "timelimiter(cancel_running_future=true)", 3);
}

#[tokio::test]
async fn readiness_timelimiter_nocancel() {
    let (inner, probe) = Strict::new();
    let layer = TimeLimiterLayer::builder()
        .name("c20-timelimiter-nocancel")
        .timeout_duration(Duration::from_secs(5))
        .cancel_running_future(false)
        .build();
    let mut svc = layer.layer(inner);
    drive(&mut svc, "timelimiter(cancel_running_future=false)").await;
    tokio::time::sleep(Duration::from_millis(20)).await;
    check(&probe, "timelimiter(cancel_running_future=false)", 3);
}

/// No inner failure: only the first attempt of each request runs.
#[tokio::test]
async fn readiness_retry_first_attempt() {
    let (inner, probe) = Strict::new();
    let layer = RetryLayer::<u32, StrictError>::builder()
        .name("c20-retry")
        .max_attempts(3)
        .backoff(FixedInterval::new(Duration::from_millis(1)))
        .build();
    let mut svc = layer.layer(inner);
    drive(&mut svc, "retry(first attempt)").await;
    check(&probe, "retry(first attempt)", 3);
}

/// The inner fails twice, so the first request needs two retries.
#[tokio::test]
async fn readiness_retry_with_retries() {
    let (inner, probe) = Strict::with(2, Duration::ZERO);
    let layer = RetryLayer::<u32, StrictError>::builder()
        .name("c20-retry-retries")
        .max_attempts(5)
        .backoff(FixedInterval::new(Duration::from_millis(1)))
        .build();
    let mut svc = layer.layer(inner);
    drive(&mut svc, "retry(with retries)").await;
    // 3 requests + 2 retried attempts.
    check(&probe, "retry(with retries)", 5);
}

/// Parallel mode: zero delay, primary plus two hedges fire at once.
#[tokio::test]
async fn readiness_hedge_parallel() {
    let (inner, probe) = Strict::with(0, Duration::from_millis(2));
    let layer = HedgeLayer::builder()
        .name("c20-hedge-parallel")
        .no_delay()
        .max_hedged_attempts(3)
        .build();
    let mut svc = layer.layer(inner);
    drive(&mut svc, "hedge(parallel)").await;
    // Let the losing attempts finish before reading the counters.
    tokio::time::sleep(Duration::from_millis(50)).await;
    check(&probe, "hedge(parallel)", 3);
}

/// Latency mode: the inner is slower than the hedge delay, so hedges fire.
#[tokio::test]
async fn readiness_hedge_latency() {
    let (inner, probe) = Strict::with(0, Duration::from_millis(30));
    let layer = HedgeLayer::builder()
        .name("c20-hedge-latency")
        .delay(Duration::from_millis(5))
        .max_hedged_attempts(3)
        .build();
    let mut svc = layer.layer(inner);
    drive(&mut svc, "hedge(latency)").await;
    tokio::time::sleep(Duration::from_millis(50)).await;
    check(&probe, "hedge(latency)", 3);
}

/// Latency mode where the primary answers before the hedge delay: only the
/// primary attempt runs.
#[tokio::test]
async fn readiness_hedge_latency_primary_only() {
    let (inner, probe) = Strict::new();
    let layer = HedgeLayer::builder()
        .name("c20-hedge-latency-primary")
        .delay(Duration::from_millis(200))
        .max_hedged_attempts(2)
        .build();
    let mut svc = layer.layer(inner);
    drive(&mut svc, "hedge(latency, primary only)").await;
    tokio::time::sleep(Duration::from_millis(50)).await;
    check(&probe, "hedge(latency, primary only)", 3);
}

/// The inner fails twice with a reconnectable error; the retried calls are
/// issued by the response future.
#[tokio::test]
async fn readiness_reconnect_retry() {
    let (inner, probe) = Strict::with(2, Duration::ZERO);
    let config = ReconnectConfig::builder()
        .policy(ReconnectPolicy::fixed(Duration::from_millis(1)))
        .max_attempts(5)
        .retry_on_reconnect(true)
        .build();
    let layer = ReconnectLayer::new(config);
    let mut svc = layer.layer(inner);
    drive(&mut svc, "reconnect(retry after error)").await;
    // 3 requests + 2 retried calls.
    check(&probe, "reconnect(retry after error)", 5);
}

// ---------------------------------------------------------------------------
// Controls: believed to call `self.inner` directly
// ---------------------------------------------------------------------------

/// Control: without any inner failure reconnect calls `self.inner` directly.
#[tokio::test]
async fn readiness_reconnect_no_failure() {
    let (inner, probe) = Strict::new();
    let config = ReconnectConfig::builder()
        .policy(ReconnectPolicy::fixed(Duration::from_millis(1)))
        .max_attempts(5)
        .build();
    let layer = ReconnectLayer::new(config);
    let mut svc = layer.layer(inner);
    drive(&mut svc, "reconnect(no failure)").await;
    check(&probe, "reconnect(no failure)", 3);
}

#[tokio::test]
async fn readiness_cache() {
    let (inner, probe) = Strict::new();
    let layer = CacheLayer::builder()
        .name("c20-cache")
        .max_size(10)
        .key_extractor(|req: &u32| *req)
        .build();
    let mut svc = layer.layer(inner);
    // Distinct keys: three misses, three inner calls.
    drive(&mut svc, "cache").await;
    check(&probe, "cache", 3);
}

#[tokio::test]
async fn readiness_coalesce() {
    let (inner, probe) = Strict::new();
    let layer = CoalesceLayer::new(|req: &u32| *req);
    let mut svc = layer.layer(inner);
    drive(&mut svc, "coalesce").await;
    check(&probe, "coalesce", 3);
}

#[tokio::test]
async fn readiness_adaptive() {
    let (inner, probe) = Strict::new();
    let layer = AdaptiveLimiterLayer::new(
        Aimd::builder()
            .initial_limit(10)
            .latency_threshold(Duration::from_secs(1))
            .build(),
    );
    let mut svc = layer.layer(inner);
    drive(&mut svc, "adaptive").await;
    check(&probe, "adaptive", 3);
}
