//! C11 reproducer: a leader whose inner `call` panics must not leave the key registered.
use std::future::Future;
use std::pin::Pin;
use std::sync::atomic::{AtomicUsize, Ordering};
use std::sync::Arc;
use std::task::{Context, Poll};
use std::time::Duration;
use tower::{Service, ServiceBuilder, ServiceExt};
use tower_resilience_coalesce::CoalesceLayer;

#[derive(Clone)]
struct PanicsOnce(Arc<AtomicUsize>);
impl Service<String> for PanicsOnce {
    type Response = String;
    type Error = String;
    type Future = Pin<Box<dyn Future<Output = Result<String, String>> + Send>>;
    fn poll_ready(&mut self, _: &mut Context<'_>) -> Poll<Result<(), String>> { Poll::Ready(Ok(())) }
    fn call(&mut self, req: String) -> Self::Future {
        if self.0.fetch_add(1, Ordering::SeqCst) == 0 {
            panic!("inner call panics (e.g. `poll_ready` must be called first)");
        }
        Box::pin(async move { Ok(format!("ok: {req}")) })
    }
}

#[tokio::test]
async fn key_is_usable_after_leader_panicked_in_call() {
    let svc = ServiceBuilder::new()
        .layer(CoalesceLayer::new(|req: &String| req.clone()))
        .service(PanicsOnce(Arc::new(AtomicUsize::new(0))));
    let mut first = svc.clone();
    let r = std::panic::catch_unwind(std::panic::AssertUnwindSafe(|| { let _ = first.call("k".to_string()); }));
    assert!(r.is_err(), "the leader's inner call panicked");
    let mut second = svc.clone();
    let res = tokio::time::timeout(Duration::from_millis(300), async {
        second.ready().await.unwrap().call("k".to_string()).await
    }).await;
    assert!(res.is_ok(), "second request for the same key never resolves: the key is stuck");
    assert_eq!(res.unwrap().unwrap(), "ok: k");
}
