//! C02 reproducer: waiters admitted after sleeping must each take a permit of the new window.
use std::sync::atomic::{AtomicUsize, Ordering};
use std::sync::Arc;
use std::time::Duration;
use tower::{Layer, Service, ServiceExt};
use tower_resilience_ratelimiter::{RateLimiterLayer, WindowType};

async fn run(window: WindowType) -> usize {
    let admitted = Arc::new(AtomicUsize::new(0));
    let a = admitted.clone();
    let svc = tower::service_fn(move |_req: u32| {
        a.fetch_add(1, Ordering::SeqCst);
        async { Ok::<_, std::io::Error>(()) }
    });
    let layer = RateLimiterLayer::builder()
        .limit_for_period(1)
        .refresh_period(Duration::from_millis(300))
        .timeout_duration(Duration::from_millis(400))
        .window_type(window)
        .build();
    let service = layer.layer(svc);
    let mut hs = Vec::new();
    for i in 0..4u32 {
        let mut s = service.clone();
        hs.push(tokio::spawn(async move { let _ = s.ready().await.unwrap().call(i).await; }));
    }
    // two windows have started by t=450ms: [0,300) and [300,600): at most 2 admissions
    tokio::time::sleep(Duration::from_millis(450)).await;
    let n = admitted.load(Ordering::SeqCst);
    for h in hs { let _ = h.await; }
    n
}

#[tokio::test]
async fn fixed_window_waiters_respect_limit() {
    let n = run(WindowType::Fixed).await;
    assert!(n <= 2, "{n} calls admitted within two windows of limit 1");
}

#[tokio::test]
async fn sliding_log_waiters_respect_limit() {
    let n = run(WindowType::SlidingLog).await;
    assert!(n <= 2, "{n} calls admitted within two windows of limit 1");
}
