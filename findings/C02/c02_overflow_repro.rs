//! C02 reproducer: a sliding-log window too long to be added to an Instant must never free a slot.
use std::sync::atomic::{AtomicUsize, Ordering};
use std::sync::Arc;
use std::time::Duration;
use tower::{Layer, Service, ServiceExt};
use tower_resilience_ratelimiter::{RateLimiterLayer, WindowType};

#[tokio::test]
async fn sliding_log_with_unrepresentable_window_still_limits() {
    let admitted = Arc::new(AtomicUsize::new(0));
    let a = admitted.clone();
    let svc = tower::service_fn(move |_req: u32| {
        a.fetch_add(1, Ordering::SeqCst);
        async { Ok::<_, std::io::Error>(()) }
    });
    let layer = RateLimiterLayer::builder()
        .limit_for_period(2)
        .refresh_period(Duration::MAX) // "2 calls, ever"
        .timeout_duration(Duration::from_millis(10))
        .window_type(WindowType::SlidingLog)
        .build();
    let mut service = layer.layer(svc);
    let mut ok = 0;
    for i in 0..10u32 {
        if service.ready().await.unwrap().call(i).await.is_ok() {
            ok += 1;
        }
    }
    assert_eq!(admitted.load(Ordering::SeqCst), 2, "calls that reached the inner service (limit 2 per unbounded window)");
    assert_eq!(ok, 2);
}
