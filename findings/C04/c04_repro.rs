//! C04/C09 reproducers against the public circuit-breaker API.
use std::sync::atomic::{AtomicBool, AtomicUsize, Ordering};
use std::sync::Arc;
use std::time::Duration;
use tower::{Layer, Service};
use tower_resilience_circuitbreaker::{CircuitBreakerLayer, CircuitState};

/// count-based window must slide: only the last N calls count
#[tokio::test]
async fn count_window_slides() {
    let fail = Arc::new(AtomicBool::new(false));
    let f = fail.clone();
    let service = tower::service_fn(move |_req: ()| {
        let f = f.clone();
        async move { if f.load(Ordering::SeqCst) { Err::<(), _>("error") } else { Ok(()) } }
    });
    let layer = CircuitBreakerLayer::builder()
        .failure_rate_threshold(0.5)
        .sliding_window_size(10)
        .minimum_number_of_calls(10)
        .name("slide")
        .build();
    let mut cb: tower_resilience_circuitbreaker::CircuitBreaker<_, _> = layer.layer(service);
    for _ in 0..100 { let _ = cb.call(()).await; }
    assert_eq!(cb.state().await, CircuitState::Closed);
    fail.store(true, Ordering::SeqCst);
    for _ in 0..10 { let _ = cb.call(()).await; }
    // the last 10 calls all failed: rate over the sliding window is 100% >= 50%
    assert_eq!(cb.state().await, CircuitState::Open, "window of the last 10 calls is all failures");
}

/// reset returns to closed with an EMPTY window, also when already closed
#[tokio::test]
async fn reset_when_closed_clears_window() {
    let fail = Arc::new(AtomicBool::new(true));
    let f = fail.clone();
    let service = tower::service_fn(move |_req: ()| {
        let f = f.clone();
        async move { if f.load(Ordering::SeqCst) { Err::<(), _>("error") } else { Ok(()) } }
    });
    let layer = CircuitBreakerLayer::builder()
        .failure_rate_threshold(0.5)
        .sliding_window_size(10)
        .minimum_number_of_calls(10)
        .name("reset")
        .build();
    let mut cb: tower_resilience_circuitbreaker::CircuitBreaker<_, _> = layer.layer(service);
    for _ in 0..4 { let _ = cb.call(()).await; }           // 4 failures recorded, still closed
    assert_eq!(cb.state().await, CircuitState::Closed);
    cb.reset().await;
    assert_eq!(cb.metrics().await.total_calls, 0, "reset must empty the window");
    assert_eq!(cb.metrics().await.failure_count, 0, "reset must empty the window");
}

/// half-open admits at most permitted_calls_in_half_open concurrent trial calls
#[tokio::test]
async fn half_open_admits_at_most_permitted() {
    let fail = Arc::new(AtomicBool::new(true));
    let inner_calls = Arc::new(AtomicUsize::new(0));
    let (f, ic) = (fail.clone(), inner_calls.clone());
    let service = tower::service_fn(move |_req: ()| {
        let (f, ic) = (f.clone(), ic.clone());
        async move {
            if f.load(Ordering::SeqCst) { return Err::<(), _>("error"); }
            ic.fetch_add(1, Ordering::SeqCst);
            tokio::time::sleep(Duration::from_millis(100)).await;   // slow trial call
            Ok(())
        }
    });
    let layer = CircuitBreakerLayer::builder()
        .failure_rate_threshold(0.5)
        .sliding_window_size(4)
        .minimum_number_of_calls(4)
        .wait_duration_in_open(Duration::from_millis(30))
        .permitted_calls_in_half_open(2)
        .name("halfopen")
        .build();
    let mut cb: tower_resilience_circuitbreaker::CircuitBreaker<_, _> = layer.layer(service);
    for _ in 0..4 { let _ = cb.call(()).await; }
    assert_eq!(cb.state().await, CircuitState::Open);
    tokio::time::sleep(Duration::from_millis(50)).await;
    fail.store(false, Ordering::SeqCst);
    // 6 callers arrive while the trials are still running
    let mut hs = Vec::new();
    for _ in 0..6 {
        let mut c = cb.clone();
        hs.push(tokio::spawn(async move { c.call(()).await.is_ok() }));
    }
    for h in hs { let _ = h.await; }
    assert!(inner_calls.load(Ordering::SeqCst) <= 2,
        "{} trial calls reached the inner service, permitted 2", inner_calls.load(Ordering::SeqCst));
}
