//! C13 reproducer: a call stops counting as in flight when it is dropped or its inner call panics.
use std::future::{pending, Future};
use std::pin::Pin;
use std::sync::Arc;
use std::task::{Context, Poll};
use tower::Service;
use tower_resilience_adaptive::{AdaptiveLimiterLayer, Aimd};
use tower::Layer;

#[derive(Clone)]
struct Never;
impl Service<u32> for Never {
    type Response = u32;
    type Error = std::io::Error;
    type Future = Pin<Box<dyn Future<Output = Result<u32, std::io::Error>> + Send>>;
    fn poll_ready(&mut self, _: &mut Context<'_>) -> Poll<Result<(), Self::Error>> { Poll::Ready(Ok(())) }
    fn call(&mut self, _: u32) -> Self::Future { Box::pin(pending()) }
}

#[derive(Clone)]
struct PanicsInCall;
impl Service<u32> for PanicsInCall {
    type Response = u32;
    type Error = std::io::Error;
    type Future = Pin<Box<dyn Future<Output = Result<u32, std::io::Error>> + Send>>;
    fn poll_ready(&mut self, _: &mut Context<'_>) -> Poll<Result<(), Self::Error>> { Poll::Ready(Ok(())) }
    fn call(&mut self, _: u32) -> Self::Future { panic!("inner call panics") }
}

fn alg() -> Arc<Aimd> { Arc::new(Aimd::builder().initial_limit(2).min_limit(1).max_limit(4).build()) }

#[tokio::test]
async fn dropped_before_first_poll_releases() {
    let mut svc = tower_resilience_adaptive::AdaptiveService::new(Never, alg());
    let fut = svc.call(1);
    assert_eq!(svc.in_flight(), 1);
    drop(fut);
    assert_eq!(svc.in_flight(), 0, "dropped (never polled) call still counted in flight");
}

#[tokio::test]
async fn cancelled_while_running_releases() {
    let mut svc = tower_resilience_adaptive::AdaptiveService::new(Never, alg());
    let fut = svc.call(1);
    let r = tokio::time::timeout(std::time::Duration::from_millis(20), fut).await;
    assert!(r.is_err());
    assert_eq!(svc.in_flight(), 0, "cancelled call still counted in flight");
}

#[tokio::test]
async fn panicking_inner_call_releases() {
    let mut svc = tower_resilience_adaptive::AdaptiveService::new(PanicsInCall, alg());
    let r = std::panic::catch_unwind(std::panic::AssertUnwindSafe(|| { let _ = svc.call(1); }));
    assert!(r.is_err());
    assert_eq!(svc.in_flight(), 0, "panicked call still counted in flight");
}
