//! C13 reproducer: the multiplicative decrease goes through f64; for limits above 2^53 the
//! conversion rounds up and the new limit exceeds max_limit.
use tower_resilience_core::aimd::{AimdConfig, AimdController};

#[test]
fn decrease_never_exceeds_max_limit() {
    let max = (1usize << 54) - 1;
    let config = AimdConfig::new()
        .with_min_limit(1)
        .with_max_limit(max)
        .with_initial_limit(max)
        .with_decrease_factor(1.0);
    let c = AimdController::new(config);
    assert_eq!(c.limit(), max);
    c.record_failure();
    assert!(c.limit() <= max, "limit {} exceeds max_limit {}", c.limit(), max);
}
