//! C12 reproducer: all-attempts-failed only when every started attempt has failed.
use std::sync::atomic::{AtomicUsize, Ordering};
use std::sync::Arc;
use std::time::Duration;
use tower::{service_fn, Layer, Service, ServiceExt};
use tower_resilience_hedge::HedgeLayer;

#[derive(Debug, Clone)]
struct E(&'static str);

#[tokio::test]
async fn hedge_success_after_primary_failure() {
    let n = Arc::new(AtomicUsize::new(0));
    let nn = n.clone();
    let service = service_fn(move |_req: String| {
        let k = nn.fetch_add(1, Ordering::SeqCst);
        async move {
            if k == 0 {
                // primary: fails at 40ms, after the hedge (delay 10ms) has been started
                tokio::time::sleep(Duration::from_millis(40)).await;
                Err::<String, E>(E("primary failed"))
            } else {
                // hedge: succeeds at 10+100ms
                tokio::time::sleep(Duration::from_millis(100)).await;
                Ok("from hedge".to_string())
            }
        }
    });
    let layer = HedgeLayer::builder().delay(Duration::from_millis(10)).max_hedged_attempts(2).build();
    let mut svc = layer.layer(service);
    let r = svc.ready().await.unwrap().call("x".to_string()).await;
    assert!(r.is_ok(), "hedge attempt was still running and succeeds, got {:?}", r.as_ref().err());
    assert_eq!(r.unwrap(), "from hedge");
}
