//! C08 reproducer: concurrent deposit/try_withdraw must conserve tokens.
use std::sync::atomic::{AtomicU64, Ordering};
use std::sync::Arc;
use tower_resilience_retry::{RetryBudget, RetryBudgetBuilder};

fn hammer(budget: Arc<dyn RetryBudget>, initial: u64, max: u64) {
    let granted = Arc::new(AtomicU64::new(0));
    let deposits = Arc::new(AtomicU64::new(0));
    let mut hs = Vec::new();
    for t in 0..8 {
        let b = Arc::clone(&budget);
        let g = Arc::clone(&granted);
        let d = Arc::clone(&deposits);
        hs.push(std::thread::spawn(move || {
            for _i in 0..400_000u64 {
                if t != 0 {
                    if b.try_withdraw() {
                        g.fetch_add(1, Ordering::SeqCst);
                    }
                } else {
                    b.deposit();
                    d.fetch_add(1, Ordering::SeqCst);
                }
            }
        }));
    }
    for h in hs {
        h.join().unwrap();
    }
    let g = granted.load(Ordering::SeqCst);
    let d = deposits.load(Ordering::SeqCst);
    let bal = budget.balance() as u64;
    assert!(bal <= max, "balance {bal} above max {max}");
    assert!(
        g + bal <= initial + d,
        "granted {g} + balance {bal} > initial {initial} + deposits {d}: tokens were created"
    );
}

#[test]
fn token_bucket_conserves_tokens() {
    let b = RetryBudgetBuilder::new().token_bucket().max_tokens(100_000_000).initial_tokens(10).build();
    hammer(b, 10, 100_000_000);
}

#[test]
fn aimd_budget_conserves_tokens() {
    let b = RetryBudgetBuilder::new().aimd().min_budget(5).max_budget(100_000_000).build();
    hammer(b, 100_000_000, 100_000_000);
}
