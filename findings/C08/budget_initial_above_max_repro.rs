//! C08 reproducer: a token bucket configured with initial_tokens > max_tokens starts above its maximum.
use tower_resilience_retry::{RetryBudget, RetryBudgetBuilder};

#[test]
fn balance_never_exceeds_max_tokens() {
    let budget = RetryBudgetBuilder::new().token_bucket().max_tokens(3).initial_tokens(10).build();
    assert!(budget.balance() <= 3, "balance {} exceeds max_tokens 3", budget.balance());
    let mut granted = 0;
    while budget.try_withdraw() {
        granted += 1;
        assert!(granted <= 1000);
    }
    assert!(granted <= 3, "{granted} retries granted from a bucket whose maximum balance is 3");
}
