//! Minimal JSON value + writer (the driver has no dependencies).
pub enum J {
    Null,
    Bool(bool),
    Num(i128),
    Str(String),
    Arr(Vec<J>),
    Obj(Vec<(String, J)>),
}

fn esc(out: &mut String, s: &str) {
    out.push('"');
    for c in s.chars() {
        match c {
            '"' => out.push_str("\\\""),
            '\\' => out.push_str("\\\\"),
            '\n' => out.push_str("\\n"),
            '\r' => out.push_str("\\r"),
            '\t' => out.push_str("\\t"),
            c if (c as u32) < 0x20 => out.push_str(&format!("\\u{:04x}", c as u32)),
            c => out.push(c),
        }
    }
    out.push('"');
}

impl J {
    pub fn write(&self, out: &mut String) {
        match self {
            J::Null => out.push_str("null"),
            J::Bool(b) => out.push_str(if *b { "true" } else { "false" }),
            J::Num(n) => out.push_str(&n.to_string()),
            J::Str(s) => esc(out, s),
            J::Arr(v) => {
                out.push('[');
                for (i, x) in v.iter().enumerate() {
                    if i > 0 {
                        out.push(',');
                    }
                    x.write(out);
                }
                out.push(']');
            }
            J::Obj(v) => {
                out.push('{');
                for (i, (k, x)) in v.iter().enumerate() {
                    if i > 0 {
                        out.push(',');
                    }
                    esc(out, k);
                    out.push(':');
                    x.write(out);
                }
                out.push('}');
            }
        }
    }
}
