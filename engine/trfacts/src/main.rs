//! trfacts — rustc_private driver that exports *built* MIR (before drop elaboration and before
//! the coroutine transform) of the crate being compiled as one JSON fact file.
//!
//! Used as RUSTC_WORKSPACE_WRAPPER under `cargo +nightly check`.  Environment:
//!   TRFACTS_OUT     directory for fact files (no dump when unset)
//!   TRFACTS_CONFIG  label of the feature configuration (MIN / FULL / ...)
//!   TRFACTS_PREFIX  only crates whose name starts with this prefix are dumped (default: any)
#![feature(rustc_private)]
#![allow(clippy::all)]

extern crate rustc_abi;
extern crate rustc_driver;
extern crate rustc_hir;
extern crate rustc_interface;
extern crate rustc_middle;
extern crate rustc_span;

mod json;

use json::J;
use rustc_driver::Compilation;
use rustc_hir::def::DefKind;
use rustc_hir::def_id::{DefId, LocalDefId};
use rustc_interface::interface::Compiler;
use rustc_middle::mir::{
    self, AggregateKind, BasicBlock, Body, BorrowKind, CastKind, Const as MirConst, Operand, Place,
    ProjectionElem, Rvalue, StatementKind, TerminatorKind, UnwindAction, VarDebugInfoContents,
};
use rustc_middle::ty::print::{with_no_trimmed_paths, with_no_visible_paths, with_resolve_crate_name, PrintTraitRefExt};
use rustc_middle::ty::{self, GenericArgsRef, Ty, TyCtxt, TypingEnv};
use rustc_span::{ExpnKind, Span};
use std::collections::HashMap;

struct Cb;

impl rustc_driver::Callbacks for Cb {
    fn after_expansion<'tcx>(&mut self, _c: &Compiler, tcx: TyCtxt<'tcx>) -> Compilation {
        let Ok(out) = std::env::var("TRFACTS_OUT") else { return Compilation::Continue };
        let krate = tcx.crate_name(rustc_hir::def_id::LOCAL_CRATE).to_string();
        if let Ok(p) = std::env::var("TRFACTS_PREFIX") {
            if !krate.starts_with(&p) {
                return Compilation::Continue;
            }
        }
        if krate == "build_script_build" || krate == "___" {
            return Compilation::Continue;
        }
        let config = std::env::var("TRFACTS_CONFIG").unwrap_or_else(|_| "X".into());
        let mut ex = Ex { tcx, types: Vec::new(), ty_ix: HashMap::new() };
        let doc = with_resolve_crate_name!(with_no_visible_paths!(with_no_trimmed_paths!(ex.dump_crate(&krate, &config))));
        let mut s = String::with_capacity(1 << 22);
        doc.write(&mut s);
        let path = format!("{}/{}.{}.json", out, krate, config);
        let tmp = format!("{}.tmp{}", path, std::process::id());
        std::fs::write(&tmp, s).expect("trfacts: cannot write fact file");
        std::fs::rename(&tmp, &path).expect("trfacts: cannot rename fact file");
        Compilation::Continue
    }
}

struct Ex<'tcx> {
    tcx: TyCtxt<'tcx>,
    types: Vec<J>,
    ty_ix: HashMap<Ty<'tcx>, usize>,
}

fn s(x: impl Into<String>) -> J {
    J::Str(x.into())
}
fn n(x: usize) -> J {
    J::Num(x as i128)
}

impl<'tcx> Ex<'tcx> {
    fn dp(&self, d: DefId) -> String {
        self.tcx.def_path_str(d)
    }

    fn span(&self, sp: Span) -> J {
        let sm = self.tcx.sess.source_map();
        let mut o = Vec::new();
        let cs = sp.source_callsite();
        let lo = sm.lookup_char_pos(cs.lo());
        let file = match &lo.file.name {
            rustc_span::FileName::Real(r) => match r.local_path() {
                Some(p) => p.to_string_lossy().to_string(),
                None => format!("{:?}", r),
            },
            other => format!("{:?}", other),
        };
        o.push(("file".into(), s(file)));
        o.push(("line".into(), n(lo.line)));
        let hi = sm.lookup_char_pos(cs.hi());
        o.push(("eline".into(), n(hi.line)));
        if sp.from_expansion() {
            let ed = sp.ctxt().outer_expn_data();
            let kind = match ed.kind {
                ExpnKind::Root => "root".to_string(),
                ExpnKind::Macro(_, name) => format!("macro:{}", name),
                ExpnKind::AstPass(p) => format!("astpass:{:?}", p),
                ExpnKind::Desugaring(k) => format!("desugar:{:?}", k),
            };
            o.push(("exp".into(), s(kind)));
            // outermost macro name (e.g. tokio::select) for nested expansions
            let mut cur = sp;
            let mut outer = None;
            let mut guard = 0;
            while cur.from_expansion() && guard < 64 {
                let d = cur.ctxt().outer_expn_data();
                if let ExpnKind::Macro(_, name) = d.kind {
                    outer = Some(name.to_string());
                }
                cur = d.call_site;
                guard += 1;
            }
            if let Some(m) = outer {
                o.push(("omacro".into(), s(m)));
            }
        }
        J::Obj(o)
    }

    fn args_types(&mut self, args: GenericArgsRef<'tcx>) -> J {
        let mut v = Vec::new();
        for a in args.iter() {
            if let Some(t) = a.as_type() {
                v.push(n(self.ty(t)));
            } else if let Some(c) = a.as_const() {
                v.push(s(format!("const:{}", c)));
            }
        }
        J::Arr(v)
    }

    fn ty(&mut self, t: Ty<'tcx>) -> usize {
        if let Some(&i) = self.ty_ix.get(&t) {
            return i;
        }
        let i = self.types.len();
        self.types.push(J::Null);
        self.ty_ix.insert(t, i);
        let mut o: Vec<(String, J)> = Vec::new();
        o.push(("s".into(), s(t.to_string())));
        match *t.kind() {
            ty::Bool | ty::Char | ty::Int(_) | ty::Uint(_) | ty::Float(_) | ty::Str | ty::Never => {
                o.push(("k".into(), s("prim")));
            }
            ty::Adt(def, args) => {
                o.push(("k".into(), s("adt")));
                o.push(("def".into(), s(self.dp(def.did()))));
                let a = self.args_types(args);
                o.push(("args".into(), a));
            }
            ty::Ref(_, inner, m) => {
                o.push(("k".into(), s("ref")));
                o.push(("mut".into(), J::Bool(m.is_mut())));
                let a = self.ty(inner);
                o.push(("args".into(), J::Arr(vec![n(a)])));
            }
            ty::RawPtr(inner, m) => {
                o.push(("k".into(), s("ptr")));
                o.push(("mut".into(), J::Bool(m.is_mut())));
                let a = self.ty(inner);
                o.push(("args".into(), J::Arr(vec![n(a)])));
            }
            ty::Param(p) => {
                o.push(("k".into(), s("param")));
                o.push(("name".into(), s(p.name.to_string())));
            }
            ty::Tuple(ts) => {
                o.push(("k".into(), s("tuple")));
                let mut v = Vec::new();
                for x in ts.iter() {
                    v.push(n(self.ty(x)));
                }
                o.push(("args".into(), J::Arr(v)));
            }
            ty::Closure(def, args) => {
                o.push(("k".into(), s("closure")));
                o.push(("def".into(), s(self.dp(def))));
                let _ = args;
            }
            ty::Coroutine(def, _args) => {
                o.push(("k".into(), s("coroutine")));
                o.push(("def".into(), s(self.dp(def))));
            }
            ty::CoroutineClosure(def, _args) => {
                o.push(("k".into(), s("coroutine_closure")));
                o.push(("def".into(), s(self.dp(def))));
            }
            ty::CoroutineWitness(..) => {
                o.push(("k".into(), s("witness")));
            }
            ty::Alias(al) => {
                let (kind, def) = match al.kind {
                    ty::AliasTyKind::Projection { def_id } => ("projection", def_id),
                    ty::AliasTyKind::Inherent { def_id } => ("inherent", def_id),
                    ty::AliasTyKind::Opaque { def_id } => ("opaque", def_id),
                    ty::AliasTyKind::Free { def_id } => ("free", def_id),
                };
                o.push(("k".into(), s("alias")));
                o.push(("alias".into(), s(kind)));
                o.push(("def".into(), s(self.dp(def))));
                let a = self.args_types(al.args);
                o.push(("args".into(), a));
            }
            ty::Dynamic(preds, _) => {
                o.push(("k".into(), s("dyn")));
                if let Some(p) = preds.principal_def_id() {
                    o.push(("def".into(), s(self.dp(p))));
                }
            }
            ty::FnDef(def, args) => {
                o.push(("k".into(), s("fndef")));
                o.push(("def".into(), s(self.dp(def))));
                let a = self.args_types(args);
                o.push(("args".into(), a));
            }
            ty::FnPtr(..) => {
                o.push(("k".into(), s("fnptr")));
            }
            ty::Slice(inner) => {
                o.push(("k".into(), s("slice")));
                let a = self.ty(inner);
                o.push(("args".into(), J::Arr(vec![n(a)])));
            }
            ty::Array(inner, _) => {
                o.push(("k".into(), s("array")));
                let a = self.ty(inner);
                o.push(("args".into(), J::Arr(vec![n(a)])));
            }
            _ => {
                o.push(("k".into(), s("other")));
            }
        }
        self.types[i] = J::Obj(o);
        i
    }

    fn place(&mut self, body: &Body<'tcx>, p: &Place<'tcx>) -> J {
        let tcx = self.tcx;
        let mut proj = Vec::new();
        let mut pty = mir::PlaceTy::from_ty(body.local_decls[p.local].ty);
        for elem in p.projection.iter() {
            match elem {
                ProjectionElem::Deref => proj.push(s("*")),
                ProjectionElem::Field(f, fty) => {
                    let mut o = vec![("f".to_string(), n(f.as_usize()))];
                    // field name for ADTs
                    if let ty::Adt(def, _) = pty.ty.kind() {
                        let vi = pty.variant_index.unwrap_or(rustc_abi::FIRST_VARIANT);
                        if def.is_struct() || def.is_union() || pty.variant_index.is_some() {
                            if let Some(v) = def.variants().get(vi) {
                                if let Some(fd) = v.fields.get(f) {
                                    o.push(("n".into(), s(fd.name.to_string())));
                                }
                            }
                        }
                        o.push(("adt".into(), s(self.dp(def.did()))));
                    } else {
                        match pty.ty.kind() {
                            ty::Closure(..) => o.push(("adt".into(), s("<closure>"))),
                            ty::Coroutine(..) => o.push(("adt".into(), s("<coroutine>"))),
                            ty::Tuple(..) => o.push(("adt".into(), s("<tuple>"))),
                            _ => {}
                        }
                    }
                    let t = self.ty(fty);
                    o.push(("t".into(), n(t)));
                    proj.push(J::Obj(o));
                }
                ProjectionElem::Index(l) => {
                    proj.push(J::Obj(vec![("index".into(), n(l.as_usize()))]));
                }
                ProjectionElem::ConstantIndex { offset, from_end, .. } => {
                    proj.push(J::Obj(vec![
                        ("cindex".into(), n(offset as usize)),
                        ("from_end".into(), J::Bool(from_end)),
                    ]));
                }
                ProjectionElem::Subslice { .. } => proj.push(s("subslice")),
                ProjectionElem::Downcast(name, vi) => {
                    let mut o = vec![("downcast".to_string(), n(vi.as_usize()))];
                    let nm = match name {
                        Some(nm) => Some(nm.to_string()),
                        None => match pty.ty.kind() {
                            ty::Adt(def, _) => def.variants().get(vi).map(|v| v.name.to_string()),
                            _ => None,
                        },
                    };
                    if let Some(nm) = nm {
                        o.push(("v".into(), s(nm)));
                    }
                    proj.push(J::Obj(o));
                }
                ProjectionElem::OpaqueCast(_) => proj.push(s("opaque_cast")),
                ProjectionElem::UnwrapUnsafeBinder(_) => proj.push(s("unwrap_binder")),
            }
            pty = pty.projection_ty(tcx, elem);
        }
        J::Obj(vec![("l".into(), n(p.local.as_usize())), ("p".into(), J::Arr(proj))])
    }

    fn fn_ref(&mut self, body_def: LocalDefId, def: DefId, args: GenericArgsRef<'tcx>) -> J {
        let tcx = self.tcx;
        let mut o: Vec<(String, J)> = Vec::new();
        o.push(("def".into(), s(self.dp(def))));
        o.push(("path".into(), s(tcx.def_path_str_with_args(def, args))));
        o.push(("krate".into(), s(tcx.crate_name(def.krate).to_string())));
        o.push(("local".into(), J::Bool(def.is_local())));
        if let Some(name) = tcx.opt_item_name(def) {
            o.push(("name".into(), s(name.to_string())));
        }
        let a = self.args_types(args);
        o.push(("args".into(), a));
        let dk = tcx.def_kind(def);
        if matches!(dk, DefKind::AssocFn) {
            if let Some(tr) = tcx.trait_of_assoc(def) {
                o.push(("trait".into(), s(self.dp(tr))));
                if args.len() > 0 {
                    if let Some(st) = args.get(0).and_then(|a| a.as_type()) {
                        let k = match st.kind() {
                            ty::Param(_) => "param",
                            ty::Dynamic(..) => "dyn",
                            ty::Alias(_) => "alias",
                            ty::Closure(..) => "closure",
                            ty::Ref(_, inner, _) => match inner.kind() {
                                ty::Param(_) => "ref_param",
                                ty::Dynamic(..) => "ref_dyn",
                                _ => "concrete",
                            },
                            _ => "concrete",
                        };
                        o.push(("self_kind".into(), s(k)));
                        let t = self.ty(st);
                        o.push(("self_ty".into(), n(t)));
                    }
                }
                // try to resolve to an impl item
                let env = TypingEnv::post_analysis(tcx, body_def.to_def_id());
                let res = std::panic::catch_unwind(std::panic::AssertUnwindSafe(|| {
                    ty::Instance::try_resolve(tcx, env, def, args)
                }));
                if let Ok(Ok(Some(inst))) = res {
                    let rd = inst.def_id();
                    if rd != def {
                        o.push(("resolved".into(), s(self.dp(rd))));
                        o.push(("resolved_local".into(), J::Bool(rd.is_local())));
                    }
                }
            } else if let Some(imp) = tcx.impl_of_assoc(def) {
                let st = tcx.type_of(imp).instantiate_identity().skip_norm_wip();
                let t = self.ty(st);
                o.push(("impl_self".into(), n(t)));
            }
        }
        J::Obj(o)
    }

    fn konst(&mut self, body_def: LocalDefId, c: &mir::ConstOperand<'tcx>) -> J {
        let tcx = self.tcx;
        let cty = c.const_.ty();
        let mut o: Vec<(String, J)> = Vec::new();
        let t = self.ty(cty);
        o.push(("ty".into(), n(t)));
        if let ty::FnDef(def, args) = *cty.kind() {
            let f = self.fn_ref(body_def, def, args);
            o.push(("fn".into(), f));
            return J::Obj(vec![("const".into(), J::Obj(o))]);
        }
        o.push(("disp".into(), s(format!("{}", c.const_))));
        match c.const_ {
            MirConst::Unevaluated(u, _) => {
                o.push(("uneval".into(), s(self.dp(u.def))));
                if u.promoted.is_some() {
                    o.push(("promoted".into(), J::Bool(true)));
                }
            }
            _ => {
                if let Some(sc) = c.const_.try_to_scalar() {
                    if let mir::interpret::Scalar::Int(i) = sc {
                        let bits = i.to_bits_unchecked();
                        o.push(("bits".into(), s(format!("{}", bits))));
                        if cty.is_floating_point() {
                            let f = match i.size().bytes() {
                                4 => f32::from_bits(bits as u32) as f64,
                                8 => f64::from_bits(bits as u64),
                                _ => f64::NAN,
                            };
                            o.push(("float".into(), s(format!("{:?}", f))));
                        }
                    }
                }
            }
        }
        let _ = tcx;
        J::Obj(vec![("const".into(), J::Obj(o))])
    }

    fn operand(&mut self, body_def: LocalDefId, body: &Body<'tcx>, op: &Operand<'tcx>) -> J {
        match op {
            Operand::Copy(p) => J::Obj(vec![("copy".into(), self.place(body, p))]),
            Operand::Move(p) => J::Obj(vec![("move".into(), self.place(body, p))]),
            Operand::Constant(c) => self.konst(body_def, c),
            _ => J::Obj(vec![("runtime_checks".into(), J::Bool(true))]),
        }
    }

    fn rvalue(&mut self, bd: LocalDefId, body: &Body<'tcx>, rv: &Rvalue<'tcx>) -> J {
        let mut o: Vec<(String, J)> = Vec::new();
        match rv {
            Rvalue::Use(op, _) => {
                o.push(("k".into(), s("use")));
                o.push(("op".into(), self.operand(bd, body, op)));
            }
            Rvalue::Repeat(op, _) => {
                o.push(("k".into(), s("repeat")));
                o.push(("op".into(), self.operand(bd, body, op)));
            }
            Rvalue::Ref(_, bk, p) => {
                o.push(("k".into(), s("ref")));
                let m = match bk {
                    BorrowKind::Shared => "shared",
                    BorrowKind::Fake(_) => "fake",
                    BorrowKind::Mut { .. } => "mut",
                };
                o.push(("bk".into(), s(m)));
                o.push(("place".into(), self.place(body, p)));
            }
            Rvalue::ThreadLocalRef(d) => {
                o.push(("k".into(), s("tls")));
                o.push(("def".into(), s(self.dp(*d))));
            }
            Rvalue::RawPtr(_, p) => {
                o.push(("k".into(), s("rawptr")));
                o.push(("place".into(), self.place(body, p)));
            }
            Rvalue::Cast(ck, op, t) => {
                o.push(("k".into(), s("cast")));
                let ckn = match ck {
                    CastKind::IntToInt => "IntToInt".to_string(),
                    CastKind::FloatToInt => "FloatToInt".to_string(),
                    CastKind::FloatToFloat => "FloatToFloat".to_string(),
                    CastKind::IntToFloat => "IntToFloat".to_string(),
                    CastKind::PtrToPtr => "PtrToPtr".to_string(),
                    CastKind::Transmute => "Transmute".to_string(),
                    CastKind::PointerCoercion(pc, _) => format!("PointerCoercion:{:?}", pc),
                    other => format!("{:?}", other),
                };
                o.push(("ck".into(), s(ckn)));
                o.push(("op".into(), self.operand(bd, body, op)));
                let ti = self.ty(*t);
                o.push(("ty".into(), n(ti)));
            }
            Rvalue::BinaryOp(bop, ab) => {
                o.push(("k".into(), s("binop")));
                o.push(("op".into(), s(format!("{:?}", bop))));
                o.push(("a".into(), self.operand(bd, body, &ab.0)));
                o.push(("b".into(), self.operand(bd, body, &ab.1)));
            }
            Rvalue::UnaryOp(uop, a) => {
                o.push(("k".into(), s("unop")));
                o.push(("op".into(), s(format!("{:?}", uop))));
                o.push(("a".into(), self.operand(bd, body, a)));
            }
            Rvalue::Discriminant(p) => {
                o.push(("k".into(), s("discr")));
                o.push(("place".into(), self.place(body, p)));
                let pt = p.ty(&body.local_decls, self.tcx).ty;
                let ti = self.ty(pt);
                o.push(("ty".into(), n(ti)));
                if let ty::Adt(adt, _) = pt.kind() {
                    if adt.is_enum() {
                        let mut vs = Vec::new();
                        for (vi, v) in adt.variants().iter_enumerated() {
                            let d = adt.discriminant_for_variant(self.tcx, vi);
                            vs.push(J::Arr(vec![s(v.name.to_string()), s(format!("{}", d.val))]));
                        }
                        o.push(("variants".into(), J::Arr(vs)));
                    }
                }
            }
            Rvalue::Aggregate(ak, ops) => {
                o.push(("k".into(), s("agg")));
                match &**ak {
                    AggregateKind::Array(_) => o.push(("ak".into(), s("array"))),
                    AggregateKind::Tuple => o.push(("ak".into(), s("tuple"))),
                    AggregateKind::Adt(def, vi, _args, _, active) => {
                        o.push(("ak".into(), s("adt")));
                        o.push(("def".into(), s(self.dp(*def))));
                        let adt = self.tcx.adt_def(*def);
                        let v = &adt.variants()[*vi];
                        o.push(("variant".into(), s(v.name.to_string())));
                        o.push(("vi".into(), n(vi.as_usize())));
                        let mut fn_ = Vec::new();
                        if let Some(a) = active {
                            fn_.push(s(v.fields[*a].name.to_string()));
                        } else {
                            for f in v.fields.iter() {
                                fn_.push(s(f.name.to_string()));
                            }
                        }
                        o.push(("fields".into(), J::Arr(fn_)));
                    }
                    AggregateKind::Closure(def, _) => {
                        o.push(("ak".into(), s("closure")));
                        o.push(("def".into(), s(self.dp(*def))));
                    }
                    AggregateKind::Coroutine(def, _) => {
                        o.push(("ak".into(), s("coroutine")));
                        o.push(("def".into(), s(self.dp(*def))));
                    }
                    AggregateKind::CoroutineClosure(def, _) => {
                        o.push(("ak".into(), s("coroutine_closure")));
                        o.push(("def".into(), s(self.dp(*def))));
                    }
                    AggregateKind::RawPtr(..) => o.push(("ak".into(), s("rawptr"))),
                }
                let mut v = Vec::new();
                for op in ops.iter() {
                    v.push(self.operand(bd, body, op));
                }
                o.push(("ops".into(), J::Arr(v)));
            }
            Rvalue::CopyForDeref(p) => {
                o.push(("k".into(), s("use")));
                o.push(("op".into(), J::Obj(vec![("copy".into(), self.place(body, p))])));
                o.push(("cfd".into(), J::Bool(true)));
            }
            Rvalue::WrapUnsafeBinder(op, _) => {
                o.push(("k".into(), s("use")));
                o.push(("op".into(), self.operand(bd, body, op)));
            }
        }
        J::Obj(o)
    }

    fn unwind(&self, u: &UnwindAction) -> J {
        match u {
            UnwindAction::Continue => s("continue"),
            UnwindAction::Unreachable => s("unreachable"),
            UnwindAction::Terminate(_) => s("terminate"),
            UnwindAction::Cleanup(bb) => n(bb.as_usize()),
        }
    }

    fn wants_body(&self, def: LocalDefId) -> bool {
        let did = def.to_def_id();
        matches!(self.tcx.def_kind(did), DefKind::Fn | DefKind::AssocFn | DefKind::Closure)
    }

    fn body(&mut self, def: LocalDefId, body: &Body<'tcx>) -> Option<J> {
        let tcx = self.tcx;
        let did = def.to_def_id();
        let dk = tcx.def_kind(did);
        let kind = match dk {
            DefKind::Fn | DefKind::AssocFn => "fn",
            DefKind::Closure => {
                if tcx.is_coroutine(did) {
                    "coroutine"
                } else {
                    "closure"
                }
            }
            DefKind::Const { .. } | DefKind::AssocConst { .. } | DefKind::Static { .. } | DefKind::AnonConst | DefKind::InlineConst => "const",
            _ => "other",
        };
        if kind == "const" || kind == "other" {
            return None;
        }
        let mut o: Vec<(String, J)> = Vec::new();
        o.push(("def".into(), s(self.dp(did))));
        o.push(("key".into(), s(tcx.def_path(did).to_string_no_crate_verbose())));
        o.push(("kind".into(), s(kind)));
        if let Some(name) = tcx.opt_item_name(did) {
            o.push(("name".into(), s(name.to_string())));
        }
        let parent = tcx.parent(did);
        if matches!(dk, DefKind::Closure) {
            o.push(("parent".into(), s(self.dp(parent))));
            if let Some(ck) = tcx.coroutine_kind(did) {
                o.push(("coroutine_kind".into(), s(format!("{:?}", ck))));
            }
        }
        let root = tcx.typeck_root_def_id(did);
        o.push(("root".into(), s(self.dp(root))));
        // enclosing impl of the root item
        if matches!(tcx.def_kind(root), DefKind::AssocFn) {
            let cont = tcx.parent(root);
            if let DefKind::Impl { of_trait } = tcx.def_kind(cont) {
                let st = tcx.type_of(cont).instantiate_identity().skip_norm_wip();
                let sti = self.ty(st);
                let mut io = vec![("self_ty".to_string(), n(sti))];
                if of_trait {
                    let tr = tcx.impl_trait_ref(cont).instantiate_identity().skip_norm_wip();
                    io.push(("trait".into(), s(self.dp(tr.def_id))));
                    io.push(("trait_ref".into(), s(format!("{}", tr.print_only_trait_path()))));
                }
                o.push(("impl".into(), J::Obj(io)));
            } else if matches!(tcx.def_kind(cont), DefKind::Trait) {
                o.push(("in_trait".into(), s(self.dp(cont))));
            }
        }
        if matches!(dk, DefKind::Fn | DefKind::AssocFn) {
            let vis = tcx.visibility(did);
            o.push(("vis".into(), s(if vis.is_public() { "pub".to_string() } else { format!("{:?}", vis) })));
            o.push(("is_async".into(), J::Bool(tcx.asyncness(did).is_async())));
        }
        o.push(("span".into(), self.span(body.span)));
        o.push(("arg_count".into(), n(body.arg_count)));
        // locals
        let mut names: HashMap<usize, String> = HashMap::new();
        let mut dbg = Vec::new();
        for vdi in body.var_debug_info.iter() {
            if let VarDebugInfoContents::Place(p) = &vdi.value {
                if p.projection.is_empty() {
                    names.entry(p.local.as_usize()).or_insert(vdi.name.to_string());
                }
                let pl = self.place(body, p);
                dbg.push(J::Obj(vec![("name".into(), s(vdi.name.to_string())), ("place".into(), pl)]));
            }
        }
        let mut locals = Vec::new();
        for (l, decl) in body.local_decls.iter_enumerated() {
            let ti = self.ty(decl.ty);
            let mut lo = vec![("ty".to_string(), n(ti))];
            if let Some(nm) = names.get(&l.as_usize()) {
                lo.push(("name".into(), s(nm.clone())));
            }
            if decl.is_user_variable() {
                lo.push(("user".into(), J::Bool(true)));
            }
            lo.push(("line".into(), n(self.tcx.sess.source_map().lookup_char_pos(decl.source_info.span.source_callsite().lo()).line)));
            locals.push(J::Obj(lo));
        }
        o.push(("locals".into(), J::Arr(locals)));
        o.push(("debug".into(), J::Arr(dbg)));
        // blocks
        let mut blocks = Vec::new();
        for (_bb, data) in body.basic_blocks.iter_enumerated() {
            let mut stmts = Vec::new();
            for st in data.statements.iter() {
                match &st.kind {
                    StatementKind::Assign(b) => {
                        let (p, rv) = &**b;
                        let lhs = self.place(body, p);
                        let r = self.rvalue(def, body, rv);
                        stmts.push(J::Obj(vec![
                            ("k".into(), s("assign")),
                            ("lhs".into(), lhs),
                            ("rv".into(), r),
                            ("span".into(), self.span(st.source_info.span)),
                        ]));
                    }
                    StatementKind::SetDiscriminant { place, variant_index } => {
                        let lhs = self.place(body, place);
                        stmts.push(J::Obj(vec![
                            ("k".into(), s("setdiscr")),
                            ("lhs".into(), lhs),
                            ("vi".into(), n(variant_index.as_usize())),
                            ("span".into(), self.span(st.source_info.span)),
                        ]));
                    }
                    StatementKind::StorageLive(l) => {
                        stmts.push(J::Obj(vec![("k".into(), s("live")), ("l".into(), n(l.as_usize()))]));
                    }
                    StatementKind::StorageDead(l) => {
                        stmts.push(J::Obj(vec![("k".into(), s("dead")), ("l".into(), n(l.as_usize()))]));
                    }
                    _ => {}
                }
            }
            let term = data.terminator();
            let mut t: Vec<(String, J)> = Vec::new();
            match &term.kind {
                TerminatorKind::Goto { target } => {
                    t.push(("k".into(), s("goto")));
                    t.push(("target".into(), n(target.as_usize())));
                }
                TerminatorKind::SwitchInt { discr, targets } => {
                    t.push(("k".into(), s("switch")));
                    t.push(("discr".into(), self.operand(def, body, discr)));
                    let mut tv = Vec::new();
                    for (v, bb) in targets.iter() {
                        tv.push(J::Arr(vec![s(format!("{}", v)), n(bb.as_usize())]));
                    }
                    t.push(("targets".into(), J::Arr(tv)));
                    t.push(("otherwise".into(), n(targets.otherwise().as_usize())));
                }
                TerminatorKind::UnwindResume => t.push(("k".into(), s("resume"))),
                TerminatorKind::UnwindTerminate(_) => t.push(("k".into(), s("terminate"))),
                TerminatorKind::Return => t.push(("k".into(), s("return"))),
                TerminatorKind::Unreachable => t.push(("k".into(), s("unreachable"))),
                TerminatorKind::Drop { place, target, unwind, drop, .. } => {
                    t.push(("k".into(), s("drop")));
                    t.push(("place".into(), self.place(body, place)));
                    t.push(("target".into(), n(target.as_usize())));
                    t.push(("unwind".into(), self.unwind(unwind)));
                    if let Some(d) = drop {
                        t.push(("cdrop".into(), n(d.as_usize())));
                    }
                }
                TerminatorKind::Call { func, args, destination, target, unwind, fn_span, .. } => {
                    t.push(("k".into(), s("call")));
                    t.push(("func".into(), self.operand(def, body, func)));
                    let mut av = Vec::new();
                    for a in args.iter() {
                        av.push(self.operand(def, body, &a.node));
                    }
                    t.push(("args".into(), J::Arr(av)));
                    t.push(("dest".into(), self.place(body, destination)));
                    match target {
                        Some(bb) => t.push(("target".into(), n(bb.as_usize()))),
                        None => t.push(("target".into(), J::Null)),
                    }
                    t.push(("unwind".into(), self.unwind(unwind)));
                    t.push(("fn_span".into(), self.span(*fn_span)));
                }
                TerminatorKind::TailCall { func, args, .. } => {
                    t.push(("k".into(), s("tailcall")));
                    t.push(("func".into(), self.operand(def, body, func)));
                    let mut av = Vec::new();
                    for a in args.iter() {
                        av.push(self.operand(def, body, &a.node));
                    }
                    t.push(("args".into(), J::Arr(av)));
                }
                TerminatorKind::Assert { cond, expected, msg, target, unwind } => {
                    t.push(("k".into(), s("assert")));
                    t.push(("cond".into(), self.operand(def, body, cond)));
                    t.push(("expected".into(), J::Bool(*expected)));
                    let mk = format!("{:?}", msg);
                    let mk = mk.split('(').next().unwrap_or("").trim().to_string();
                    t.push(("msg".into(), s(mk)));
                    t.push(("target".into(), n(target.as_usize())));
                    t.push(("unwind".into(), self.unwind(unwind)));
                }
                TerminatorKind::Yield { value, resume, resume_arg, drop } => {
                    t.push(("k".into(), s("yield")));
                    t.push(("value".into(), self.operand(def, body, value)));
                    t.push(("resume".into(), n(resume.as_usize())));
                    t.push(("resume_arg".into(), self.place(body, resume_arg)));
                    match drop {
                        Some(bb) => t.push(("drop".into(), n(bb.as_usize()))),
                        None => t.push(("drop".into(), J::Null)),
                    }
                }
                TerminatorKind::CoroutineDrop => t.push(("k".into(), s("coroutine_drop"))),
                TerminatorKind::FalseEdge { real_target, imaginary_target } => {
                    t.push(("k".into(), s("false_edge")));
                    t.push(("target".into(), n(real_target.as_usize())));
                    t.push(("imaginary".into(), n(imaginary_target.as_usize())));
                }
                TerminatorKind::FalseUnwind { real_target, unwind } => {
                    t.push(("k".into(), s("false_unwind")));
                    t.push(("target".into(), n(real_target.as_usize())));
                    t.push(("unwind".into(), self.unwind(unwind)));
                }
                TerminatorKind::InlineAsm { .. } => t.push(("k".into(), s("asm"))),
            }
            t.push(("span".into(), self.span(term.source_info.span)));
            let mut bo = vec![("stmts".to_string(), J::Arr(stmts)), ("term".to_string(), J::Obj(t))];
            if data.is_cleanup {
                bo.push(("cleanup".into(), J::Bool(true)));
            }
            blocks.push(J::Obj(bo));
        }
        let _ = BasicBlock::from_usize(0);
        o.push(("blocks".into(), J::Arr(blocks)));
        Some(J::Obj(o))
    }

    fn dump_crate(&mut self, krate: &str, config: &str) -> J {
        let tcx = self.tcx;
        let mut bodies = Vec::new();
        // Phase 1: clone every built body before any query that could steal it
        // (opaque-type inference runs borrowck, which steals mir_built).
        let mut cloned: Vec<(LocalDefId, Body<'tcx>)> = Vec::new();
        for def in tcx.hir_body_owners() {
            if self.wants_body(def) {
                let b = tcx.mir_built(def).borrow().clone();
                cloned.push((def, b));
            }
        }
        for (def, b) in cloned.iter() {
            if let Some(j) = self.body(*def, b) {
                bodies.push(j);
            }
        }
        // ADTs, impls, fns
        let mut adts = Vec::new();
        let mut impls = Vec::new();
        for ld in tcx.hir_crate_items(()).definitions() {
            let did = ld.to_def_id();
            match tcx.def_kind(did) {
                DefKind::Struct | DefKind::Enum | DefKind::Union => {
                    let adt = tcx.adt_def(did);
                    let mut o: Vec<(String, J)> = Vec::new();
                    o.push(("def".into(), s(self.dp(did))));
                    o.push(("kind".into(), s(if adt.is_enum() { "enum" } else if adt.is_struct() { "struct" } else { "union" })));
                    let vis = tcx.visibility(did);
                    o.push(("vis".into(), s(if vis.is_public() { "pub".to_string() } else { format!("{:?}", vis) })));
                    let mut vs = Vec::new();
                    for (vi, v) in adt.variants().iter_enumerated() {
                        let mut fs = Vec::new();
                        for f in v.fields.iter() {
                            let fty = tcx.type_of(f.did).instantiate_identity().skip_norm_wip();
                            let ti = self.ty(fty);
                            let fv = tcx.visibility(f.did);
                            fs.push(J::Obj(vec![
                                ("name".into(), s(f.name.to_string())),
                                ("ty".into(), n(ti)),
                                ("vis".into(), s(if fv.is_public() { "pub".to_string() } else { format!("{:?}", fv) })),
                            ]));
                        }
                        let mut vo = vec![("name".to_string(), s(v.name.to_string())), ("fields".to_string(), J::Arr(fs))];
                        if adt.is_enum() {
                            let d = adt.discriminant_for_variant(tcx, vi);
                            vo.push(("discr".into(), s(format!("{}", d.val))));
                        }
                        vs.push(J::Obj(vo));
                    }
                    o.push(("variants".into(), J::Arr(vs)));
                    o.push(("span".into(), self.span(tcx.def_span(did))));
                    adts.push(J::Obj(o));
                }
                DefKind::Impl { of_trait } => {
                    let mut o: Vec<(String, J)> = Vec::new();
                    let st = tcx.type_of(did).instantiate_identity().skip_norm_wip();
                    let sti = self.ty(st);
                    o.push(("self_ty".into(), n(sti)));
                    if of_trait {
                        let tr = tcx.impl_trait_ref(did).instantiate_identity().skip_norm_wip();
                        o.push(("trait".into(), s(self.dp(tr.def_id))));
                        o.push(("trait_ref".into(), s(format!("{}", tr.print_only_trait_path()))));
                        let a = self.args_types(tr.args);
                        o.push(("trait_args".into(), a));
                    }
                    let mut items = Vec::new();
                    for it in tcx.associated_items(did).in_definition_order() {
                        items.push(J::Obj(vec![
                            ("name".into(), s(it.opt_name().map(|x| x.to_string()).unwrap_or_default())),
                            ("def".into(), s(self.dp(it.def_id))),
                            ("kind".into(), s(format!("{:?}", it.tag()))),
                        ]));
                    }
                    o.push(("items".into(), J::Arr(items)));
                    o.push(("span".into(), self.span(tcx.def_span(did))));
                    o.push(("automatically_derived".into(), J::Bool(tcx.is_automatically_derived(did))));
                    impls.push(J::Obj(o));
                }
                _ => {}
            }
        }
        J::Obj(vec![
            ("crate".into(), s(krate)),
            ("config".into(), s(config)),
            ("bodies".into(), J::Arr(bodies)),
            ("adts".into(), J::Arr(adts)),
            ("impls".into(), J::Arr(impls)),
            ("types".into(), J::Arr(std::mem::take(&mut self.types))),
        ])
    }
}

fn main() {
    let mut args: Vec<String> = std::env::args().collect();
    // RUSTC_WORKSPACE_WRAPPER passes the real rustc path as argv[1]
    if args.len() > 1 && (args[1].ends_with("rustc") || args[1].contains("/rustc")) {
        args.remove(1);
    }
    let mut cb = Cb;
    rustc_driver::run_compiler(&args, &mut cb);
}
