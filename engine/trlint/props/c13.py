"""C13 — adaptive limiter keeps its limit in bounds and its in-flight count exact."""
from ..core import graph, Call, peel, leaves, show, N
from ..atomic import atomic_fields, sites, atomic_method, word_of, loads_in, CAS
from ..pair import Pair

EXPLANATION = (
    "Decides (PAIR) that after the in-flight counter is incremented every exit of the call path — return, "
    "unwinding out of the wrapped service's call, coroutine-drop at each await (cancellation) and drop before the "
    "first poll — decrements it again, RAII-aware over built MIR with explicit unwind and coroutine-drop edges; "
    "(CLAMP) by abstract interpretation in the two-bit domain (>= min proven, <= max proven) that every value "
    "ever written to a limit word (constructor, Clone, every store / fetch_update of AimdController.limit and "
    "Vegas.limit) is within [min_limit, max_limit], which holds for every interleaving because each write is "
    "individually clamped; (GATE) that poll_ready answers Pending for capacity only under in_flight >= limit(), "
    "after waking the task, and otherwise forwards to the wrapped service. Not decided: (x as f64 * k) as usize "
    "<= x assumes limits < 2^53 and k in [0,1] (the property's stated range)."
    ' Float-to-integer casts prove nothing (a product with a factor <= 1 can still round up): every such value must be clamped explicitly.')
RULE = "one obligation per acquire site x exit class, per limit write site, per Pending return site"
TRUSTED = ["std atomics", "rustc MIR construction incl. drop/unwind/coroutine-drop edges", "may-unwind policy table (DESIGN §2.2)"]
ASSUMPTIONS = ["min_limit <= max_limit", "decrease factor in [0,1]", "limits < 2^53"]
CONFIG_CRATES = ["tower_resilience_adaptive", "tower_resilience_core"]
TECHNIQUE = "static analysis of built MIR: acquire/release pairing over all exits (unwind + coroutine-drop edges), abstract interpretation (clamp domain), guard dominance"

ALG_TRAIT = "tower_resilience_adaptive::algorithm::ConcurrencyAlgorithm"
SERVICE_ADT = "tower_resilience_adaptive::service::AdaptiveService"


def _ret_origins(tr, body):
    out = []
    for i, blk in enumerate(body.blocks):
        for j, s in enumerate(blk["stmts"]):
            if s["k"] == "assign" and s["lhs"]["l"] == 0 and not s["lhs"]["p"]:
                if s["rv"]["k"] == "use":
                    out.append(tr.expand(tr.operand(body, s["rv"]["op"], (i, j))))
                else:
                    out.append(tr.place(body, {"l": 0, "p": []}, (i, j + 1)))
        t = blk["term"]
        if t["k"] == "call" and t["dest"]["l"] == 0 and not t["dest"]["p"]:
            out.append(("call", body.crate.name, body.def_, i))
    return out


def _follow_accessor(facts, tr, body, depth=0):
    """what a small accessor returns: ('word', (adt, field)) for an atomic load, ('field', (adt, name))"""
    res = []
    for n in _ret_origins(tr, body):
        for lf in leaves(n):
            lf = peel(lf)
            if lf[0] == "call":
                c = tr.call_of(lf)
                if atomic_method(c) == "load":
                    w, _ = word_of(tr, c.g.b, c.args[0], c.loc)
                    res.append(("word", w))
                    continue
                if depth < 3:
                    for d in c.targets_def():
                        b2 = facts.bodies.get(d)
                        if b2 is not None:
                            res += _follow_accessor(facts, tr, b2, depth + 1)
            elif lf[0] == "field":
                res.append(("field", (lf[3], lf[2])))
    return res


def run(facts, tr, rep):
    # shallow view: glue methods of the service (an extracted `at_capacity`, a shared `sync_permits`) are inlined;
    # the algorithms' methods stay calls
    facts, tr = facts.shallow, tr.shallow
    # ------------------------------------------------------------ discover words and bounds
    algs = []
    for c in facts.crates.values():
        for im in c.impls:
            if im.get("trait") == ALG_TRAIT:
                st = c.types[im["self_ty"]]
                if st.get("k") == "adt":
                    algs.append((c, im, st["def"]))
    if not algs:
        rep.anchor_missing(ALG_TRAIT)
        return
    rep.floor("C13.algorithms", len(algs), 2)
    words = {}
    for (c, im, adt_def) in algs:
        items = {it["name"]: it["def"] for it in im["items"]}
        acc = {}
        for nm in ("limit", "min_limit", "max_limit"):
            b = facts.bodies.get(items.get(nm))
            if b is None:
                rep.anchor_missing("%s::%s" % (adt_def, nm))
                continue
            rep.saw(b)
            acc[nm] = _follow_accessor(facts, tr, b)
        ws = [x[1] for x in acc.get("limit", []) if x[0] == "word" and x[1]]
        lo = [x[1] for x in acc.get("min_limit", []) if x[0] == "field"]
        hi = [x[1] for x in acc.get("max_limit", []) if x[0] == "field"]
        for w in ws:
            words[w] = (set(lo), set(hi))
    rep.floor("C13.limit-words", len(words), 2)

    # ------------------------------------------------------------ CLAMP
    nwrites = 0
    for w, (lo, hi) in sorted(words.items()):
        nwrites += _clamp_word(facts, tr, rep, w, lo, hi)
    rep.floor("C13.limit-writes", nwrites, 5)      # identical update sites may be merged into one helper

    # ------------------------------------------------------------ PAIR on the in-flight counter
    svc = facts.adt(SERVICE_ADT)
    if svc is None:
        rep.anchor_missing(SERVICE_ADT)
        return
    # the counter is the word the public `in_flight()` accessor loads
    acc_b = facts.bodies.get(SERVICE_ADT + "::<S, A>::in_flight")
    if acc_b is None:
        rep.anchor_missing(SERVICE_ADT + "::in_flight")
        return
    cw = [x[1] for x in _follow_accessor(facts, tr, acc_b) if x[0] == "word" and x[1]]
    if not cw:
        rep.anchor_missing("in-flight counter word behind AdaptiveService::in_flight()")
        return
    aliases = _alias_words(facts, tr, set(cw))
    rep.note("in-flight counter word %s; aliases through Arc::clone into %s" % (cw, sorted(aliases - set(cw))))

    def on_counter(body, c, methods):
        m = atomic_method(c)
        if m not in methods or not c.args:
            return False
        w, n = word_of(tr, body, c.args[0], c.loc)
        if w in aliases:
            return True
        # receiver is a parameter / upvar that was bound to the counter
        n2 = peel(tr.expand(n, upvars=True, params=True))
        w2 = None
        if n2[0] == "field":
            w2 = (n2[3], n2[2])
        elif n2[0] == "call":
            cc = tr.call_of(n2)
            if cc.def_ == "core::clone::Clone::clone":
                w2, _ = word_of(tr, cc.g.b, cc.args[0], cc.loc)
        return w2 in aliases

    is_acq = lambda body, c: on_counter(body, c, ("fetch_add",))
    is_rel = lambda body, c: on_counter(body, c, ("fetch_sub",))
    P = Pair(facts, tr, is_rel)
    rep.note("guard types whose Drop releases the counter: %s" % sorted(P.guard_types))
    acquires = []
    for b in facts.all_bodies():
        g = graph(b)
        for c in g.calls():
            if is_acq(b, c):
                acquires.append((b, c))
    rep.floor("C13.in-flight-increments", len(acquires), 1)
    done = set()
    work = [(b, c, None) for (b, c) in acquires]
    nrel = 0
    while work:
        b, c, holder = work.pop()
        if (b.def_, c.bb) in done:
            continue
        done.add((b.def_, c.bb))
        rep.saw(b)
        viol, transfers = P.explore(b, c.target, holder) if c.target is not None else ([], [])
        base = "%s|%s" % (b.crate.name, b.def_)
        # group violations by exit class
        classes = {}
        for (kind, where, path) in viol:
            classes.setdefault(kind, (where, path))
        for kind in ("resume", "unwind-exit", "return", "coroutine_drop", "forget", "state-budget"):
            if kind in classes:
                where, path = classes[kind]
                what = {"resume": "unwinding (e.g. out of the wrapped service's call)",
                        "unwind-exit": "unwinding straight out of the function",
                        "return": "returning", "coroutine_drop": "the future being dropped while suspended",
                        "forget": "the guard being forgotten", "state-budget": "state budget exhausted"}[kind]
                rep.ob("C13.PAIR", "%s|acquire@%s|exit:%s" % (base, _ord(b, c), kind), False, where,
                       "in-flight counter incremented at %s is not decremented on %s; path %s"
                       % (c.where(), what, P.describe_path(b, path)))
        if not viol:
            nrel += 1
            rep.ob("C13.PAIR", "%s|acquire@%s" % (base, _ord(b, c)), True, c.where(),
                   "every exit after the increment at %s releases (explicit decrement, guard drop, or guard moved into the "
                   "returned value)" % c.where())
        if transfers and not viol:
            # the guard travels in the return value: callers hold it
            for cs in tr.callers(b.def_):
                work.append((cs.g.b, cs, cs.dest["l"]))
            # ... or inside a returned future: check its captures are not forgotten
            if not tr.callers(b.def_):
                pass
        if b.kind == "fn" and transfers:
            _check_children(facts, tr, rep, P, b)
        if holder is None and ("return" in classes):
            # raw hand-off into a returned future: it can be dropped before the first poll
            rep.ob("C13.PAIR", "%s|acquire@%s|exit:never-polled" % (base, _ord(b, c)), False, c.where(),
                   "the decrement is left to straight-line code of the returned future: dropping that future before its "
                   "first poll or while it is suspended never runs it")

    # ------------------------------------------------------------ GATE
    pr = None
    for b in facts.all_bodies():
        if b.name == "poll_ready" and b.impl and b.impl.get("trait") == "tower_service::Service" and b.types[b.impl["self_ty"]].get("def") == SERVICE_ADT:
            pr = b
    if pr is None:
        rep.anchor_missing("Service::poll_ready of AdaptiveService")
        return
    rep.saw(pr)
    g = graph(pr)
    npend = 0
    for i, blk in enumerate(pr.blocks):
        for j, s in enumerate(blk["stmts"]):
            if s["k"] == "assign" and s["lhs"]["l"] == 0 and s["rv"]["k"] == "agg" and s["rv"].get("variant") == "Pending":
                npend += 1
                ok_guard = False
                gd = ""
                for bb in range(g.n):
                    sw = g.switch(bb)
                    if sw is None or sw.kind != "bool":
                        continue
                    cond = peel(tr.operand(pr, sw.cond, (bb, len(g.stmts(bb)))))
                    if cond[0] != "binop" or cond[1] not in ("Ge", "Lt", "Gt", "Le"):
                        continue
                    a, b2 = peel(cond[2]), peel(cond[3])
                    a_is_cnt = _is_counter_load(tr, a, aliases)
                    b_is_cnt = _is_counter_load(tr, b2, aliases)
                    a_is_lim = _is_limit_call(tr, a)
                    b_is_lim = _is_limit_call(tr, b2)
                    edge = None
                    if a_is_cnt and b_is_lim:
                        edge = {"Ge": "true", "Lt": "false"}.get(cond[1])
                    elif a_is_lim and b_is_cnt:
                        edge = {"Le": "true", "Gt": "false"}.get(cond[1])
                    if edge and g.edge_dominates((bb, sw.variants[edge]), i):
                        ok_guard = True
                        gd = g.where(bb)
                rep.ob("C13.GATE", "%s|%s|pending#%d" % (pr.crate.name, pr.def_, npend - 1), ok_guard, g.where(i, j),
                       "Pending is returned only under in_flight >= limit() (%s)" % gd if ok_guard else
                       "Pending is returned on a path not guarded by in_flight >= limit()")
                wakes = [c.bb for c in g.calls() if c.name in ("wake_by_ref", "wake") or (c.name == "clone" and "Waker" in c.path)]
                r = g.reach([0], kinds=(N,), avoid_nodes=wakes)
                ok_wake = i not in r or i in wakes
                rep.ob("C13.WAKE", "%s|%s|pending#%d" % (pr.crate.name, pr.def_, npend - 1), ok_wake, g.where(i, j),
                       "the task is woken (or its waker stored) on every path to this Pending" if ok_wake else
                       "Pending returned without waking or registering the waker: lost wake-up")
    rep.floor("C13.gate-pending-sites", npend, 1)


def _ord(b, c):
    g = graph(b)
    same = sorted(x.bb for x in g.calls() if x.def_ == c.def_)
    return "%s#%d" % (c.name, same.index(c.bb))


def _check_children(facts, tr, rep, P, parent):
    for ch in facts.children.get(parent.def_, []):
        if ch.crate is not parent.crate:
            continue
        for (pb, bb, idx, rv) in tr.aggsites((ch.crate.name, ch.def_)):
            for k, op in enumerate(rv["ops"]):
                pl = op.get("move")
                if pl is None:
                    continue
                if P.is_guard_ty(pb.local_ty(pl["l"]), pb.types) and not pl["p"]:
                    leaks = P.captured_guard_leaks(ch, k)
                    rep.ob("C13.PAIR", "%s|%s|captured-guard#%d" % (ch.crate.name, ch.def_, k), not leaks,
                           "%s:%d" % (ch.span["file"], ch.span["line"]),
                           "guard captured by the returned future is dropped with it on every exit (completion, cancellation, "
                           "never-polled drop); it is never forgotten" if not leaks else
                           "captured guard is forgotten at %s" % leaks[0].where())


def _alias_words(facts, tr, seed):
    """fields that hold an Arc clone (or move) of a word in `seed` (fixpoint over aggregates)"""
    words = set(seed)
    changed = True
    while changed:
        changed = False
        for b in facts.all_bodies():
            for i, blk in enumerate(b.blocks):
                for j, s in enumerate(blk["stmts"]):
                    if s["k"] != "assign" or s["rv"]["k"] != "agg" or s["rv"]["ak"] != "adt":
                        continue
                    rv = s["rv"]
                    for k, op in enumerate(rv["ops"]):
                        if k >= len(rv["fields"]):
                            continue
                        w = (rv["def"], rv["fields"][k])
                        if w in words:
                            continue
                        n = tr.expand(tr.operand(b, op, (i, j)), upvars=True, params=True)
                        for lf in leaves(n):
                            lf = peel(lf)
                            src = None
                            if lf[0] == "call":
                                c = tr.call_of(lf)
                                if c.def_ == "core::clone::Clone::clone" and c.args:
                                    src, _ = word_of(tr, c.g.b, c.args[0], c.loc, params=True)
                            elif lf[0] == "field":
                                src = (lf[3], lf[2])
                            if src in words:
                                words.add(w)
                                changed = True
    return words


def _is_counter_load(tr, n, aliases):
    if n[0] != "call":
        return False
    c = tr.call_of(n)
    if atomic_method(c) != "load":
        return False
    w, _ = word_of(tr, c.g.b, c.args[0], c.loc)
    return w in aliases


def _is_limit_call(tr, n):
    if n[0] != "call":
        return False
    c = tr.call_of(n)
    return c.name == "limit"


# ------------------------------------------------------------------ clamp domain
NUMERIC_CASTS = ("IntToInt", "FloatToInt", "IntToFloat", "FloatToFloat")


def _strip(node):
    """peel refs/derefs and non-numeric casts"""
    while True:
        if node[0] in ("ref", "deref"):
            node = node[1]
        elif node[0] == "cast" and node[1] not in NUMERIC_CASTS:
            node = node[2]
        else:
            return node


def _clamp_word(facts, tr, rep, word, lo, hi):
    nw = 0
    wname = "%s.%s" % (word[0].split("::")[-1], word[1])

    def bound_is(node, bounds, ctor_ctx=None):
        for lf in leaves(tr.expand(node)):
            lf = peel(lf)
            if lf[0] == "field" and (lf[3], lf[2]) in bounds:
                continue
            if ctor_ctx is not None and lf in ctor_ctx:
                continue
            return False
        return True

    def ev(node, ctx, depth=0):
        """(ge_lo, le_hi) proven for node; ctx = dict(current=set(nodes treated as the invariant word value),
        lo=set(ctor nodes), hi=set(ctor nodes))"""
        node = _strip(node)
        if depth > 25:
            return (False, False)
        if node in ctx["current"]:
            return (True, True)
        k = node[0]
        if k == "phi":
            rs = [ev(x, ctx, depth + 1) for x in node[1]]
            return (all(r[0] for r in rs), all(r[1] for r in rs))
        if k == "call":
            c = tr.call_of(node)
            m = atomic_method(c)
            if m == "load":
                w, _ = word_of(tr, c.g.b, c.args[0], c.loc)
                if w == word:
                    return (True, True)
                return (False, False)
            args = [tr.expand(tr.operand(c.g.b, a, c.loc)) for a in c.args]
            d = c.def_ or ""
            nm = c.name
            if d in ("core::cmp::Ord::min", "core::cmp::min") and len(args) == 2:
                if bound_is(args[1], hi, ctx["hi"]):
                    return (ev(args[0], ctx, depth + 1)[0], True)
                if bound_is(args[0], hi, ctx["hi"]):
                    return (ev(args[1], ctx, depth + 1)[0], True)
                a, b = ev(args[0], ctx, depth + 1), ev(args[1], ctx, depth + 1)
                return (a[0] and b[0], a[1] or b[1])
            if d in ("core::cmp::Ord::max", "core::cmp::max") and len(args) == 2:
                if bound_is(args[1], lo, ctx["lo"]):
                    return (True, ev(args[0], ctx, depth + 1)[1])
                if bound_is(args[0], lo, ctx["lo"]):
                    return (True, ev(args[1], ctx, depth + 1)[1])
                a, b = ev(args[0], ctx, depth + 1), ev(args[1], ctx, depth + 1)
                return (a[0] or b[0], a[1] and b[1])
            if d == "core::cmp::Ord::clamp" and len(args) == 3:
                if bound_is(args[1], lo, ctx["lo"]) and bound_is(args[2], hi, ctx["hi"]):
                    return (True, True)
                return (False, False)
            if nm in ("saturating_add", "wrapping_add", "checked_add") and args:
                return (ev(args[0], ctx, depth + 1)[0] and nm == "saturating_add", False)
            if nm in ("saturating_sub",) and args:
                return (False, ev(args[0], ctx, depth + 1)[1])
            hb = tr.local_sync_callee(node)
            if hb is not None and depth < 20:
                with tr.bound(hb, node):
                    rs = [ev(r, ctx, depth + 1) for r in tr.helper_returns(hb)]
                if rs:
                    return (all(r[0] for r in rs), all(r[1] for r in rs))
            cc_ = tr.closure_callees(node) if depth < 20 else None
            if cc_:
                # `f(current)` where f is a workspace closure handed to a generic update helper (every call site counts)
                rs = []
                for (child_, bind_) in cc_:
                    with bind_:
                        rs += [ev(r, ctx, depth + 1) for r in tr.helper_returns(child_)]
                if rs:
                    return (all(r[0] for r in rs), all(r[1] for r in rs))
            return (False, False)
        if k == "binop":
            op = node[1]
            a = ev(node[2], ctx, depth + 1)
            if op in ("Add", "AddWithOverflow", "AddUnchecked"):
                return (a[0], False)
            if op in ("Sub", "SubWithOverflow", "SubUnchecked", "Div", "Shr", "Rem"):
                return (False, a[1])
            if op == "Mul":
                # x as f64 * k with k in [0,1]: handled at the cast
                return (False, False)
            return (False, False)
        if k == "field":
            # the value a compare-exchange hands back (`Err(actual)` / `Ok(previous)`) is a value the word held
            base_ = _strip(node[1])
            if base_[0] == "downcast" and _strip(base_[1])[0] == "call":
                cc0 = tr.call_of(_strip(base_[1]))
                if atomic_method(cc0) in ("compare_exchange", "compare_exchange_weak", "fetch_update", "try_update", "swap") and cc0.args:
                    w0, _ = word_of(tr, cc0.g.b, cc0.args[0], cc0.loc)
                    if w0 == word:
                        return (True, True)
            # `.0` of a checked-arithmetic tuple
            return ev(node[1], ctx, depth + 1)
        if k == "cast":
            inner = _strip(node[2])
            if node[1] == "FloatToInt":
                # float arithmetic proves nothing: `x as f64` rounds up above 2^53, and the factor is a configuration
                # value; the result must be clamped explicitly
                return (False, False)
            return ev(node[2], ctx, depth + 1)
        return (False, False)

    def judge(b, where, key, val, ctx, what):
        r = ev(val, ctx)
        ok = r[0] and r[1]
        rep.ob("C13.CLAMP", key, ok, where,
               "%s %s: value proven within [min_limit, max_limit]" % (what, wname) if ok else
               "%s %s: value not proven %s (expression %s)" % (what, wname,
                " and ".join(x for x, y in ((">= min_limit", r[0]), ("<= max_limit", r[1])) if not y), show(peel(val))))

    empty = {"current": set(), "lo": set(), "hi": set()}
    for (b, c, m) in sites(facts, tr, word):
        rep.saw(b)
        g = graph(b)
        same = sorted(x.bb for x in g.calls() if x.def_ == c.def_)
        key = "%s|%s|%s#%d" % (b.crate.name, b.def_, m, same.index(c.bb))
        if m == "store":
            nw += 1
            judge(b, c.where(), key, tr.expand(tr.operand(b, c.args[1], c.loc)), empty, "store to")
        elif m in CAS:
            nw += 1
            judge(b, c.where(), key, tr.expand(tr.operand(b, c.args[2], c.loc)), empty, "compare-exchange on")
        elif m in ("fetch_update", "try_update", "update"):
            nw += 1
            clo = peel(tr.expand(tr.operand(b, c.args[-1], c.loc)))
            if clo[0] != "agg":
                rep.ob("C13.CLAMP", key, False, c.where(), "fetch_update closure not resolvable")
                continue
            cb, rv = tr.agg_of(clo)
            child = [x for x in facts.crates[cb.crate.name].bodies if x.def_ == rv["def"]]
            if not child:
                rep.ob("C13.CLAMP", key, False, c.where(), "fetch_update closure body not found")
                continue
            child = child[0]
            rep.saw(child)
            ctx = {"current": {("param", child.crate.name, child.def_, 2)}, "lo": set(), "hi": set()}
            from .c08 import _returned_values
            vals = _returned_values(tr, child)
            if not vals:
                rep.ob("C13.CLAMP", key, False, c.where(), "fetch_update closure returns no recognisable Some(value)")
            for v in vals:
                judge(child, c.where(), key, v, ctx, "fetch_update of")
        elif m in ("fetch_add", "fetch_sub", "swap", "fetch_max", "fetch_min"):
            nw += 1
            rep.ob("C13.CLAMP", key, False, c.where(), "%s on %s is not clamped" % (m, wname))
    # initialisations: aggregates of the owning ADT
    for b in facts.all_bodies():
        for i, blk in enumerate(b.blocks):
            for j, s in enumerate(blk["stmts"]):
                if s["k"] != "assign" or s["rv"]["k"] != "agg" or s["rv"]["ak"] != "adt" or s["rv"]["def"] != word[0]:
                    continue
                rv = s["rv"]
                if word[1] not in rv["fields"]:
                    continue
                rep.saw(b)
                nw += 1
                fi = rv["fields"].index(word[1])
                init = peel(tr.expand(tr.operand(b, rv["ops"][fi], (i, j))))
                # Atomic::new(x)
                val = init
                if init[0] == "call":
                    ic = tr.call_of(init)
                    if atomic_method(ic) == "new":
                        val = tr.expand(tr.operand(ic.g.b, ic.args[0], ic.loc))
                ctx = {"current": set(), "lo": set(), "hi": set()}
                for (bounds, slot) in ((lo, "lo"), (hi, "hi")):
                    for (adt, fname) in bounds:
                        if adt == word[0] and fname in rv["fields"]:
                            o = tr.expand(tr.operand(b, rv["ops"][rv["fields"].index(fname)], (i, j)))
                            for lf in leaves(o):
                                ctx[slot].add(peel(lf))
                key = "%s|%s|init" % (b.crate.name, b.def_)
                judge(b, "%s:%d" % (b.span["file"], s["span"]["line"]), key, val, ctx, "initialisation of")
    return nw
