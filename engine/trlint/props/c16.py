"""C16 — reconnect retries only connection failures, a bounded number of times."""
from ..core import graph, Call, peel, leaves, show, N, U, D
from ..util import *

EXPLANATION = (
    "The retry loop is a hand-written poll state machine whose counter is a field of the future; the bound follows "
    "from structural obligations plus a short meta-argument. Decided: (SITES) the wrapped service is called once in "
    "Service::call and, inside poll, only in the phase entered after the back-off sleep completed and "
    "retry_on_reconnect was true; (RETRY-GATE) every transition into the sleeping phase is dominated by the Err "
    "edge of the inner poll, the `true` answer of should_reconnect(&error) for that error, exactly one "
    "`attempt += 1`, and — when max_attempts is Some(max) — the test attempt <= max; the sleep lasts "
    "policy.delay_for_attempt(attempt); (COUNTER) the attempt field is written only by that increment and its "
    "initialisation to 0 (nothing resets it); hence each retry is preceded by a distinct increment that passed "
    "attempt <= max, so retries <= max and inner calls <= max+1; (ERRORS) a refused error is returned as "
    "ServiceError(that error); exhaustion returns MaxAttemptsExceeded boxing the last error, which was assigned "
    "the current error on that path; success returns the inner Ok payload; (STATE) mark_connected precedes the Ok "
    "return and mark_disconnected lies on every reconnectable-error path before any exit. Not decided: delay "
    "values (C14)."
    ' (CONFIG build-alter) the built max_attempts is the configured one, not a filtered/mapped version of it.'
    ' (STATE connected-is-final) after the state is marked connected the request is answered without entering another phase or touching the wrapped service.')
RULE = "one obligation per wrapped-call site, per set-sleeping site and gate, per writer of the counter, per error construction, per state mark"
TRUSTED = ["tokio::time::Sleep", "pin-project projection", "rustc MIR construction"]
ASSUMPTIONS = ["should_reconnect / max_attempts / retry_on_reconnect / delay_for_attempt are the public configuration names"]
CONFIG_CRATES = ["tower_resilience_reconnect"]
TECHNIQUE = "static analysis of built MIR: edge dominance over the poll state machine, who-writes on the attempt counter, value-flow of returned errors"

CRATE = "tower_resilience_reconnect"


class _SetSite:
    """`phase.set(Phase::V(..))`, or the place where the Phase::V value is built when the set is shared by several arms
    (`let next = match .. { .. => Phase::V(..), .. }; phase.set(next)`): guards are looked for where the value is decided"""

    def __init__(self, g, c, bb, idx):
        self.g, self.c, self.bb, self.idx = g, c, bb, idx
        self.args, self.loc = c.args, c.loc

    def where(self):
        return self.g.where(self.bb, self.idx) if self.bb != self.c.bb else self.c.where()


def _phase_sets(tr, b):
    """(site, variant, aggregate node) for `phase.set(Phase::V(..))`"""
    out = []
    g = graph(b)
    for c in g.calls():
        if c.name == "set" and "Pin" in (c.def_ or "") and len(c.args) > 1:
            vs = leaves(tr.expand(tr.operand(b, c.args[1], c.loc)))
            for v in vs:
                v = peel(v)
                if v[0] == "agg":
                    b2, rv = tr.agg_of(v)
                    if rv["ak"] == "adt" and rv["def"].endswith("::Phase"):
                        site = _SetSite(g, c, c.bb, None) if len(vs) == 1 or b2 is not b else _SetSite(g, c, v[3], v[4])
                        out.append((site, rv["variant"], v))
    return out


def _field_writes_named(b, name):
    out = []
    for i, blk in enumerate(b.blocks):
        for j, s in enumerate(blk["stmts"]):
            if s["k"] != "assign" or not s["lhs"]["p"]:
                continue
            names = [e.get("n") for e in s["lhs"]["p"] if isinstance(e, dict) and "f" in e]
            if names and names[-1] == name:
                out.append((i, j, s))
    return out


def _reads_field(node, name):
    """the operand is the field `name` itself (`x.f + 1` increments f; `shared.fetch_add(1) + 1` does not)"""
    for lf in leaves(node):
        lf = peel(lf)
        if lf[0] == "cycle":
            continue            # the loop-carried value of the same place
        if not (lf[0] == "field" and lf[2] == name):
            return False
    return True


def _discover_counter(tr, poll):
    """the field of the future that poll increments by one (the per-request attempt counter), by role"""
    cands = {}
    for i, blk in enumerate(poll.blocks):
        for j, s in enumerate(blk["stmts"]):
            if s["k"] != "assign" or not s["lhs"]["p"]:
                continue
            names = [e.get("n") for e in s["lhs"]["p"] if isinstance(e, dict) and "f" in e]
            if not names:
                continue
            v = peel(tr.stmt_value(poll, i, j))
            if v[0] == "field" and peel(v[1])[0] == "binop":
                v = peel(v[1])
            if v[0] == "binop" and v[1] in ("Add", "AddWithOverflow") and peel(v[3])[0] == "const" and peel(v[3])[3] == "1" and _reads_field(v[2], names[-1]):
                cands[names[-1]] = cands.get(names[-1], 0) + 1
    return sorted(cands, key=lambda k: -cands[k])[0] if cands else None


def _sleep_done(tr, edges):
    for e in edges:
        n = e["node"]
        if e["kind"] == "enum" and e["label"] == "Ready" and n[0] == "call" and "Sleep" in (tr.call_of(n).path or ""):
            return True
        if e["kind"] == "bool" and n[0] == "call":
            c = tr.call_of(n)
            if c.name in ("is_pending", "is_ready") and c.args:
                src = peel(tr.expand(tr.operand(c.g.b, c.args[0], c.loc)))
                if src[0] == "call" and "Sleep" in (tr.call_of(src).path or ""):
                    if (c.name == "is_pending" and e["label"] == "false") or (c.name == "is_ready" and e["label"] == "true"):
                        return True
    return False


def _flag_true(tr, edges, field):
    for e in edges:
        if e["kind"] != "bool":
            continue
        nd = e["node"]
        neg = False
        while nd[0] == "unop" and nd[1] == "Not":
            neg = not neg
            nd = peel(nd[2])
        if mentions_field(tr, nd, field) and nd[0] != "call" and ((e["label"] == "true") != neg):
            return True
    return False


ROLE_NAMES = ("should_reconnect", "delay_for_attempt", "mark_connected", "mark_disconnected", "mark_reconnecting", "project")


def reconnect_view(facts):
    from ..inline import view_of
    return view_of(facts, {b0.def_ for b0 in facts.crates[CRATE].bodies if b0.kind == "fn" and b0.name in ROLE_NAMES})


def run(facts, tr, rep):
    _n_ops = check_no_panicking_time_arith(facts, tr, rep, "C16.NO-PANIC-ARITH", facts.crates[CRATE].bodies)
    rep.note("panicking Instant/Duration operators examined in the crate: %d" % _n_ops)
    # the state's transitions, the reconnect predicate and the delay policy stay calls (they are what the rules ask
    # about); every other private helper of the service and of its future is inlined (a `FailureVerdict::decide`
    # classification step, a shared `Phase::dispatch` that makes the wrapped call, event helpers)
    from ..inline import view_of
    facts, tr = reconnect_view(facts)
    sbs = service_call_bodies(facts, crate=CRATE)
    if not sbs:
        rep.anchor_missing("Service::call of the reconnect service")
        return
    sb = sbs[0]
    poll = None
    for b in facts.crates[CRATE].bodies:
        if b.name == "poll" and b.impl and b.impl.get("trait") == "core::future::future::Future" and "ReconnectFuture" in b.types[b.impl["self_ty"]]["s"]:
            poll = b
    if poll is None:
        rep.anchor_missing("Future::poll of ReconnectFuture")
        return
    rep.saw(sb)
    rep.saw(poll)
    g = graph(poll)
    # ---------------------------------------------------------------- SITES
    first = [c for (b, c) in inner_calls(facts, sb)]
    retry = [c for c in g.calls() if c.def_ == "tower_service::Service::call" and c.self_kind in ("param", "ref_param")]
    rep.ob("C16.SITES", skey(sb, "first-call"), len(first) == 1 and not graph(sb).in_cycle(first[0].bb), first[0].where() if first else "-",
           "Service::call makes exactly one wrapped call" if len(first) == 1 else "Service::call makes %d wrapped calls" % len(first))
    rep.floor("C16.retry-call-sites", len(retry), 1)
    sets = _phase_sets(tr, poll)
    sleeping_sets = [(c, v, n) for (c, v, n) in sets if v == "Sleeping"]
    rep.floor("C16.set-sleeping-sites", len(sleeping_sets), 1)
    # the phase from which the retry call is made, and how that phase is entered
    for n, c in enumerate(retry):
        edges = dominating_edges(tr, poll, c.bb)
        phase = [e["label"] for e in edges if e["kind"] in ("enum", "int") and e["node"][0] == "call" and tr.call_of(e["node"]).name == "project"
                 or (e["kind"] == "enum" and e["label"] in ("Sleeping", "Connecting", "Calling"))]
        ph = None
        # the projected phase enum is switched on its discriminant: find the variant whose arm dominates the call
        for e in edges:
            if e["kind"] == "enum" and e["label"] in ("Sleeping", "Connecting", "Calling", "Failed"):
                ph = e["label"]
        ok = False
        detail = ""
        if ph == "Sleeping":
            sl = _sleep_done(tr, edges)
            fl = _flag_true(tr, edges, "retry_on_reconnect")
            ok = sl and fl
            detail = "in the sleeping phase after the sleep completed and retry_on_reconnect was true"
        elif ph is not None:
            # entered only from the sleeping phase under the same two conditions
            enters = [(sc, v, nn) for (sc, v, nn) in sets if v == ph]
            ok = bool(enters)
            for (sc, v, nn) in enters:
                ee = dominating_edges(tr, poll, sc.bb)
                sl = _sleep_done(tr, ee)
                fl = _flag_true(tr, ee, "retry_on_reconnect")
                ok = ok and sl and fl
            detail = "in phase %s, which is entered only after the sleep completed and retry_on_reconnect was true" % ph
        rep.ob("C16.SITES", skey(poll, "retry-call#%d" % n), ok, c.where(),
               "the retried wrapped call is made %s" % detail if ok else
               "the retried wrapped call is not confined to 'sleep completed and retry_on_reconnect' (phase %s)" % ph)
    # ---------------------------------------------------------------- RETRY-GATE
    inner_polls = [c for c in g.calls() if c.def_ == "core::future::future::Future::poll" and c.self_kind in ("alias", "param")]
    IP = [("call", poll.crate.name, poll.def_, c.bb) for c in inner_polls]
    CNT = _discover_counter(tr, poll)
    if CNT is None:
        rep.ob("C16.COUNTER", skey(poll, "attempt-counter"), False, "-", "poll increments no per-request counter")
        return
    rep.note("attempt counter field (by role): %s" % CNT)
    aw = _field_writes_named(poll, CNT)
    incs = []
    for (i, j, s) in aw:
        v = peel(tr.stmt_value(poll, i, j))
        if v[0] == "field" and peel(v[1])[0] == "binop":
            v = peel(v[1])
        if v[0] == "binop" and v[1] in ("Add", "AddWithOverflow") and peel(v[3])[0] == "const" and peel(v[3])[3] == "1" and _reads_field(v[2], CNT):
            incs.append((i, j))
    for n, (c, v, node) in enumerate(sleeping_sets):
        edges = dominating_edges(tr, poll, c.bb)
        k = skey(poll, "set-sleeping#%d" % n)
        e_err = any(e["kind"] == "enum" and e["label"] == "Err" and any(derives(tr, e["node"], V, variants=("Ready",)) for V in IP) for e in edges)
        pred = None
        for e in edges:
            if e["kind"] == "bool" and e["node"][0] in ("call", "unop"):
                nd = e["node"]
                neg = False
                while nd[0] == "unop" and nd[1] == "Not":
                    neg = not neg
                    nd = peel(nd[2])
                if nd[0] == "call" and tr.call_of(nd).name == "should_reconnect":
                    holds = (e["label"] == "true") != neg
                    cc = tr.call_of(nd)
                    arg = peel(tr.expand(tr.operand(poll, cc.args[1], cc.loc)))
                    cur = any(derives(tr, arg, V, variants=("Ready", "Err")) for V in IP)
                    pred = holds and cur
        rep.ob("C16.RETRY-GATE", k + "|err", e_err, c.where(),
               "back-off is entered only on the Err edge of the inner poll" if e_err else "back-off can be entered without the inner call having failed")
        rep.ob("C16.RETRY-GATE", k + "|predicate", bool(pred), c.where(),
               "back-off is entered only when should_reconnect(&error) accepted this very error" if pred else
               "back-off can be entered without should_reconnect(&error) having accepted the error (on every attempt)")
        inc_dom = [(i, j) for (i, j) in incs if g.node_dominates(i, c.bb)]
        rep.ob("C16.RETRY-GATE", k + "|increment", len(inc_dom) == 1 and len(incs) == 1, c.where(),
               "exactly one `attempt += 1` precedes the back-off" if len(inc_dom) == 1 and len(incs) == 1 else
               "%d increment(s) of the attempt counter dominate the back-off (%d in total)" % (len(inc_dom), len(incs)))
        # max test: on the Some(max) edge the set is dominated by attempt <= max
        some_edges = [e for e in edges if e["kind"] == "enum" and e["label"] == "Some" and mentions_field(tr, e["node"], "max_attempts")]
        none_ok = True
        sw_max = None
        for bb in range(g.n):
            sw = g.switch(bb)
            if sw is not None and sw.kind == "enum" and "Some" in sw.variants:
                nd = peel(tr.expand(tr.place(poll, sw.place, sw.defloc)))
                if mentions_field(tr, nd, "max_attempts") and c.bb in g.reach([bb], kinds=(N,)):
                    sw_max = sw
        bound_ok = False

        def attempt_vs_max(cm):
            """edge label on which attempt <= max holds, for a comparison between the counter and max_attempts"""
            op, x, y = cm
            fx = any(n[0] == "field" and n[2] == CNT for n in tr.walk(x, limit=30))
            fy = any(n[0] == "field" and n[2] == CNT for n in tr.walk(y, limit=30))
            mx = mentions_field(tr, x, "max_attempts")
            my = mentions_field(tr, y, "max_attempts")
            if op == "Gt" and fx and my:
                return "false"
            if op == "Le" and fx and my:
                return "true"
            if op == "Lt" and fy and mx:
                return "false"
            if op == "Ge" and fy and mx:
                return "true"
            return None
        start_blocks = [sw_max.variants["Some"]] if sw_max is not None else [0]
        for bb in g.reach(start_blocks, kinds=(N,)):
            s2 = g.switch(bb)
            if s2 is None or s2.kind != "bool":
                continue
            node2 = peel(tr.expand(tr.operand(poll, s2.cond, (bb, len(g.stmts(bb))))))
            if node2[0] == "phi":
                # a flag that holds the comparison on the Some(max) side and a constant on the unlimited side (an inlined
                # `attempts_exhausted(attempt)`): on the paths examined here (from the Some edge) it is the comparison
                alts_ = [peel(x) for x in node2[1] if peel(x)[0] != "const"]
                if len(alts_) == 1:
                    node2 = alts_[0]
            lab = None
            cm = normalise_cmp(tr, node2)
            if cm is not None:
                lab = attempt_vs_max(cm)
            else:
                hb_ = tr.local_sync_callee(node2)
                if hb_ is not None and hb_.local_ty(0)["s"] == "bool":
                    # e.g. `config.attempts_exhausted(attempt)`: returns `attempt > max` when a maximum is set, else false
                    with tr.bound(hb_, node2):
                        labs = set()
                        okh = True
                        for r_ in tr.helper_returns(hb_):
                            for lf in leaves(r_):
                                lf = peel(tr.expand(lf, upvars=True))
                                if lf[0] == "const":
                                    if lf[1] != "false":
                                        okh = False
                                    continue
                                cm2 = normalise_cmp(tr, lf)
                                l2 = attempt_vs_max(cm2) if cm2 else None
                                if l2 is None:
                                    okh = False
                                else:
                                    labs.add(l2)
                        if okh and labs == {"false"}:
                            lab = "false"
            if lab:
                good_edge = (bb, s2.variants[lab])
                r = g.reach(start_blocks, kinds=(N,), avoid_edges=[good_edge])
                if c.bb not in r:
                    bound_ok = True
        rep.ob("C16.RETRY-GATE", k + "|bound", bound_ok, c.where(),
               "with max_attempts = Some(max) back-off is entered only while attempt <= max" if bound_ok else
               "with max_attempts = Some(max) back-off can be entered without the test attempt <= max")
        # sleep duration
        sl = peel(tr.expand(tr.operand(poll, tr.agg_of(node)[1]["ops"][0], (node[3], node[4]))))
        dfa = calls_in(tr, sl, lambda cc: cc.name == "delay_for_attempt")
        okd = False
        if dfa:
            a = peel(tr.expand(tr.operand(dfa[0].g.b, dfa[0].args[1], dfa[0].loc), upvars=True, params=True))
            okd = any(x[0] == "field" and x[2] == CNT for x in tr.walk(a, limit=40))
        else:
            # the policy lookup may sit in a private helper (`retry_delay(config, attempt)`)
            for x in tr.walk(sl, limit=60):
                hb_ = tr.local_sync_callee(x) if x[0] == "call" else None
                if hb_ is None:
                    continue
                inner = [cc for cc in graph(hb_).calls() if cc.name == "delay_for_attempt"]
                if inner:
                    with tr.bound(hb_, x):
                        a = tr.expand(tr.operand(hb_, inner[0].args[1], inner[0].loc), upvars=True)
                    okd = any(y[0] == "field" and y[2] == CNT for y in tr.walk(a, limit=40))
        rep.ob("C16.RETRY-GATE", k + "|delay", okd, c.where(),
               "the back-off lasts policy.delay_for_attempt(attempt)" if okd else "the back-off duration is not policy.delay_for_attempt(attempt)")
    # ---------------------------------------------------------------- COUNTER
    others = [(i, j) for (i, j, s) in aw if (i, j) not in incs]
    rep.ob("C16.COUNTER", skey(poll, "attempt-writers"), not others and len(incs) == 1, g.where(*(others[0] if others else incs[0])) if (others or incs) else "-",
           "the attempt counter is written only by its single increment" if not others and len(incs) == 1 else
           "the attempt counter is also written at %s: a reset or extra write un-bounds the number of retries of one request"
           % [g.where(i, j) for (i, j) in others])
    # initialised to 0 where the future is built
    inits = []
    # the struct that holds the counter: the future itself, or a private struct it groups its bookkeeping in
    cnt_adts = {"tower_resilience_reconnect::service::ReconnectFuture"}
    for (i_, j_, s_) in aw:
        last_ = s_["lhs"]["p"][-1]
        if isinstance(last_, dict) and last_.get("adt") and facts.adt(last_["adt"]) is not None:
            cnt_adts.add(last_["adt"])
    for (ab, i, j, rv) in [x for a_ in sorted(cnt_adts) for x in agg_sites(facts, a_)]:
        if CNT in rv["fields"]:
            v = peel(tr.operand(ab, rv["ops"][rv["fields"].index(CNT)], (i, j)))
            inits.append((ab, i, j, v))
    for (ab, i, j, v) in inits:
        rep.ob("C16.COUNTER", skey(ab, "attempt-init"), v[0] == "const" and v[3] == "0", where(ab, i, j),
               "each request starts with attempt = 0" if v[0] == "const" and v[3] == "0" else "the attempt counter starts at %s" % show(v))
    rep.floor("C16.future-constructions", len(inits), 1)
    # writers in other bodies of the crate
    ext = []
    for b in facts.crates[CRATE].bodies:
        if b is poll:
            continue
        for (i, j, s) in _field_writes_named(b, CNT):
            if "ReconnectFuture" in str(s["lhs"]["p"]) or "Projection" in str(s["lhs"]["p"]):
                ext.append((b, i, j))
    rep.ob("C16.COUNTER", "%s|attempt-external-writers" % CRATE, not ext, "-",
           "no other function writes the request's attempt counter" if not ext else "attempt counter written in %s" % [b.def_ for (b, _i, _j) in ext])
    # ---------------------------------------------------------------- ERRORS / STATE
    nerr = 0
    for i, blk in enumerate(poll.blocks):
        for j, s in enumerate(blk["stmts"]):
            if s["k"] != "assign" or s["rv"]["k"] != "agg" or s["rv"]["ak"] != "adt" or not s["rv"]["def"].endswith("ReconnectError"):
                continue
            v = s["rv"]["variant"]
            nerr += 1
            edges = dominating_edges(tr, poll, i)
            payload = peel(tr.expand(tr.operand(poll, s["rv"]["ops"][-1], (i, j))))
            if v == "ServiceError":
                cur = any(derives(tr, payload, V, variants=("Ready", "Err")) for V in IP)
                readiness = payload[0] == "downcast" or any(x[0] == "call" and tr.call_of(x).name == "poll_ready" for x in tr.walk(payload, limit=20))
                refused = any(e["kind"] == "bool" and (e["node"][0] == "call" and tr.call_of(e["node"]).name == "should_reconnect" and e["label"] == "false"
                                                        or e["node"][0] == "unop") for e in edges)
                ok = (cur and refused) or readiness
                rep.ob("C16.ERRORS", skey(poll, "ServiceError#%d" % nerr), ok, g.where(i, j),
                       "ServiceError wraps the current inner error on the refused edge (or a readiness error)" if ok else
                       "ServiceError does not wrap the error that was just refused")
            elif v == "MaxAttemptsExceeded":
                # payload = Box::new(last_error.take().unwrap()); last_error was assigned the current error on this path
                pf = {x[2] for x in tr.walk(payload, limit=40) if x[0] == "field"}
                from_last = False
                assigned = False
                for ii, blk2 in enumerate(poll.blocks):
                    for jj, s2 in enumerate(blk2["stmts"]):
                        if s2["k"] == "assign" and s2["lhs"]["p"]:
                            names = [e.get("n") for e in s2["lhs"]["p"] if isinstance(e, dict) and "f" in e]
                            if names and names[-1] in pf and g.node_dominates(ii, i):
                                from_last = True
                                val = peel(tr.stmt_value(poll, ii, jj))
                                if val[0] == "agg":
                                    _bb, rv2 = tr.agg_of(val)
                                    if rv2.get("variant") == "Some":
                                        inner = peel(tr.expand(tr.operand(poll, rv2["ops"][0], (val[3], val[4]))))
                                        assigned = any(derives(tr, inner, V, variants=("Ready", "Err")) for V in IP)
                # ... or stored with `slot.replace(err)` / `slot.insert(err)`, which always overwrite (`get_or_insert` does not)
                for c2 in g.calls():
                    if c2.name in ("replace", "insert") and "option::Option" in (c2.def_ or c2.path or "") and len(c2.args) == 2 and g.node_dominates(c2.bb, i):
                        rc = tr.expand(tr.operand(poll, c2.args[0], c2.loc))
                        if any(x[0] == "field" and x[2] in pf for x in tr.walk(rc, limit=20)):
                            from_last = True
                            inner = peel(tr.expand(tr.operand(poll, c2.args[1], c2.loc)))
                            assigned = assigned or any(derives(tr, inner, V, variants=("Ready", "Err")) for V in IP)
                rep.ob("C16.ERRORS", skey(poll, "MaxAttemptsExceeded#%d" % nerr), from_last and assigned, g.where(i, j),
                       "exhaustion reports the last inner error (stored on this very path)" if from_last and assigned else
                       "exhaustion does not report the last inner error")
    rep.floor("C16.error-sites", nerr, 3)
    # success: Ready(Ok(payload)) with payload from the inner poll; mark_connected dominates it
    marks_c = [c.bb for c in g.calls() if c.name == "mark_connected"]
    marks_d = [c.bb for c in g.calls() if c.name == "mark_disconnected"]
    nok = 0
    for (i, j, node) in ret_assigns(tr, poll):
        if node[0] != "agg":
            continue
        _b, rv = tr.agg_of(node)
        if rv.get("variant") != "Ready":
            continue
        inner = peel(tr.expand(tr.operand(poll, rv["ops"][0], (i, j))))
        if inner[0] == "agg" and tr.agg_of(inner)[1].get("variant") == "Ok":
            nok += 1
            pl = peel(tr.expand(tr.operand(poll, tr.agg_of(inner)[1]["ops"][0], (inner[3], inner[4]))))
            okv = any(derives(tr, pl, V, variants=("Ready", "Ok")) for V in IP)
            okm = any(g.node_dominates(m, i) for m in marks_c)
            rep.ob("C16.ERRORS", skey(poll, "ok-return#%d" % nok), okv, g.where(i, j),
                   "success returns the inner response unchanged" if okv else "the returned Ok payload is not the inner response")
            rep.ob("C16.STATE", skey(poll, "connected-before-ok#%d" % nok), okm, g.where(i, j),
                   "the state is marked connected before the success is returned" if okm else "success is returned without marking the state connected")
    rep.floor("C16.ok-returns", nok, 1)
    # `connected` is published when the handling of this request is over (a success, or giving up without a retry): after
    # mark_connected no further phase of the reconnect cycle is entered and the wrapped service is not touched again, so the
    # state never reads connected while a reconnectable failure is still being handled
    for n_, c_ in enumerate([x for x in g.calls() if x.name == "mark_connected" and g.live(x.bb)]):
        r_ = g.reach([c_.target], kinds=(N,)) if c_.target is not None else set()
        later = [(sc, v) for (sc, v, _nd) in sets if v in ("Connecting", "Calling", "Sleeping") and sc.bb in r_]
        later_calls = [x for x in g.calls() if x.bb in r_ and x.self_kind in ("param", "ref_param", "alias") and
                       x.def_ in ("tower_service::Service::call", "tower_service::Service::poll_ready", "core::future::future::Future::poll")]
        okc = not later and not later_calls
        rep.ob("C16.STATE", skey(poll, "connected-is-final#%d" % n_), okc, c_.where(),
               "after the state is marked connected the request is answered without touching the wrapped service again" if okc else
               "the state is marked connected and the request then goes on (%s): it reads connected while the reconnectable failure is "
               "still being handled" % (("phase " + later[0][1] + " at " + later[0][0].where()) if later else later_calls[0].where()))
    # mark_disconnected on every reconnectable-error path before any exit: from the predicate's accepting edge every
    # path to a return passes mark_disconnected
    for bb in range(g.n):
        sw = g.switch(bb)
        if sw is None or sw.kind != "bool":
            continue
        nd = peel(tr.expand(tr.operand(poll, sw.cond, (bb, len(g.stmts(bb))))))
        neg = False
        while nd[0] == "unop" and nd[1] == "Not":
            neg = not neg
            nd = peel(nd[2])
        if nd[0] == "call" and tr.call_of(nd).name == "should_reconnect":
            acc = sw.variants["false" if neg else "true"]
            r = g.reach([acc], kinds=(N,), avoid_nodes=marks_d)
            leak = [x for x in r if g.term(x)["k"] == "return"] if acc not in marks_d else []
            rep.ob("C16.STATE", skey(poll, "disconnected-on-failure"), not leak and bool(marks_d), g.where(bb),
                   "every path that handles a reconnectable failure marks the state disconnected before leaving poll" if not leak and marks_d else
                   "a reconnectable failure can be handled without marking the state disconnected")
