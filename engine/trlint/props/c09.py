"""C09 — half-open circuit breaker lets through at most the permitted trial calls."""
from ..core import graph, Call, peel, leaves, show, N
from ..util import *
from .cb_common import cb_view, CB, CRATE, check_no_evict_in_half_open, check_window_dispatch, check_stats_partition

EXPLANATION = (
    "Decides T-RESERVE on the admission function: every path that admits a call outside the Closed arm (the "
    "HalfOpen arm and the Open->HalfOpen path) must, before returning and under the circuit lock (C03 shows all "
    "callers hold it), increment a counter that occurs in the half-open admission guard, and that guard must be "
    "`counter-expression < permitted_calls_in_half_open`; the counter is otherwise only zeroed by the transition "
    "function. With that, per half-open episode the counter goes 0,1,... and each admitted trial is preceded by "
    "one increment that passed the guard, so at most `permitted` trials reach the wrapped service for any number "
    "of concurrent callers and both window types. A check-then-act guard over counters that only completions "
    "update admits every caller that arrives while trials are in flight."
    ' (WINDOW-DISPATCH) the recorders file trial outcomes into the counters the half-open decisions read.')
RULE = "one obligation per admitting arm of the admission function (guard form, reservation on every admitted path) and per writer of the reserved counter"
TRUSTED = ["tokio::sync::Mutex (mutual exclusion of admission decisions)", "rustc MIR construction"]
ASSUMPTIONS = ["permitted_calls_in_half_open is the public configuration name of the bound"]
CONFIG_CRATES = ["tower_resilience_circuitbreaker"]
TECHNIQUE = "static analysis of built MIR: check-then-act reservation rule (guard fields must be written on every admitted path), who-writes"


def rkey(what):
    """keys of the admission function's obligations name its role, not its (private) name"""
    return "%s|<admission function of the circuit>|%s" % (CRATE, what)


def run(facts, tr, rep):
    # service-level rules on the shallow view (free helpers, async helpers and glue methods inlined; the circuit's own
    # methods stay calls and are found by role); clauses about one circuit method use its fully inlined body
    facts0, tr0 = facts, tr
    facts, tr = facts.shallow, tr.shallow
    cb, facts, tr = cb_view(facts0, tr0, rep)
    if not cb.ok or cb.admission is None:
        rep.anchor_missing("circuit-breaker admission function")
        return
    a = cb.admission
    rep.saw(a)
    g = graph(a)
    sw_bb, sw = cb.state_arms(a)
    if sw is None:
        rep.ob("C09.RESERVE", rkey("arms"), False, "-", "admission function does not branch on the circuit state")
        return
    # ---- HalfOpen arm: find the guard `E < permitted_calls_in_half_open`
    ho = sw.variants.get("HalfOpen")
    arm_blocks = g.reach([ho], kinds=(N,)) if ho is not None else set()
    guard = None
    for (i, j, node) in ret_assigns(tr, a):
        if not cb.in_arm(a, sw_bb, sw, "HalfOpen", i):
            continue
        lvs = []
        for lf in leaves(node):
            hb = tr.local_sync_callee(peel(lf))
            if hb is not None and hb.local_ty(0)["s"] == "bool":
                with tr.bound(hb, peel(lf)):
                    for r in tr.helper_returns(hb):
                        lvs += [tr.expand(x, upvars=True) for x in leaves(r)]
            else:
                lvs.append(lf)
        for lf in lvs:
            c = normalise_cmp(tr, lf)
            if c and c[0] in ("Lt", "Le") and mentions_field(tr, c[2], "permitted_calls_in_half_open"):
                guard = (c, i, j)
            if c and c[0] in ("Gt", "Ge") and mentions_field(tr, c[1], "permitted_calls_in_half_open"):
                guard = ((("Lt" if c[0] == "Gt" else "Le"), c[2], c[1]), i, j)
    if guard is None:
        # guard may be a branch condition rather than the returned value
        for bb in arm_blocks:
            s2 = g.switch(bb)
            if s2 is None or s2.kind != "bool":
                continue
            node = peel(tr.expand(tr.operand(a, s2.cond, (bb, len(g.stmts(bb))))))
            c = normalise_cmp(tr, node)
            if c and c[0] in ("Lt", "Le") and mentions_field(tr, c[2], "permitted_calls_in_half_open"):
                guard = (c, bb, None)
    if guard is None:
        rep.ob("C09.GUARD", skey(a, "halfopen-guard"), False, g.where(ho) if ho is not None else "-",
               "no admission guard `admitted < permitted_calls_in_half_open` in the HalfOpen arm")
        return
    (op, E, P), gi, gj = guard
    rep.ob("C09.GUARD", skey(a, "halfopen-guard"), op == "Lt", g.where(gi, gj),
           "HalfOpen admission guard is `%s < permitted_calls_in_half_open`" % show(E) if op == "Lt" else
           "HalfOpen admission guard uses <= (admits permitted+1 trials)")
    # counter fields read by E
    cfields = sorted({x[2] for x in tr.walk(E) if x[0] == "field" and x[3] == cb.circuit_adt})
    rep.note("guard expression reads circuit fields %s" % cfields)
    if not cfields:
        rep.ob("C09.RESERVE", rkey("halfopen-arm"), False, g.where(gi, gj), "admission guard reads no circuit counter")
        return

    def incr_blocks(fields):
        out = set()
        for (b, i, j, s) in [w for f in fields for w in field_writes(facts, cb.circuit_adt, f)]:
            if b is not a:
                continue
            val = peel(tr.stmt_value(a, i, j))
            zero = val[0] == "const" and val[1] in ("0", "0_usize")
            if not zero:
                out.add(i)
        return out

    inc = incr_blocks(cfields)
    # admitted region of the HalfOpen arm: true edge of a switch on the guard value, else the arm
    admitted_starts = []
    for bb in arm_blocks:
        s2 = g.switch(bb)
        if s2 is None or s2.kind != "bool":
            continue
        node = peel(tr.expand(tr.operand(a, s2.cond, (bb, len(g.stmts(bb))))))
        c = normalise_cmp(tr, node)
        if c and mentions_field(tr, c[2], "permitted_calls_in_half_open") or (c and mentions_field(tr, c[1], "permitted_calls_in_half_open")):
            admitted_starts.append(s2.variants["true"] if c[0] in ("Lt", "Le") else s2.variants["false"])
    ok = bool(admitted_starts)
    for st in admitted_starts:
        r = g.reach([st], kinds=(N,), avoid_nodes=inc)
        if any(g.term(x)["k"] == "return" for x in r) and st not in inc:
            ok = False
    rep.ob("C09.RESERVE", rkey("halfopen-arm"), ok, g.where(gi, gj),
           "every admitted path of the HalfOpen arm increments a counter of the guard (%s) before returning" % cfields if ok else
           "the HalfOpen arm admits on `%s < permitted_calls_in_half_open` but no counter of the guard is incremented before "
           "returning: callers arriving while trial calls are in flight all pass the same check (no reservation)" % show(E))
    # ---- Open -> HalfOpen path
    n = 0
    for (i, j, node) in ret_assigns(tr, a):
        if not cb.in_arm(a, sw_bb, sw, "Open", i):
            continue
        for lf in leaves(node):
            lf = peel(lf)
            if lf[0] == "const" and lf[1] == "true":
                n += 1
                op_entry = sw.variants.get("Open")
                r = g.reach([op_entry], kinds=(N,), avoid_nodes=inc)
                ok2 = i not in r
                rep.ob("C09.RESERVE", rkey("open-arm#%d" % (n - 1)), ok2, g.where(i, j),
                       "the call admitted on the Open->HalfOpen path is counted against the half-open budget" if ok2 else
                       "the call admitted on the Open->HalfOpen path reserves nothing: it is not counted against "
                       "permitted_calls_in_half_open")
    # ---- the half-open episode ends: any failure re-opens, `permitted` successes close
    dec_seen = set()
    for (b_, cs, tgt) in cb.transition_calls():
        name = cb.role(b_)
        arm, arm_edge = cb.arm_of(b_, cs.bb)
        if arm != "HalfOpen":
            continue
        rep.saw(b_)
        edges = dominating_edges(tr, b_, cs.bb)
        if name == "record_failure" and tgt == "Open":
            dec_seen.add("fail")
            inner = cb.inner_guards(b_, cs.bb, arm_edge)
            rep.ob("C09.DECIDE", skey(b_, "halfopen-failure-reopens"), not inner, cs.where(),
                   "any failing trial call re-opens the breaker unconditionally" if not inner else
                   "a failing trial call re-opens the breaker only under an extra condition: trial calls keep being admitted after a failure")
        if name == "record_success" and tgt == "Closed":
            dec_seen.add("ok")
            gd = False
            for e in edges:
                cmn = cmp_on_edge(tr, e) if e["kind"] == "bool" else None
                if cmn and cmn[0] == "Ge" and mentions_field(tr, cmn[2], "permitted_calls_in_half_open"):
                    gd = True
                if cmn and cmn[0] == "Le" and mentions_field(tr, cmn[1], "permitted_calls_in_half_open"):
                    gd = True
            rep.ob("C09.DECIDE", skey(b_, "halfopen-success-closes"), gd, cs.where(),
                   "the breaker closes once successes >= permitted_calls_in_half_open" if gd else
                   "closing is not decided by successes >= permitted_calls_in_half_open")
    rep.ob("C09.DECIDE", "%s|both-decisions" % CRATE, dec_seen == {"fail", "ok"}, "-",
           "both half-open decisions (re-open on failure, close after the permitted successes) exist" if dec_seen == {"fail", "ok"} else
           "half-open decisions present: %s" % sorted(dec_seen))
    ndec = check_no_evict_in_half_open(cb, rep, "C09.NO-EVICT-IN-HALF-OPEN")
    # the half-open counters are the count-based ones: a recorder that files trial outcomes elsewhere never lets the
    # closing / re-opening decision see them
    check_window_dispatch(cb, rep, "C09.WINDOW-DISPATCH")
    check_stats_partition(cb, rep, "C09.STATS-PARTITION")
    # ---- writers of the guard counters: zeroed only by the transition fn, incremented under the lock
    for f in cfields:
        ws = field_writes(facts, cb.circuit_adt, f)
        for (b, i, j, s) in ws:
            rep.saw(b)
        others = sorted({w[0].def_.split("::")[-1] for w in ws})
        rep.note("writers of %s: %s" % (f, others))
