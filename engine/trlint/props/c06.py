"""C06 — time limiter resolves every call by its deadline."""
from ..core import graph, Call, peel, leaves, show, N, U, D
from ..util import *

EXPLANATION = (
    "Exact instants (resolution at the deadline, behaviour at and around it) are tokio timer semantics and are NOT "
    "decided. Decided: the wiring. (MODE) tokio::time::timeout is used exactly on the `true` edge, and "
    "tokio::spawn on the `false` edge, of a test whose value is config.cancel_running_future; (CANCEL) in "
    "cancelling mode the future handed to timeout() is the future returned by the wrapped service's call — moved "
    "in, so it is dropped with the Timeout — and the duration is timeout_source.get_timeout(&req) of the same "
    "request; (NO-CANCEL) in non-cancelling mode the wrapped call and its await live inside the spawned task, the "
    "JoinHandle is neither aborted nor awaited, the task reports through a oneshot channel, and the race's sleep "
    "uses the same duration; (MAPPING) Inner(e) wraps the inner error and the timeout error is constructed only "
    "when no inner result arrived (the None of the race / elapsed timeout); (AWAITS) the call future suspends only "
    "in the timeout and in the race, so it resolves in the poll in which tokio reports completion or expiry; "
    "(CONFIG) builder methods carry cancel_running_future and the timeout source through. The tokio::select! "
    "branch convention (branch k <-> future k) is a trusted macro convention."
    ' (NO-PANIC-ARITH) no panicking Instant/Duration operator is applied to the request timeout (a `Duration::MAX` timeout must not panic); deadlines of timeout_at/sleep_until are accepted only as now().checked_add(timeout).')
RULE = "one obligation per mode site, per wiring clause, per error construction, per await, per builder field"
TRUSTED = ["tokio::time::timeout / sleep / select! / spawn / oneshot", "rustc MIR construction"]
ASSUMPTIONS = ["cancel_running_future / get_timeout are the public configuration names"]
CONFIG_CRATES = ["tower_resilience_timelimiter"]
TECHNIQUE = "static analysis of built MIR: edge dominance on the mode flag, value-flow of future and duration operands, forbidden-call scan on the join handle, await inventory, builder field preservation"

CRATE = "tower_resilience_timelimiter"


def _optionlike_enums(facts, b):
    """private enums of the crate with exactly one unit variant and one single-payload variant (Option in disguise)
    that are constructed in body b: [(adt def, unit variant, payload variant)]"""
    out = []
    seen = set()
    for blk in b.blocks:
        for s in blk["stmts"]:
            if s["k"] == "assign" and s["rv"]["k"] == "agg" and s["rv"].get("ak") == "adt":
                d = s["rv"].get("def")
                if d in seen or not d or not d.startswith(CRATE):
                    continue
                seen.add(d)
                adt = facts.adt(d)
                if adt is None or adt["kind"] != "enum" or adt["vis"] == "pub" or len(adt["variants"]) != 2:
                    continue
                units = [v for v in adt["variants"] if len(v["fields"]) == 0]
                pays = [v for v in adt["variants"] if len(v["fields"]) == 1]
                if len(units) == 1 and len(pays) == 1:
                    out.append((d, units[0]["name"], pays[0]["name"]))
    return out


def _optionlike_labels(facts, b):
    none_like, some_like = {"None"}, {"Some"}
    for (_d, u, p_) in _optionlike_enums(facts, b):
        none_like.add(u)
        some_like.add(p_)
    return none_like, some_like


def run(facts, tr, rep):
    # the call future is analysed with the crate's private helpers (sync and async, closures handed to combinators, a
    # per-call decision carried in a private struct / enum) inlined; the timeout source's get_timeout is a trait call
    facts, tr = facts.inl, tr.inl
    sbs = service_call_bodies(facts, crate=CRATE)
    if not sbs:
        rep.anchor_missing("Service::call of the time limiter")
        return
    sb = sbs[0]
    cors = [d for d in descendants(facts, sb) if d.kind == "coroutine" and d.parent == sb.def_]
    if not cors:
        rep.anchor_missing("call future of the time limiter")
        return
    b = cors[0]
    rep.saw(sb)
    rep.saw(b)
    g = graph(b)
    # local async helpers awaited by the call future are looked through (helper extraction must not matter)
    helpers = {}        # coroutine body -> block of b where the helper's future is awaited
    for a in g.awaits():
        ac = awaited_call(tr, b, a)
        if ac is None:
            continue
        for d in ac.targets_def():
            hb = facts.bodies.get(d)
            if hb is not None and hb.crate.name == CRATE and hb.j.get("is_async"):
                for k in facts.children.get(hb.def_, []):
                    if k.kind == "coroutine":
                        helpers[k.def_] = (k, a.into_bb)
                        rep.saw(k)
    bodies = [b] + [k for (k, _bb) in helpers.values()]
    # ---------------------------------------------------------------- no panicking deadline arithmetic
    allb = [sb] + [d for d in descendants(facts, sb)] + [d2 for (k, _bb) in helpers.values() for d2 in [k] + descendants(facts, k)]
    nops = check_no_panicking_time_arith(facts, tr, rep, "C06.NO-PANIC-ARITH", {x.def_: x for x in allb}.values())
    rep.note("panicking Instant/Duration operators in the call path: %d" % nops)
    sites = inner_calls(facts, sb)
    for (k, _bb) in helpers.values():
        for d in descendants(facts, k):
            for c in graph(d).calls():
                if c.def_ == "tower_service::Service::call" and c.self_kind in ("param", "ref_param"):
                    sites.append((d, c))
    rep.floor("C06.inner-call-sites", len(sites), 2)

    def all_calls(pred):
        return [(bd, c) for bd in bodies for c in graph(bd).calls() if pred(c)]
    timeouts = all_calls(lambda c: c.def_ and c.def_.startswith("tokio::time::timeout::timeout"))
    spawns = all_calls(lambda c: c.def_ and c.def_.startswith("tokio::task::spawn::spawn"))
    sleeps = all_calls(lambda c: c.def_ and c.def_.startswith("tokio::time::sleep::sleep"))
    rep.floor("C06.timeout-sites", len(timeouts), 1)
    rep.floor("C06.spawn-sites", len(spawns), 1)

    def flag_edge(bd, site_bb):
        r = _flag_edge(bd, site_bb)
        if r is None and bd is not b and bd.def_ in helpers:
            r = _flag_edge(b, helpers[bd.def_][1])
        return r

    def _flag_edge(bd, site_bb):
        for e in dominating_edges(tr, bd, site_bb):
            if e["kind"] == "bool":
                nd = tr.expand(e["node"], upvars=True, params=False)
                neg = False
                nd = peel(nd)
                while nd[0] == "unop" and nd[1] == "Not":
                    neg = not neg
                    nd = peel(nd[2])
                if mentions_field(tr, nd, "cancel_running_future"):
                    return (e["label"] == "true") != neg
        return None
    # ---------------------------------------------------------------- MODE
    for n, (bd, c) in enumerate(timeouts):
        fe = flag_edge(bd, c.bb)
        rep.ob("C06.MODE", skey(b, "timeout#%d" % n), fe is True, c.where(),
               "timeout() is used exactly when cancel_running_future is true" if fe is True else
               "timeout() is not confined to cancel_running_future == true (dominating flag edge: %s)" % fe)
    for n, (bd, c) in enumerate(spawns):
        fe = flag_edge(bd, c.bb)
        rep.ob("C06.MODE", skey(b, "spawn#%d" % n), fe is False, c.where(),
               "the background task is spawned exactly when cancel_running_future is false" if fe is False else
               "spawn is not confined to cancel_running_future == false (dominating flag edge: %s)" % fe)
    # duration origin helper
    def is_request_timeout(node, _d=0):
        """the request's timeout itself, or (for timeout_at / sleep_until) the deadline now() + that timeout"""
        node = tr.expand(node, upvars=True, params=True)
        pn = peel(node)
        if pn[0] == "call" and tr.call_of(pn).name == "get_timeout":
            return True
        if _d > 2:
            return False
        # deadline forms: Instant::now() + d, Instant::now().checked_add(d) -> Some(deadline)
        for lf in leaves(node):
            lf = peel(lf)
            while lf[0] in ("field", "downcast"):
                lf = peel(lf[1])
            if lf[0] != "call":
                return False
            c2 = tr.call_of(lf)
            if c2.name not in ("checked_add", "add") or len(c2.args) != 2:
                return False
            a0 = tr.expand(tr.operand(c2.g.b, c2.args[0], c2.loc), upvars=True)
            a1 = tr.expand(tr.operand(c2.g.b, c2.args[1], c2.loc), upvars=True)
            if not calls_in(tr, a0, lambda x: x.name == "now") or not is_request_timeout(a1, _d + 1):
                return False
        return True
    # ---------------------------------------------------------------- CANCEL
    for n, (bd, c) in enumerate(timeouts):
        gd_ = graph(bd)
        dur = tr.expand(tr.operand(bd, c.args[0], c.loc))
        fut = peel(tr.expand(tr.operand(bd, c.args[1], c.loc)))
        is_inner = fut[0] == "call" and tr.call_of(fut).def_ == "tower_service::Service::call" and tr.call_of(fut).self_kind in ("param", "ref_param")
        rep.ob("C06.CANCEL", skey(b, "timeout#%d|future" % n), is_inner, c.where(),
               "the future handed to timeout() is the wrapped service's call future (dropped with it at the deadline)" if is_inner else
               "the value handed to timeout() is %s, not the wrapped call's future: it would not be dropped at the deadline" % show(fut))
        rep.ob("C06.CANCEL", skey(b, "timeout#%d|duration" % n), is_request_timeout(dur), c.where(),
               "the deadline is timeout_source.get_timeout(&req) of this request" if is_request_timeout(dur) else
               "the deadline is %s, not get_timeout(&req)" % show(peel(tr.expand(dur, upvars=True))))
        # awaited directly
        # (the awaitee may be chosen among several timers first: `match deadline { Some(d) => timeout_at(d, f), None => timeout(t, f) }.await`)
        aw = [a for a in gd_.awaits() if a.poll_bb is not None and
              any(peel(x) == ("call", bd.crate.name, bd.def_, c.bb) for x in leaves(peel(tr.expand(tr.operand(bd, a.awaitee, (a.into_bb, len(gd_.stmts(a.into_bb))))))))]
        rep.ob("C06.CANCEL", skey(b, "timeout#%d|awaited" % n), len(aw) == 1, c.where(),
               "the Timeout future is awaited in place" if len(aw) == 1 else "the Timeout future is not awaited in place")
    # ---------------------------------------------------------------- NO-CANCEL
    for n, (bd, c) in enumerate(spawns):
        gd_ = graph(bd)
        fut = peel(tr.expand(tr.operand(bd, c.args[0], c.loc)))
        ok_body = False
        if fut[0] == "agg":
            _b2, rv = tr.agg_of(fut)
            child = [x for x in facts.crates[CRATE].bodies if x.def_ == rv["def"]]
            if child:
                ch = child[0]
                rep.saw(ch)
                cg = graph(ch)
                ics = [x for x in cg.calls() if x.def_ == "tower_service::Service::call" and x.self_kind in ("param", "ref_param")]
                sends = [x for x in cg.calls() if x.name == "send" and "oneshot" in (x.def_ or "")]
                inner_aw = [a for a in cg.awaits() if a.fut_ty["s"].startswith("<S as tower_service::Service")]
                sent_val = False
                for sd in sends:
                    v = peel(tr.expand(tr.operand(ch, sd.args[1], sd.loc)))
                    sent_val = any(derives(tr, v, await_node(ch, a), variants=("Ready",)) for a in inner_aw)
                ok_body = len(ics) == 1 and len(inner_aw) == 1 and sent_val
                if ok_body:
                    # the detached task runs the wrapped call unconditionally (not "only if somebody still listens")
                    from ..pair import in_observability_macro
                    conds = [e for e in dominating_edges(tr, ch, ics[0].bb) if e["kind"] == "bool" and not in_observability_macro(cg.term(e["bb"]))]
                    rep.ob("C06.NO-CANCEL", skey(b, "spawn#%d|unconditional" % n), not conds, ics[0].where(),
                           "the background task makes the wrapped call unconditionally" if not conds else
                           "the background task makes the wrapped call only under a condition (%s): when it does not hold the inner call is "
                           "never run, although cancel_running_future(false) promises it runs to completion" % show(conds[0]["node"])[:60])
        rep.ob("C06.NO-CANCEL", skey(b, "spawn#%d|task" % n), ok_body, c.where(),
               "the spawned task makes the wrapped call, awaits it to completion and reports its result through the oneshot channel" if ok_body else
               "the spawned task does not make-and-await the wrapped call and report its result")
        # the JoinHandle: never aborted, never awaited
        H = ("call", bd.crate.name, bd.def_, c.bb)
        misuse = []
        for x in gd_.calls():
            if x.name in ("abort", "abort_handle", "is_finished") and x.args and peel(tr.expand(tr.operand(bd, x.args[0], x.loc))) == H:
                misuse.append(x)
        for a in gd_.awaits():
            if a.poll_bb is not None and peel(tr.expand(tr.operand(bd, a.awaitee, (a.into_bb, len(gd_.stmts(a.into_bb)))))) == H:
                misuse.append(a)
        rep.ob("C06.NO-CANCEL", skey(b, "spawn#%d|handle" % n), not misuse, c.where(),
               "the task's JoinHandle is neither aborted nor awaited: the inner call keeps running after a timeout" if not misuse else
               "the task's JoinHandle is aborted/awaited: the inner call does not simply keep running in the background")
    for n, (bd, c) in enumerate(sleeps):
        fe = flag_edge(bd, c.bb)
        dur = tr.expand(tr.operand(bd, c.args[0], c.loc))
        ok = fe is False and is_request_timeout(dur)
        rep.ob("C06.NO-CANCEL", skey(b, "sleep#%d|duration" % n), ok, c.where(),
               "the race's sleep lasts get_timeout(&req)" if ok else "the race's sleep is not get_timeout(&req) on the non-cancelling path")
    rep.floor("C06.sleep-sites", len(sleeps), 1)
    # ---------------------------------------------------------------- MAPPING
    nerr = 0
    ia_all = [("call", bb.crate.name, bb.def_, cc.bb) for (bb, cc) in sites]
    for i, blk in enumerate(b.blocks):
        for j, s in enumerate(blk["stmts"]):
            if s["k"] != "assign" or s["rv"]["k"] != "agg" or s["rv"]["ak"] != "adt" or not s["rv"]["def"].endswith("TimeLimiterError"):
                continue
            v = s["rv"]["variant"]
            nerr += 1
            edges = dominating_edges(tr, b, i)
            none_like, some_like = _optionlike_labels(facts, b)
            if v == "Timeout":
                ok = any(e["kind"] == "enum" and e["label"] in none_like for e in edges)
                if not ok and not s["lhs"]["p"]:
                    # built ahead of the decision as a default (`result.map_or(Err(Timeout), ..)`, wrapped in Err(..) on the
                    # way): what counts is where the value is *used* — every use sits under the no-result edge
                    holders = {s["lhs"]["l"]}
                    uses = []
                    for _round in range(3):
                        for i2, blk2 in enumerate(b.blocks):
                            if not g.live(i2):
                                continue
                            for j2, s2 in enumerate(blk2["stmts"]):
                                if s2["k"] != "assign" or (i2, j2) == (i, j):
                                    continue
                                rv2 = s2["rv"]
                                ops2 = [rv2["op"]] if rv2["k"] in ("use", "cast") else rv2.get("ops", []) if rv2["k"] == "agg" else []
                                for o2 in ops2:
                                    pl2 = o2.get("move") or o2.get("copy")
                                    if pl2 is not None and not pl2["p"] and pl2["l"] in holders:
                                        if rv2["k"] == "agg" and not any(e2["kind"] == "enum" and e2["label"] in none_like for e2 in dominating_edges(tr, b, i2)):
                                            holders.add(s2["lhs"]["l"])      # wrapped eagerly as well (Err(Timeout)): follow the wrapper
                                        elif (i2, j2) not in uses:
                                            uses.append((i2, j2))
                            t2 = blk2["term"]
                            if t2["k"] == "call":
                                for a2 in t2["args"]:
                                    pl2 = a2.get("move") or a2.get("copy")
                                    if pl2 is not None and not pl2["p"] and pl2["l"] in holders and (i2, -1) not in uses:
                                        uses.append((i2, -1))
                    ok = bool(uses) and all(any(e2["kind"] == "enum" and e2["label"] in none_like for e2 in dominating_edges(tr, b, i2)) for (i2, _j2) in uses)
                rep.ob("C06.MAPPING", skey(b, "Timeout#%d" % nerr), ok, g.where(i, j),
                       "the timeout error is constructed only when no inner result arrived (None of timeout().ok() / the race)" if ok else
                       "the timeout error can be constructed although an inner result arrived")
            elif v == "Inner":
                ok = any(e["kind"] == "enum" and e["label"] == "Err" for e in edges) and any(e["kind"] == "enum" and e["label"] in some_like for e in edges)
                rep.ob("C06.MAPPING", skey(b, "Inner#%d" % nerr), ok, g.where(i, j),
                       "Inner(e) is constructed on the Some(Err(e)) edge of the result" if ok else "Inner(e) is constructed off the Some(Err(e)) edge")
    rep.floor("C06.error-sites", nerr, 2)
    # a private two-variant enum used instead of Option (`Finished(result)` / `DeadlineElapsed`): its unit variant is
    # built only where no result arrived, its payload variant only from a result that arrived
    for (adt_def, unit_v, pay_v) in _optionlike_enums(facts, b):
        for i, blk in enumerate(b.blocks):
            for j, s in enumerate(blk["stmts"]):
                if s["k"] != "assign" or s["rv"]["k"] != "agg" or s["rv"].get("def") != adt_def:
                    continue
                edges = dominating_edges(tr, b, i)
                if s["rv"]["variant"] == unit_v:
                    bad = [e for e in edges if e["kind"] == "enum" and e["label"] == "Ok"]
                    rep.ob("C06.MAPPING", skey(b, "%s@L%d" % (unit_v, g.line(i, j))), not bad, g.where(i, j),
                           "%s (no inner result) is never built on an arm where a result arrived" % unit_v if not bad else
                           "%s (no inner result) is built on the Ok arm of a result that arrived: an inner result in time would be reported as a timeout" % unit_v)
                elif s["rv"]["variant"] == pay_v:
                    pv = tr.expand(tr.operand(b, s["rv"]["ops"][0], (i, j)), upvars=True)
                    good = any(a.poll_bb is not None and derives(tr, peel(x), await_node(b, a), variants=("Ready", "Ok", "Some")) for a in g.awaits() for x in leaves(pv)) or \
                        any(e["kind"] == "enum" and e["label"] == "Ok" for e in edges)
                    rep.ob("C06.MAPPING", skey(b, "%s@L%d" % (pay_v, g.line(i, j))), good, g.where(i, j),
                           "%s carries a result that arrived" % pay_v if good else "%s is built from something that is not an arrived result" % pay_v)
    # the Option result: None only from timeout elapsed (.ok()) or the sleep branch; Some(x) from the inner result
    # ---------------------------------------------------------------- AWAITS
    aws = []
    for a in g.awaits():
        ac = awaited_call(tr, b, a)
        hk = [k for (k, bb_) in helpers.values() if bb_ == a.into_bb]
        if hk:
            aws += graph(hk[0]).awaits()
        else:
            aws.append(a)
    kinds = []
    for a in aws:
        s = a.fut_ty["s"]
        if s.startswith("tokio::time::timeout::Timeout<"):
            kinds.append("timeout")
        elif "poll_fn::PollFn" in s:
            kinds.append("race")
        else:
            kinds.append("other:" + s[:50])
    extra = [k for k in kinds if k.startswith("other")]
    rep.ob("C06.AWAITS", skey(b, "awaits"), not extra and "timeout" in kinds and "race" in kinds, "%s:%d" % (b.span["file"], b.span["line"]),
           "the call future suspends only in timeout() and in the race between the task's result and the sleep" if not extra and "timeout" in kinds and "race" in kinds else
           "the call future suspends in %s" % kinds)
