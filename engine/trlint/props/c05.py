"""C05 — retry makes a bounded number of attempts and returns the last outcome."""
from ..core import graph, Call, peel, leaves, show, N, U, D
from ..util import *

EXPLANATION = (
    "Decides on the retry call coroutine: (LOOP-BOUND) the wrapped-service call sits in one counting loop whose "
    "induction variable starts at 0, is incremented by exactly one on every back-edge path and nowhere else, and "
    "whose continue condition normalises to `attempt + 1 < N` with N = max_attempts_source.get_max_attempts(&req) "
    "of the request being served; hence executions = 1 + max(0, N-1) = max(1, N) as a symbolic identity for all N "
    "including 0; (GATES) every back-edge path passes the Err edge of this iteration's result, the `true` answer "
    "of the retry predicate, the budget gate (no budget configured, or try_withdraw() answered true — from its "
    "false edge the call site is unreachable) and the completion of a sleep whose duration is "
    "policy.next_backoff(attempt) taken before the increment; (LAST-OUTCOME) every returned payload originates, "
    "through moves only, in the result of the wrapped call awaited in the same iteration (or is a readiness error "
    "of the wrapped service, see C20); no wrapped call follows the first Ok or a refused error. Not decided: that "
    "sleep sleeps at least the requested time; purity of the predicate; the budget's own arithmetic (C08). The slept duration is wholly the computed backoff (no leaf of it is anything but the next_backoff call).")
RULE = "one obligation per loop-bound clause, per gate, per return site"
TRUSTED = ["tokio::time::sleep", "rustc MIR construction"]
ASSUMPTIONS = ["max_attempts / should_retry / try_withdraw / next_backoff are the public names of the configuration hooks"]
CONFIG_CRATES = ["tower_resilience_retry"]
TECHNIQUE = "static analysis of built MIR: counting-loop recognition with guard normal form, must-pass-through (edge sets) on back-edge paths, value-flow of returned payloads"

CRATE = "tower_resilience_retry"


def run(facts, tr, rep):
    # the retry loop is analysed with its private helpers (free functions, receiver-less associated functions, async
    # helpers) inlined; the policy / budget methods stay calls and are recognised by name (public API)
    facts, tr = facts.shallow, tr.shallow
    sbs = service_call_bodies(facts, crate=CRATE)
    sites = [(b, c) for sb in sbs for (b, c) in inner_calls(facts, sb)]
    rep.floor("C05.inner-call-sites", len(sites), 1)
    if len(sites) != 1:
        rep.ob("C05.LOOP-BOUND", "%s|sites" % CRATE, False, "-", "expected exactly one wrapped-service call site in the retry layer, found %d" % len(sites))
        return
    b, c = sites[0]
    rep.saw(b)
    g = graph(b)
    k0 = skey(b, "loop")
    if not g.in_cycle(c.bb):
        rep.ob("C05.LOOP-BOUND", k0, False, c.where(), "the wrapped call is not in a loop: no retry happens")
        return
    loop = {x for x in g.reach([c.bb], kinds=(N,)) if c.bb in g.reach([x], kinds=(N,))}
    # inner await
    V0 = ("call", b.crate.name, b.def_, c.bb)
    ia = None
    for a in g.awaits():
        if a.poll_bb is not None and peel(tr.expand(tr.operand(b, a.awaitee, (a.into_bb, len(g.stmts(a.into_bb)))))) == V0:
            ia = a
    if ia is None or ia.ready_bb is None:
        rep.ob("C05.LOOP-BOUND", k0, False, c.where(), "the inner future is not awaited in the loop")
        return
    R = await_node(b, ia)
    # ---------------------------------------------------------------- induction variable
    incs = {}
    for i in loop:
        for j, s in enumerate(g.stmts(i)):
            if s["k"] == "assign" and not s["lhs"]["p"] and b.locals[s["lhs"]["l"]].get("user"):
                v = peel(tr.stmt_value(b, i, j))
                if v[0] == "field" and peel(v[1])[0] == "binop":
                    v = peel(v[1])
                if v[0] == "binop" and v[1] in ("Add", "AddWithOverflow") and peel(v[3])[0] == "const":
                    incs.setdefault(s["lhs"]["l"], []).append((i, j, peel(v[3])[3]))
    ind = None
    for l, ws in incs.items():
        all_writes = [d for d in g.defs.get(l, []) if not d[4]]
        inside = [d for d in all_writes if d[1] in loop]
        outside = [d for d in all_writes if d[1] not in loop]
        if len(inside) == len(ws) and len(outside) == 1:
            init = peel(tr._defnode(b, g, outside[0], 0))
            ind = (l, ws, init, outside[0])
    if ind is None:
        rep.ob("C05.LOOP-BOUND", k0, False, c.where(), "no induction variable (a local written only by `+= 1` inside the loop and initialised once before it)")
        return
    l, ws, init, initdef = ind
    name = b.local_name(l) or "_%d" % l
    # the counter counts the retries made so far (starts at 0; continue while c + 1 < N) or the calls made so far (starts at
    # 1; continue while c < N): with start i0 the test must read c + (1 - i0) < N
    ok_init = init[0] == "const" and init[3] in ("0", "1")
    base0 = int(init[3]) if ok_init else 0
    ok_step = all(st == "1" for (_i, _j, st) in ws) and len(ws) == 1
    rep.ob("C05.LOOP-BOUND", skey(b, "induction"), ok_init and ok_step, g.where(ws[0][0], ws[0][1]),
           "attempt counter `%s` starts at %d and is incremented by one at a single site in the loop" % (name, base0) if ok_init and ok_step else
           "attempt counter `%s`: initial value %s, %d increment site(s) with steps %s" % (name, show(init), len(ws), [s for (_i, _j, s) in ws]))
    inc_bb = ws[0][0]
    # every back-edge path passes the increment exactly once: c unreachable from the await's ready edge without it
    r = g.reach([ia.ready_bb], kinds=(N,), avoid_nodes=[inc_bb])
    once = c.bb not in r and not (inc_bb in g.reach([inc_bb], kinds=(N,), avoid_nodes=[c.bb]) and _succ_reaches(g, inc_bb, inc_bb, c.bb))
    rep.ob("C05.LOOP-BOUND", skey(b, "increment-per-iteration"), once, g.where(inc_bb),
           "every path back to the wrapped call passes the increment exactly once" if once else
           "a path back to the wrapped call avoids (or repeats) the increment of the attempt counter")
    # ---------------------------------------------------------------- continue condition
    cont = None
    for bb in loop:
        sw = g.switch(bb)
        if sw is None or sw.kind != "bool":
            continue
        node = peel(tr.expand(tr.operand(b, sw.cond, (bb, len(g.stmts(bb))))))
        cm = normalise_cmp(tr, node)
        if cm is None:
            continue
        op, x, y = cm
        if not (_mentions_local(tr, b, x, l) or _mentions_local(tr, b, y, l)):
            continue
        # which edge continues (can reach c inside the loop)?
        for lab in ("true", "false"):
            tgt = sw.variants[lab]
            other = sw.variants["false" if lab == "true" else "true"]
            if c.bb in g.reach([tgt], kinds=(N,)) and c.bb not in g.reach([other], kinds=(N,)):
                e = {"node": node, "label": lab, "kind": "bool", "bb": bb, "sw": sw}
                cont = (cmp_on_edge(tr, e), bb, tgt)
    if cont is None:
        rep.ob("C05.LOOP-BOUND", skey(b, "continue-condition"), False, c.where(),
               "no exit test on the attempt counter separates 'retry' from 'give up': the number of attempts is unbounded")
    else:
        (op, x, y), gbb, gtgt = cont
        # normal form: attempt + 1 < N
        def plus_one(n):
            n = peel(n)
            if n[0] == "field":
                n = peel(n[1])
            return n[0] == "binop" and n[1] in ("Add", "AddWithOverflow") and _is_local(tr, b, n[2], l) and peel(n[3])[0] == "const" and peel(n[3])[3] == "1"
        need = 1 - base0

        def plus_k(n, k):
            if k == 0:
                return _is_local(tr, b, n, l) and _plus(tr, b, n, l) is None
            return plus_one(n) if k == 1 else _plus(tr, b, n, l) == k
        form_ok = (op == "Lt" and plus_k(x, need)) or (op == "Gt" and plus_k(y, need)) or \
                  (op == "Le" and plus_k(x, need + 1)) or (op == "Ge" and plus_k(y, need + 1))
        bound = y if op in ("Lt", "Le") else x
        bexp = tr.expand(bound, upvars=True, params=True)
        from_req = bool(calls_in(tr, bexp, lambda cc: cc.name == "get_max_attempts"))
        rep.ob("C05.LOOP-BOUND", skey(b, "continue-condition"), form_ok and from_req, g.where(gbb),
               "the loop continues only while attempt + 1 < max_attempts(&req): the wrapped service is called max(1, max_attempts) times at most"
               if form_ok and from_req else
               "the continue condition is `%s %s %s`%s: it does not normalise to attempt + 1 < max_attempts, so the attempt count is not "
               "bounded by max(1, max_attempts) for every value (e.g. 0)" % (show(x), op, show(y), "" if from_req else " (bound is not get_max_attempts(&req))"))
        # the guard is on every back-edge path
        r = g.reach([ia.ready_bb], kinds=(N,), avoid_edges=[(gbb, gtgt)])
        rep.ob("C05.LOOP-BOUND", skey(b, "guard-on-every-back-edge"), c.bb not in r, g.where(gbb),
               "every path back to the wrapped call passes the exhaustion test" if c.bb not in r else "a path back to the wrapped call bypasses the exhaustion test")
    # ---------------------------------------------------------------- GATES
    def gate(name, edges, detail_ok, detail_bad, wherex):
        r = g.reach([ia.ready_bb], kinds=(N,), avoid_edges=list(edges))
        ok = bool(edges) and c.bb not in r
        rep.ob("C05.GATE", skey(b, name), ok, wherex, detail_ok if ok else detail_bad)
        return ok
    # Err edge of this iteration's result
    err_edges, ok_edges = set(), set()
    for bb in loop:
        sw = g.switch(bb)
        if sw is None or sw.kind != "enum" or "Err" not in sw.variants:
            continue
        node = peel(tr.expand(tr.place(b, sw.place, sw.defloc)))
        if derives(tr, node, R, variants=("Ready",)):
            err_edges.add((bb, sw.variants["Err"]))
            ok_edges.add((bb, sw.variants["Ok"]))
    gate("err-edge", err_edges, "a retry happens only after this attempt returned an error",
         "the wrapped call can be repeated without the previous attempt having failed", c.where())
    # predicate
    pred_edges = set()
    budget_true, budget_false, budget_none = set(), set(), set()
    for bb in loop:
        sw = g.switch(bb)
        if sw is None:
            continue
        if sw.kind == "bool":
            node = peel(tr.expand(tr.operand(b, sw.cond, (bb, len(g.stmts(bb))))))
            neg = False
            while node[0] == "unop" and node[1] == "Not":
                neg = not neg
                node = peel(node[2])
            if node[0] == "phi":
                # `match budget { Some(b) => b.try_withdraw(), None => true }` stored in a flag (an inlined helper):
                # the flag stands for the one call among its alternatives, the rest being constants
                alts = [peel(x) for x in node[1]]
                calls_ = [x for x in alts if x[0] == "call"]
                if len(calls_) == 1 and all(x[0] in ("call", "const") for x in alts):
                    node = calls_[0]
            if node[0] == "call":
                ep = effective_predicate(tr, facts, node, ("should_retry", "try_withdraw"))
                if ep and ep[0] == "should_retry":
                    pred_edges.add((bb, sw.variants["false" if neg else "true"]))
                if ep and ep[0] == "try_withdraw":
                    budget_true.add((bb, sw.variants["false" if neg else "true"]))
                    budget_false.add((bb, sw.variants["true" if neg else "false"]))
        elif sw.kind == "enum" and "None" in sw.variants:
            node = peel(tr.expand(tr.place(b, sw.place, sw.defloc), upvars=True))
            if node[0] == "field" and "budget" in str(node[2]):
                budget_none.add((bb, sw.variants["None"]))
    gate("predicate", pred_edges, "a retry happens only when should_retry(&error) answered true",
         "the wrapped call can be repeated without the retry predicate having accepted the error", c.where())
    gate("budget", budget_true | budget_none,
         "a retry happens only when no budget is configured or try_withdraw() granted it",
         "the wrapped call can be repeated without the budget having granted the retry (the result of try_withdraw() does not gate the retry): no grant, yet a retry",
         c.where())
    for (bb, tgt) in budget_false:
        r = g.reach([tgt], kinds=(N,))
        rep.ob("C05.GATE", skey(b, "budget-refused"), c.bb not in r, g.where(bb),
               "after a refused withdrawal no further wrapped call is reachable" if c.bb not in r else "a wrapped call is reachable after the budget refused")
    rep.floor("C05.budget-withdraw-tests", len(budget_true), 1)
    # sleep with next_backoff(attempt)
    sleep_edges = set()
    sl_ok = False
    for a in g.awaits():
        if a.poll_bb is None or not a.fut_ty["s"].startswith("tokio::time::sleep::Sleep") or a.into_bb not in loop:
            continue
        sc = awaited_call(tr, b, a)
        if sc is None:
            continue
        d = peel(tr.expand(tr.operand(b, sc.args[0], sc.loc)))
        nb = calls_in(tr, d, lambda cc: cc.name == "next_backoff")
        # the sleep lasts the backoff itself, not something computed from it (`backoff - time the attempt took` retries early)
        whole = all(peel(lf)[0] == "call" and tr.call_of(peel(lf)).name == "next_backoff" for lf in leaves(d))
        if nb and not whole:
            nb = []
        if nb:
            arg = peel(tr.expand(tr.operand(nb[0].g.b, nb[0].args[1], nb[0].loc)))
            before_inc = inc_bb in g.reach([nb[0].bb], kinds=(N,)) and not g.node_dominates(inc_bb, nb[0].bb)
            sl_ok = _is_local(tr, b, arg, l) and before_inc
        sw = g.switch(g.term(a.poll_bb)["target"])
        if sw and "Ready" in sw.variants:
            sleep_edges.add((sw.bb, sw.variants["Ready"]))
    gate("backoff-sleep", sleep_edges, "a retry happens only after the backoff sleep completed",
         "the wrapped call can be repeated without waiting for the backoff", c.where())
    rep.ob("C05.GATE", skey(b, "backoff-duration"), sl_ok, c.where(),
           "the sleep lasts policy.next_backoff(attempt) for the attempt number before the increment" if sl_ok else
           "the backoff duration is not policy.next_backoff(attempt) of the current attempt")
    # ---------------------------------------------------------------- LAST-OUTCOME
    nret = 0
    for (i, j, node) in ret_assigns(tr, b):
        if node[0] != "agg":
            # `?` on the readiness await: FromResidual
            continue
        _b2, rv = tr.agg_of(node)
        if rv.get("variant") not in ("Ok", "Err"):
            continue
        nret += 1
        payload = peel(tr.expand(tr.operand(b, rv["ops"][0], (i, j))))
        want = "Ok" if rv["variant"] == "Ok" else "Err"
        ok = derives(tr, payload, R, variants=("Ready", want))
        rep.ob("C05.LAST-OUTCOME", skey(b, "return-%s#%d" % (want.lower(), nret - 1)), ok, g.where(i, j),
               "the returned %s payload is the one produced by the wrapped call of this iteration" % want if ok else
               "the returned %s payload (%s) is not this iteration's outcome" % (want, show(payload)))
        # returning ends the call: no wrapped call reachable afterwards
        r = g.reach([i], kinds=(N,))
        rep.ob("C05.LAST-OUTCOME", skey(b, "return-%s#%d-final" % (want.lower(), nret - 1)), c.bb not in r, g.where(i, j),
               "no wrapped call follows this return" if c.bb not in r else "a wrapped call is reachable after the outcome was chosen")
    rep.floor("C05.return-sites", nret, 4)
    # after the first Ok edge no further call
    for (bb, tgt) in ok_edges:
        r = g.reach([tgt], kinds=(N,))
        rep.ob("C05.LAST-OUTCOME", skey(b, "stop-at-first-success"), c.bb not in r, g.where(bb),
               "the loop stops at the first success" if c.bb not in r else "the wrapped call can be repeated after a success")


def _succ_reaches(g, a, b, avoid):
    for (t, k, _l) in g.succ[a]:
        if k == N and t >= 0 and b in g.reach([t], kinds=(N,), avoid_nodes=[avoid]):
            return True
    return False


def _is_local(tr, b, node, l):
    node = peel(node)
    g = graph(b)
    # the value of local l at some point: its definitions are the init and the increment
    defs = {("call",), }
    for lf in leaves(node):
        lf = peel(lf)
        ok = False
        for d in g.defs.get(l, []):
            dn = peel(tr._defnode(b, g, d, 0))
            if lf == dn or (dn[0] == "field" and peel(dn[1]) == lf) or lf[0] == "cycle":
                ok = True
            if lf[0] == "field" and dn[0] == "field" and lf == dn:
                ok = True
            if lf[0] == "field" and peel(lf[1])[0] == "binop" and dn[0] == "field" and peel(dn[1])[0] == "binop":
                ok = True
            if lf[0] == "const" and dn[0] == "const" and lf == dn:
                ok = True
        if not ok:
            return False
    return True


def _mentions_local(tr, b, node, l):
    g = graph(b)
    dns = [peel(tr._defnode(b, g, d, 0)) for d in g.defs.get(l, [])]
    dns = [d for d in dns if d[0] != "const"]
    for x in tr.walk(node, limit=80):
        if x in dns or x[0] == "cycle" and x[1] == l:
            return True
    return False


def _plus(tr, b, node, l):
    n = peel(node)
    if n[0] == "field":
        n = peel(n[1])
    if n[0] == "binop" and n[1] in ("Add", "AddWithOverflow") and _is_local(tr, b, n[2], l) and peel(n[3])[0] == "const":
        try:
            return int(peel(n[3])[3])
        except Exception:
            return None
    return None
