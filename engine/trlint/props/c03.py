"""C03 — open circuit breaker shields the inner service."""
from ..core import graph, Call, peel, leaves, show, N
from ..util import *
from .cb_common import cb_view, CB, CRATE, STATE_ENUM

EXPLANATION = (
    "Decides the shielding discipline on built MIR: (ADMIT) in both circuit-breaker services every call of the "
    "wrapped service is edge-dominated by the `true` result of the admission function, called on the value "
    "obtained by awaiting the shared circuit mutex, and no wrapped-service call is reachable from the `false` "
    "edge (the with-fallback service reaches only the fallback there); (OPEN-GUARD) inside the admission "
    "function, in the Open arm, `true` is returned only after the guard elapsed(last_state_change) >= "
    "wait_duration_in_open and after the transition to HalfOpen; (WRITERS) the state and its timestamp are "
    "written only by the one transition function and the constructor; (SHARE) Clone of both services shares the "
    "same Arc<Mutex<Circuit>> and the circuit type is crate-private, so every access is under the lock. Not "
    "decided: wall-clock ordering of 'observed open' against calls admitted before the transition."
    ' The open-wait guard is recognised in its elapsed, duration_since and deadline (`now >= start.checked_add(wait)?`) forms; no panicking Instant/Duration operator touches the configured wait (NO-PANIC-ARITH).')
RULE = "one obligation per wrapped-service call site (ADMIT/NOREACH), per true-return in the Open arm, per writer of state, per Arc field of Clone"
TRUSTED = ["tokio::sync::Mutex", "std::time::Instant", "rustc MIR construction"]
ASSUMPTIONS = ["the admission function is the workspace-local bool function whose true edge dominates the wrapped call"]
CONFIG_CRATES = ["tower_resilience_circuitbreaker"]
TECHNIQUE = "static analysis of built MIR: edge dominance (must-pass-through), no-reach, who-writes, value-flow of shared state"


def run(facts, tr, rep):
    # service-level rules on the shallow view (free helpers, async helpers and glue methods inlined; the circuit's own
    # methods stay calls and are found by role); clauses about one circuit method use its fully inlined body
    facts0, tr0 = facts, tr
    facts, tr = facts.shallow, tr.shallow
    _n_ops = check_no_panicking_time_arith(facts, tr, rep, "C03.NO-PANIC-ARITH", facts.crates[CRATE].bodies)
    rep.note("panicking Instant/Duration operators examined in the crate: %d" % _n_ops)
    cb, facts, tr = cb_view(facts0, tr0, rep)
    rep.floor("C03.inner-call-sites", len(cb.sites), 2)
    for (sb, b, c, adm) in cb.sites:
        g = graph(b)
        k = skey(b, "inner-call#%d" % ordinal(g, c))
        if adm is None:
            rep.ob("C03.ADMIT", k, False, c.where(), "wrapped-service call is not dominated by the true edge of an admission function")
            continue
        e, cc, fb = adm
        # receiver of the admission call derives from awaiting Mutex::lock on the shared circuit
        recv = tr.expand(tr.operand(cc.g.b, cc.args[0], cc.loc))
        locks = calls_in(tr, recv, lambda x: x.def_ and x.def_.startswith("tokio::sync::mutex::Mutex::<T>::lock"))
        rep.ob("C03.ADMIT", k, True, c.where(),
               "wrapped-service call is edge-dominated by `%s(..) == true` (%s)" % (fb.def_.split("::")[-1], g.where(e["bb"])))
        rep.ob("C03.LOCKED", k, bool(locks), cc.where(),
               "admission is decided on the circuit obtained from the shared async mutex" if locks else
               "admission call receiver does not derive from Mutex::lock of the shared circuit")
        # no inner call reachable from the false edge
        sw = e["sw"]
        ftgt = sw.variants.get("false")
        r = g.reach([ftgt], kinds=(N,)) if ftgt is not None else set()
        bad = [x for x in r if g.term(x)["k"] == "call" and Call(g, x, g.term(x)).def_ == "tower_service::Service::call"
               and Call(g, x, g.term(x)).self_kind in ("param", "ref_param")]
        rep.ob("C03.NOREACH", k, not bad, g.where(e["bb"]),
               "no wrapped-service call is reachable from the rejected edge" if not bad else
               "a wrapped-service call at %s is reachable from the rejected edge" % g.where(bad[0]))
    if not cb.ok or cb.admission is None:
        rep.anchor_missing("circuit-breaker admission function / CircuitState field")
        return
    a = cb.admission
    rep.saw(a)
    g = graph(a)
    sw_bb, sw = cb.state_arms(a)
    if sw is None:
        rep.ob("C03.OPEN-GUARD", skey(a, "arms"), False, "%s:%d" % (a.span["file"], a.span["line"]),
               "admission function does not branch on the circuit state")
        return
    rep.floor("C03.state-arms", len([v for v in ("Closed", "Open", "HalfOpen") if v in sw.variants]), 3)
    # Open arm: a path that leaves the Open arm with a result other than `false` has passed the guard
    # elapsed >= wait_duration_in_open and the transition to HalfOpen.  Decided on the return value's tag along
    # feasible paths, so it does not matter whether the arm returns constants under an `if`, returns the
    # comparison itself, or stores the verdict in a local that is returned after the match.
    ts_fields0 = [f["name"] for f in cb.circuit["variants"][0]["fields"] if "Instant" in facts.crates[CRATE].types[f["ty"]]["s"]]
    tcalls = [(b, cs, tgt) for (b, cs, tgt) in cb.transition_calls() if b is a]
    op_entry = sw.variants.get("Open")
    region = g.reach([op_entry], kinds=(N,)) if op_entry is not None else set()

    def _is_wait_guard(e):
        if e["kind"] != "bool":
            return False
        c = cmp_on_edge(tr, e)
        ef = elapsed_form(tr, c) if c is not None else None
        return ef is not None and mentions_field(tr, ef[1], "wait_duration_in_open") and any(mentions_field(tr, ef[0], tsf) for tsf in ts_fields0)
    admit_edges = set()
    for bb in sorted(region):
        s2 = g.switch(bb)
        if s2 is None or s2.kind != "bool" or not cb.in_arm(a, sw_bb, sw, "Open", bb):
            continue
        for lab in ("true", "false"):
            tgt = s2.variants.get(lab)
            if tgt is None or s2.variants.get("true") == s2.variants.get("false"):
                continue
            # the guard holds on this edge: it is the guard's own edge, or the tested flag inherits it
            if any(_is_wait_guard(e) and g.edge_dominates((bb, tgt), tgt) and (e["bb"] != bb or e["label"] == lab) for e in dominating_edges(tr, a, tgt)
                   if e["bb"] == bb or "via" in e):
                admit_edges.add((bb, tgt))
    tags_g = g.return_tags([op_entry], avoid_edges=admit_edges) if op_entry is not None else {None}
    ok_guard = bool(admit_edges) and tags_g <= {"false"}
    tnodes = [cs.bb for (_b, cs, tgt) in tcalls if tgt == "HalfOpen" and cs.bb in region]
    tags_t = g.return_tags([op_entry], avoid_nodes=tnodes) if op_entry is not None else {None}
    ok_trans = bool(tnodes) and tags_t <= {"false"}
    rep.ob("C03.OPEN-GUARD", skey(a, "open-admits-only-after-wait"), ok_guard, g.where(op_entry) if op_entry is not None else "-",
           "every path that leaves the Open arm admitting the call has passed elapsed >= wait_duration_in_open (%d guard edge(s))" % len(admit_edges) if ok_guard else
           ("no guard elapsed(last state change) >= wait_duration_in_open is tested in the Open arm" if not admit_edges else
            "in the Open arm admission can be granted without the elapsed >= wait_duration_in_open guard (result %s on a path that avoids it)"
            % sorted(str(t) for t in tags_g - {"false"})))
    rep.ob("C03.OPEN-GUARD", skey(a, "open-admits-only-after-transition"), ok_trans, g.where(op_entry) if op_entry is not None else "-",
           "every path that leaves the Open arm admitting the call has transitioned to HalfOpen" if ok_trans else
           "in the Open arm admission can be granted without transitioning to HalfOpen")
    # writers of state / timestamp
    for fname in (cb.state_field,):
        ws = field_writes(facts, cb.circuit_adt, fname)
        bodies = sorted({w[0].def_ for w in ws})
        rep.ob("C03.WRITERS", "%s|%s.%s" % (CRATE, cb.circuit_adt, fname), len(bodies) == 1, where(ws[0][0], ws[0][1], ws[0][2]) if ws else "-",
               "field %s is written only in %s" % (fname, bodies[0].split("::")[-1]) if len(bodies) == 1 else
               "field %s is written in %d functions: %s" % (fname, len(bodies), bodies))
    # the instant compared in the Open guard is written only where the state is written
    ts_fields = [f["name"] for f in cb.circuit["variants"][0]["fields"] if "Instant" in facts.crates[CRATE].types[f["ty"]]["s"]]
    for fname in ts_fields:
        ws = field_writes(facts, cb.circuit_adt, fname)
        bodies = sorted({w[0].def_ for w in ws})
        okw = bool(ws) and all(w[0] is cb.transition for w in ws)
        rep.ob("C03.WRITERS", "%s|%s.%s" % (CRATE, cb.circuit_adt, fname), okw, where(ws[0][0], ws[0][1], ws[0][2]) if ws else "-",
               "timestamp %s is written only by the transition function" % fname if okw else
               "timestamp %s is written outside the transition function: %s" % (fname, bodies))
    # every write of the state is accompanied by a write of the timestamp (the Open clock restarts on every transition)
    if cb.transition is not None:
        T = cb.transition
        gT = graph(T)
        sw_ = [(i, j) for (b_, i, j, s_) in cb.state_writes if b_ is T]
        for fname in ts_fields:
            tw = [i for (b_, i, j, s_) in field_writes(facts, cb.circuit_adt, fname) if b_ is T]
            for (i, j) in sw_:
                r = gT.reach([i], kinds=(N,), avoid_nodes=tw)
                skip = [x for x in r if gT.term(x)["k"] == "return"] if i not in tw else []
                rep.ob("C03.CLOCK", skey(T, "timestamp-with-state.%s" % fname), not skip and bool(tw), gT.where(i, j),
                       "every state transition restarts the clock %s the Open wait is measured from" % fname if not skip and tw else
                       "a state transition can complete without updating %s: after re-opening, the wait is measured from an older instant and "
                       "new calls are admitted too early" % fname)
    # leaving Open: only the admission function (after the wait), or a manual override
    allowed_leave = {("try_acquire", "Open"), ("force_closed", "*"), ("reset", "*"), ("record_success", "HalfOpen")}
    nleave = 0
    for (b_, cs, tgt) in cb.transition_calls():
        if tgt == "Open":
            continue
        nleave += 1
        rep.saw(b_)
        name = cb.role(b_)
        arm = cb.arm_of(b_, cs.bb)[0]
        ok = (name, arm) in allowed_leave
        rep.ob("C03.LEAVE-OPEN", skey(b_, "transition->%s@%s" % (tgt, arm)), ok, cs.where(),
               "transition to %s from %s[%s] cannot take the breaker out of Open early" % (tgt, name, arm) if ok else
               "%s can move the breaker to %s from an arm that includes Open (%s): an outcome recorded while open (e.g. a call admitted "
               "earlier that finishes late) ends the open period before wait_duration_in_open" % (name, tgt, arm))
    rep.floor("C03.leave-open-sites", nleave, 4)
    # circuit type is not public
    rep.ob("C03.PRIVATE", "%s|%s" % (CRATE, cb.circuit_adt), cb.circuit["vis"] != "pub", "-",
           "circuit state type visibility is %s (every access goes through the service's mutex)" % cb.circuit["vis"])
    # constructed only inside Mutex::new in library code
    nshare = 0
    for sb in cb.services:
        st = sb.types[sb.impl["self_ty"]]
        nshare += check_share(facts, tr, rep, "C03.SHARE", st["def"])
    rep.floor("C03.share-fields", nshare, 4)


def _is_elapsed(tr, node):
    return bool(calls_in(tr, node, lambda c: c.def_ in ("std::time::Instant::elapsed", "std::time::Instant::duration_since",
                                                         "tokio::time::instant::Instant::elapsed")))
