"""C07 — bulkhead never loses capacity and rejects only by timeout."""
from ..core import graph, Call, peel, leaves, show, N, U, D
from ..util import *
from ..pair import Pair
from .bh_common import BH, CRATE, PERMIT, ACQUIRE

EXPLANATION = (
    "Decides (PAIR) that from the point an owned permit is bound every exit of the call future — return, "
    "unwinding out of the wrapped service's `call` or poll, coroutine-drop at each await (cancellation while "
    "running) — runs the permit's destructor, and the permit is never forgotten or parked in longer-lived "
    "storage; before the binding no permit exists, so cancellation while queued or before the first poll holds "
    "nothing; (ERRORS) the timeout error is constructed only on the Elapsed edge of timeout(max_wait_duration, "
    "acquire) whose duration is the configured max_wait_duration, the bulkhead-full error only on the "
    "acquire-error edge, and no wrapped-service call is reachable from either; (NO-DELAY) no other await "
    "precedes the acquire await, so the rejection clock starts at the first poll and the layer adds no delay "
    "and no other rejection path. Not decided: 'admitted at once when a slot is free and nobody queues' and "
    "'rejected exactly max_wait after arrival' are properties of tokio's semaphore fairness and timer."
    ' (NO-PANIC-ARITH) no panicking Instant/Duration operator is applied to max_wait_duration; (CONFIG) a preset cannot make a later setter ineffective (build-select). (BOUNDED-WAIT) whether the wait is bounded is decided by the configured max_wait_duration on every leaf of the decision, never by a look at the free permits.')
RULE = "one obligation per permit binding x exit class, per error construction site, per await preceding the acquire"
TRUSTED = ["tokio::sync::Semaphore / OwnedSemaphorePermit (drop returns the permit)", "tokio::time::timeout", "may-unwind policy table"]
ASSUMPTIONS = []
CONFIG_CRATES = ["tower_resilience_bulkhead"]
TECHNIQUE = "static analysis of built MIR: acquire/release pairing over return/unwind/coroutine-drop edges with RAII guards, edge dominance of error constructions, await inventory"


def run(facts, tr, rep):
    facts, tr = facts.inl, tr.inl        # path rules: private helpers (sync and async) are looked through by inlining
    _n_ops = check_no_panicking_time_arith(facts, tr, rep, "C07.NO-PANIC-ARITH", facts.crates["tower_resilience_bulkhead"].bodies)
    rep.note("panicking Instant/Duration operators examined in the crate: %d" % _n_ops)
    bh = BH(facts, tr, rep)
    b = bh.cor
    if b is None:
        rep.anchor_missing("call future of the bulkhead service")
        return
    rep.saw(b)
    g = graph(b)
    P = Pair(facts, tr, lambda body, c: False, external_guards=(PERMIT,))
    binds = bh.permit_bindings(b)
    rep.floor("C07.permit-bindings", len(binds), 2)
    for n, (i, j, l) in enumerate(binds):
        # explore from the block after the binding statement: start at the same block with holder = l
        viol, transfers = P.explore_from_stmt(b, i, j, l) if hasattr(P, "explore_from_stmt") else P.explore(b, i, l)
        classes = {}
        for (kind, wherex, path) in viol:
            classes.setdefault(kind, (wherex, path))
        for kind, (wherex, path) in classes.items():
            rep.ob("C07.PAIR", skey(b, "permit#%d|exit:%s" % (n, kind)), False, wherex,
                   "the permit bound at %s is not returned to the semaphore when %s; path %s — the bulkhead permanently loses a slot"
                   % (g.where(i, j), {"forget": "it is forgotten", "return": "the future returns", "resume": "the future unwinds",
                                      "coroutine_drop": "the future is dropped while suspended", "unwind-exit": "the future unwinds"}.get(kind, kind),
                      P.describe_path(b, path)))
        if not classes:
            rep.ob("C07.PAIR", skey(b, "permit#%d" % n), True, g.where(i, j),
                   "every exit after the permit is bound (return, unwind, cancellation at each await) drops the permit")
    # the permit is not stored anywhere longer-lived: permit-typed operands only flow into permit-typed locals or drop
    pls = set(bh.permit_locals(b))
    escapes = []
    for i, blk in enumerate(b.blocks):
        for j, s in enumerate(blk["stmts"]):
            if s["k"] == "assign" and s["rv"]["k"] == "agg":
                # wrapping the permit in Ok(..) / Some(..) / a tuple on its way to the binding is a transfer, not a store
                if s["rv"].get("ak") in ("tuple",) or (s["rv"].get("ak") == "adt" and (s["rv"].get("def") or "").startswith(("core::result::Result", "core::option::Option", "core::task::poll::Poll", "core::ops::control_flow::ControlFlow"))):
                    continue
                for o in s["rv"]["ops"]:
                    pl = o.get("move")
                    if pl is not None and not pl["p"] and pl["l"] in pls:
                        escapes.append((i, j))
    rep.ob("C07.PAIR", skey(b, "permit-not-stored"), not escapes, g.where(*escapes[0]) if escapes else "-",
           "the permit is never moved into another value (it lives and dies in the call future)" if not escapes else
           "the permit is moved into an aggregate: it may outlive the call")
    # ---------------------------------------------------------------- ADMIT (a rejected / cancelled-while-waiting request never reaches the wrapped service)
    for (sb, cb, c) in bh.sites:
        rep.saw(cb)
        cg = graph(cb)
        blocks = [i for (i, _j, _l) in bh.permit_bindings(cb)]
        r = cg.reach([0], kinds=(N, U, D), avoid_nodes=blocks)
        ok = bool(blocks) and c.bb not in r
        rep.ob("C07.ADMIT", skey(cb, "inner-call#%d" % ordinal(cg, c)), ok, c.where(),
               "the wrapped service is reached only by a request that holds a permit" if ok else
               "the wrapped service's `call` runs before / without a permit: requests that are later rejected by the wait timeout, or "
               "cancelled while queued or before their first poll, have already reached the wrapped service")
    rep.floor("C07.inner-call-sites", len(bh.sites), 1)
    # ---------------------------------------------------------------- ERRORS
    acq = bh.acquire_awaits(b)
    rep.floor("C07.acquire-awaits", len(acq), 2)
    nerr = 0
    for i, blk in enumerate(b.blocks):
        for j, s in enumerate(blk["stmts"]):
            if s["k"] != "assign" or s["rv"]["k"] != "agg" or s["rv"]["ak"] != "adt" or not s["rv"]["def"].endswith("BulkheadError"):
                continue
            v = s["rv"]["variant"]
            nerr += 1
            # evidence: which outcomes of the permit wait can reach this construction?  (decided by feasible
            # reachability from the completion of each acquire await with the outcome assumed, so it does not matter
            # how the result is matched, re-wrapped into another Result, or passed through `?` / a helper)
            allowed_hit, bad_hit = [], []
            for (a, kind, ac, acqc) in acq:
                outs = [("permit", ("Ok", ("Ok", None))), ("closed", ("Ok", ("Err", None))), ("elapsed", ("Err", None))] if kind == "timeout" else \
                       [("permit", ("Ok", None)), ("closed", ("Err", None))]
                for (nm, tag) in outs:
                    if i in outcome_reach(g, a, tag):
                        if (v == "Timeout" and nm == "elapsed") or (v == "BulkheadFull" and nm == "closed"):
                            allowed_hit.append("%s of the %s wait" % (nm, kind))
                        else:
                            bad_hit.append("%s of the %s wait" % (nm, kind))
            ok = bool(allowed_hit) and not bad_hit
            how = ", ".join(sorted(set(allowed_hit))) if ok else ""
            r = g.reach([i], kinds=(N,))
            reach_inner = any(g.term(x)["k"] == "call" and Call(g, x, g.term(x)).def_ == "tower_service::Service::call"
                              and Call(g, x, g.term(x)).self_kind in ("param", "ref_param") for x in r)
            rep.ob("C07.ERRORS", skey(b, "%s#%d" % (v, nerr - 1)), ok and not reach_inner, g.where(i, j),
                   "%s is constructed only on the %s; no wrapped-service call follows" % (v, how) if ok and not reach_inner else
                   "%s is constructed %s" % (v, "and a wrapped-service call is reachable afterwards" if reach_inner else
                                             "off its evidence (Timeout <-> the wait elapsed, BulkheadFull <-> the semaphore was closed): it is reachable from %s" % (sorted(set(bad_hit)) or "no outcome of a permit wait")))
    rep.floor("C07.error-sites", nerr, 2)        # one per rejection kind (Timeout, BulkheadFull); duplicates may be merged
    # timeout duration is max_wait_duration
    for (a, kind, ac, acqc) in acq:
        if kind != "timeout":
            continue
        d = peel(tr.expand(tr.operand(b, ac.args[0], ac.loc), upvars=True))
        if ac.def_.startswith("tokio::time::timeout::timeout_at"):
            # a deadline: accepted as now() + max_wait_duration / now().checked_add(max_wait_duration)
            ds = deadline_durations(tr, d)
            # (beside it, a far-future fallback `now() + <constant>` for a limit too large to add to an instant is what
            # tokio's own `timeout` does; a fallback to `now` itself is not of that form and is refused)
            from ..util import _const_bounded
            cfg = [x for x in (ds or []) if mentions_field(tr, x, "max_wait_duration") and peel(x)[0] != "binop"]
            ok = ds is not None and bool(cfg) and all(x in cfg or _const_bounded(tr, x) for x in ds)
        else:
            ok = mentions_field(tr, d, "max_wait_duration") and d[0] != "binop"
        rep.ob("C07.ERRORS", skey(b, "timeout-duration" + ("" if ok else "@%s" % ac.name)), ok, ac.where(),
               "the wait is bounded by config.max_wait_duration itself" if ok else "the wait duration is %s, not config.max_wait_duration" % show(d))
    # ---------------------------------------------------------------- BOUNDED-WAIT: an unbounded wait only when no max wait is configured
    for (a, kind, ac, acqc) in acq:
        if kind != "plain":
            continue
        edges = dominating_edges(tr, b, a.into_bb)
        # the policy matched on is the configured one on every path (a local that is `Unbounded` when a slot *looked* free at
        # call() time and the configured policy otherwise is not: the look is stale by the first poll)
        on_none = any(optionlike_role(facts, b, e) == "none" and all(mentions_field(tr, lf, "max_wait_duration") for lf in leaves(e["node"])) for e in edges)
        rep.ob("C07.BOUNDED-WAIT", skey(b, "plain-acquire@L%d" % a.line), on_none, g.where(a.into_bb),
               "the permit is awaited without a deadline only when max_wait_duration is None" if on_none else
               "the permit is awaited without a deadline on a path where max_wait_duration may be configured: such a caller is "
               "never rejected with the timeout error, however long it queues")
    # ---------------------------------------------------------------- NO-DELAY
    for (a, kind, ac, acqc) in acq:
        pre = [x for x in g.awaits() if x is not a and x.into_bb is not None and a.into_bb in g.reach([x.into_bb], kinds=(N,))
               and not _is_yield_now(tr, b, x)]
        rep.ob("C07.NO-DELAY", skey(b, "before-acquire@%s" % kind), not pre, g.where(a.into_bb),
               "nothing is awaited before the permit is requested" if not pre else
               "%s is awaited before the permit is requested: the rejection clock no longer starts at arrival" % [x.fut_ty["s"][:50] for x in pre])
    # non-acquire, non-inner awaits between binding and inner call would also delay admission: none expected
    others = [x for x in g.awaits() if all(x is not a for (a, _k, _c, _q) in acq) and not x.fut_ty["s"].startswith("<S as tower_service::Service")]
    rep.ob("C07.NO-DELAY", skey(b, "other-awaits"), not others, g.where(others[0].into_bb) if others else "-",
           "the call future awaits only the permit and the inner future" if not others else
           "additional await(s) in the call future: %s" % [x.fut_ty["s"][:60] for x in others])


def _is_yield_now(tr, b, a):
    c = awaited_call(tr, b, a)
    return c is not None and c.name == "yield_now"
