"""C10 — cache hits return the latest unexpired value of the right key; size is bounded."""
from ..core import graph, Call, peel, leaves, show, N, U, D
from ..util import *

EXPLANATION = (
    "Equivalence with a reference cache and the victim choice of LRU/LFU/FIFO are value-level and NOT decided. "
    "Decided: (MISS-ONLY) the wrapped service is called only on the None edge of store.get(&key), once, and is "
    "unreachable from the Some edge, whose payload is what a hit returns; (STORE-ON-OK) the store insertion is "
    "reached only on the success edge of the awaited inner result, lies on every path from that edge to the "
    "return (the latest response always replaces the stored one), and inserts a clone of that Ok payload — errors "
    "are never cached; (KEY) the keys given to get and to insert both originate in key_extractor(&req) of the "
    "forwarded request; (EXPIRY) CacheStore::get returns Some only on the not-expired edge of "
    "entry.is_expired(ttl), and is_expired is elapsed(inserted_at) > ttl; (CAPACITY) in each eviction store every "
    "insertion of a new key is preceded on every path by the failed test len >= capacity or by a removal (LRU "
    "delegates to lru::LruCache sized by the capacity); (COHERENT) a store method that removes from one of its "
    "containers removes from the other one too — a ghost key left in the order/frequency index later defeats the "
    "capacity bound; (SHARE) clones share the store, SharedCacheLayer hands the same Arc to every service, and the "
    "store mutex guard is never held across a suspension point."
    ' (COUNTER) per-key use counters are at least 64 bits wide; every construction path of the store hands it the configured ttl (store-ttl-origin).'
    ' (OVERWRITE) re-storing a key that is present gives the bookkeeping containers no second entry and no reset counter; the expiry predicate answers `fresh` without looking at the age only when no TTL is configured. (POLICY store-config-origin) every argument of the store constructor reads a configuration field at every construction site, and the sites agree on which; COHERENT also in path form: every path that removes an entry from the primary map removes the key from each bookkeeping container before returning.')
RULE = "one obligation per wrapped-call site, per insertion site, per key operand, per Some-return of get, per new-key insertion, per removing method, per Arc field"
TRUSTED = ["lru::LruCache (bounded by its capacity)", "std::collections::HashMap / VecDeque", "std::sync::Mutex"]
ASSUMPTIONS = ["max_size >= 1"]
CONFIG_CRATES = ["tower_resilience_cache"]
TECHNIQUE = "static analysis of built MIR: edge dominance / no-reach, must-pass-through of the store insertion, value-flow of keys and cached values, guarded-insert rule, sibling-container agreement"

CRATE = "tower_resilience_cache"
REMOVERS = ("remove", "pop_front", "pop_back", "pop", "clear", "retain", "truncate", "drain", "remove_entry", "pop_lru", "shift_remove", "swap_remove")
INSERTERS = ("insert", "push_back", "push_front", "push", "put")


def _is_expiry_test(tr, e0):
    """e0 returns `time since <field of self> > <parameter>` (or >=), in any of the forms elapsed_form knows
    (elapsed(), now.duration_since(x), now.saturating_duration_since(x), ...); judged on the fully inlined body, so
    an extracted `age()` helper does not matter"""
    from ..inline import view_of
    ff, ftr = view_of(tr.facts, "full")
    e1 = ff.bodies.get(e0.def_) or e0
    found = False
    for (i, j, node) in ret_assigns(ftr, e1):
        for lf in leaves(node):
            lf = peel(lf)
            edges = dominating_edges(ftr, e1, i)
            # the only decision besides the age test is "is a TTL configured": an entry is declared fresh without
            # looking at its age only on the `None` edge of the TTL parameter, and the age test itself is not guarded by
            # anything but the `Some` edge (`Some(ttl) if !ttl.is_zero()` would make a zero TTL mean "never expires")
            opt_edges = [e for e in edges if e["kind"] == "enum" and e["label"] in ("Some", "None") and peel(e["node"])[0] == "param"]
            others = [e for e in edges if e not in opt_edges and e["kind"] in ("bool", "enum") and "via" not in e]
            if lf[0] == "const":
                if lf[1] == "false" and not (any(e["label"] == "None" for e in opt_edges) and not others):
                    return False
                if lf[1] == "true":
                    return False
                continue
            cm = normalise_cmp(ftr, lf)
            ef = elapsed_form(ftr, cm) if cm is not None else None
            if ef is None:
                return False
            start, dur = peel(ef[0]), ef[1]
            while start[0] in ("ref", "deref"):
                start = peel(start[1])
            ttl_side = any(n[0] == "param" for n in ftr.walk(dur, limit=30))
            if start[0] == "field" and peel(start[1])[0] in ("param", "deref", "ref") and ttl_side and not others:
                found = True
            else:
                return False
    return found


def run(facts, tr, rep):
    _n_ops = check_no_panicking_time_arith(facts, tr, rep, "C10.NO-PANIC-ARITH", facts.crates["tower_resilience_cache"].bodies)
    rep.note("panicking Instant/Duration operators examined: %d" % _n_ops)
    # the service-level clauses (MISS-ONLY, STORE-ON-OK, KEY) use the shallow view: free helper functions and glue
    # methods of the service are inlined, the store's methods stay calls; the store itself, the constructors and the
    # layers are judged on the program as written
    facts0, tr0 = facts, tr
    # roles of the store wrapper, by effect: the methods that forward to EvictionStore::get / ::insert are "the lookup"
    # and "the insertion"; they stay calls, every other private helper between the service and them is inlined
    ROLE = {"get": set(), "insert": set()}
    for b0 in facts0.crates[CRATE].bodies:
        if b0.kind != "fn" or not b0.def_.startswith(CRATE + "::store"):
            continue
        for c0 in graph(b0).calls():
            if c0.name in ROLE and (c0.trait or "").endswith("EvictionStore"):
                ROLE[c0.name].add(b0.def_)
    rep.floor("C10.store-role-methods", len(ROLE["get"]) + len(ROLE["insert"]), 2)
    from ..inline import view_of
    keep = set(ROLE["get"]) | set(ROLE["insert"])
    keep |= {b0.def_ for b0 in facts0.crates[CRATE].bodies if b0.kind == "fn" and b0.impl and (b0.impl.get("trait") or "").endswith("EvictionStore")}
    facts, tr = view_of(facts0, keep)
    sbs = service_call_bodies(facts, crate=CRATE)
    if not sbs:
        rep.anchor_missing("Service::call of the cache service")
        return
    sb = sbs[0]
    rep.saw(sb)
    g = graph(sb)
    sites = inner_calls(facts, sb)
    rep.floor("C10.inner-call-sites", len(sites), 1)
    # store.get calls in Service::call
    def is_store_get(c):
        return any(d in ROLE["get"] for d in c.targets_def())
    gets = [c for c in g.calls() if is_store_get(c)]
    helper_keys = {}
    if not gets:
        # the lookup may live in a private helper (e.g. `self.lookup(&key)`): look through it
        for c in g.calls():
            node = ("call", sb.crate.name, sb.def_, c.bb)
            hb = tr.local_sync_callee(node)
            if hb is None or hb.crate.name != CRATE:
                continue
            hg = [x for x in graph(hb).calls() if is_store_get(x)]
            rets = tr.helper_returns(hb)
            if hg and rets and all(peel(r)[0] == "call" and tr.call_of(peel(r)).bb in [x.bb for x in hg] for r in rets):
                gets.append(c)
                with tr.bound(hb, node):
                    helper_keys[c.bb] = peel(tr.expand(tr.operand(hb, hg[0].args[1], hg[0].loc), upvars=True))
                rep.saw(hb)
    rep.floor("C10.store-get-sites", len(gets), 1)
    GV = [("call", sb.crate.name, sb.def_, c.bb) for c in gets]
    for (b, c) in sites:
        gb = graph(b)
        ok = False
        some_tgt = None
        if b is sb:
            for e in dominating_edges(tr, sb, c.bb):
                if e["kind"] == "enum" and e["label"] == "None" and e["node"] in GV:
                    ok = True
                    some_tgt = e["sw"].variants.get("Some")
        reach = some_tgt is not None and c.bb in g.reach([some_tgt], kinds=(N,))
        rep.ob("C10.MISS-ONLY", skey(b, "inner-call#%d" % ordinal(gb, c)), ok and not reach and not gb.in_cycle(c.bb) and len(sites) == 1, c.where(),
               "the wrapped service is called only on a miss (None edge of store.get), exactly once" if ok and not reach else
               "the wrapped service can be called although the store answered the key (or without asking the store)")
    # LOOKUP-ONCE: the store is looked up (which counts as a use for LRU / LFU) once per request, before the wrapped
    # call; after the wrapped call has been made no further lookup happens on behalf of this request
    for ch_ in descendants(facts, sb):
        gch_ = graph(ch_)
        ic_ = [x for x in gch_.calls() if x.def_ == "tower_service::Service::call" and x.self_kind in ("param", "ref_param")]
        later = []
        starts_ = [x.target for x in ic_ if x.target is not None]
        # ... or after the wrapped call's future completed, when the call is made before the response future is built
        starts_ += [a.ready_bb for a in gch_.awaits() if a.ready_bb is not None and "tower_service::Service" in a.fut_ty["s"] and "::Future" in a.fut_ty["s"]]
        for st_ in starts_:
            r_ = gch_.reach([st_], kinds=(N,))
            later += [y for y in gch_.calls() if y.bb in r_ and is_store_get(y)]
        if starts_:
            ic_ = ic_ or [None]
        if starts_:
            rep.ob("C10.MISS-ONLY", skey(ch_, "lookup-once"), not later, later[0].where() if later else gch_.where(starts_[0]),
                   "the store is not looked up again after the wrapped call" if not later else
                   "the store is looked up again after the wrapped call: for the LRU / LFU policies that counts as another use of the key, "
                   "so one request skews the victim order")
    # a hit returns the stored payload
    hit_ok = False
    for ch in descendants(facts, sb):
        if ch.kind != "coroutine":
            continue
        for (i, j, node) in ret_assigns(tr, ch):
            if node[0] == "agg" and tr.agg_of(node)[1].get("variant") == "Ok":
                p = peel(tr.expand(tr.operand(ch, tr.agg_of(node)[1]["ops"][0], (i, j)), upvars=True))
                if any(derives(tr, p, V, variants=("Some",)) for V in GV):
                    hit_ok = True
    rep.ob("C10.MISS-ONLY", skey(sb, "hit-returns-stored"), hit_ok, "%s:%d" % (sb.span["file"], sb.span["line"]),
           "a hit answers with the payload store.get returned" if hit_ok else "the hit path does not answer with the payload store.get returned")
    # ---------------------------------------------------------------- STORE-ON-OK / KEY
    key_nodes = []
    for c in gets:
        k = helper_keys.get(c.bb)
        if k is None:
            k = peel(tr.expand(tr.operand(sb, c.args[1], c.loc)))
        key_nodes.append((c, k))
    ins_sites = []
    for ch in descendants(facts, sb):
        for c in graph(ch).calls():
            if any(d in ROLE["insert"] for d in c.targets_def()):
                ins_sites.append((ch, c))
    rep.floor("C10.store-insert-sites", len(ins_sites), 1)
    for n, (ch, c) in enumerate(ins_sites):
        rep.saw(ch)
        cg = graph(ch)
        # the awaited inner result
        inner_aw = None
        for a in cg.awaits():
            if a.poll_bb is None:
                continue
            src = peel(tr.expand(tr.operand(ch, a.awaitee, (a.into_bb, len(cg.stmts(a.into_bb)))), upvars=True))
            if src[0] == "call" and tr.call_of(src).def_ == "tower_service::Service::call":
                inner_aw = a
        if inner_aw is None:
            rep.ob("C10.STORE-ON-OK", skey(ch, "insert#%d" % n), False, c.where(), "the insertion is not in the future that awaits the inner call")
            continue
        R = await_node(ch, inner_aw)
        succ = None
        succ_all = []
        for e in dominating_edges(tr, ch, c.bb):
            if e["kind"] == "enum" and e["label"] in ("Ok", "Continue") and derives(tr, e["node"], R, variants=("Ready", "Ok"), success=True):
                succ_all.append(e)
        # the same decision may be tested more than once on the way (`match r { Ok(v) => Ok(v), .. }` followed by `?`):
        # the last test is the edge the insertion hangs on, the earlier ones are not further conditions
        for e in succ_all:
            if all(cg.node_dominates(o["bb"], e["bb"]) for o in succ_all):
                succ = e
        val = peel(tr.expand(tr.operand(ch, c.args[2], c.loc)))
        val_ok = False
        if val[0] == "call" and tr.call_of(val).def_ == CLONE:
            cc = tr.call_of(val)
            src = peel(tr.expand(tr.operand(ch, cc.args[0], cc.loc)))
            val_ok = derives(tr, src, R, variants=("Ready", "Ok", "Continue"))
        else:
            val_ok = derives(tr, val, R, variants=("Ready", "Ok", "Continue"))
        rep.ob("C10.STORE-ON-OK", skey(ch, "insert#%d|edge" % n), succ is not None, c.where(),
               "the store is written only on the success edge of the inner result (errors are never cached)" if succ else
               "the store can be written although the inner call failed")
        rep.ob("C10.STORE-ON-OK", skey(ch, "insert#%d|value" % n), val_ok, c.where(),
               "the stored value is (a clone of) the inner Ok payload" if val_ok else "the stored value is %s, not the inner Ok payload" % show(val))
        if succ is not None:
            tgt = succ["sw"].variants[succ["label"]]
            r = cg.reach([tgt], kinds=(N,), avoid_nodes=[c.bb])
            skip = [x for x in r if cg.term(x)["k"] == "return"]
            extra = [e for e in dominating_edges(tr, ch, c.bb) if e["bb"] in cg.reach([tgt], kinds=(N,)) and e["kind"] in ("bool", "enum")
                     and not in_macro(cg.term(e["bb"])) and not any(e["bb"] == o["bb"] for o in succ_all)]
            rep.ob("C10.STORE-ON-OK", skey(ch, "insert#%d|always" % n), not skip and not extra, c.where(),
                   "every successful miss stores its response (the most recent response replaces the stored one)" if not skip and not extra else
                   "a successful miss can complete without storing its response: a later hit returns an older response than the most recently produced one")
        # KEY
        kk = peel(tr.expand(tr.operand(ch, c.args[1], c.loc), upvars=True))
        same = any(kk == k for (_c, k) in key_nodes)
        from_ext = kk[0] == "call" and tr.call_of(kk).def_ in ("core::ops::function::Fn::call", "core::ops::function::FnMut::call_mut", "core::ops::function::FnOnce::call_once")
        req_ok = False
        if from_ext:
            kc = tr.call_of(kk)
            args = peel(tr.expand(tr.operand(kc.g.b, kc.args[1], kc.loc)))
            parts = [peel(tr.expand(x)) for x in tr.children(args)] if args[0] == "agg" else []
            req_ok = len(parts) == 1 and parts[0][0] == "param" and parts[0][3] == 2
            ext_ok = mentions_field(tr, tr.expand(tr.operand(kc.g.b, kc.args[0], kc.loc)), "key_extractor")
            req_ok = req_ok and ext_ok
        rep.ob("C10.KEY", skey(ch, "insert#%d|key" % n), same and req_ok, c.where(),
               "lookup and insertion use the same key, key_extractor(&req) of the forwarded request" if same and req_ok else
               "the key stored under (%s) is not the key looked up / not key_extractor(&req) of this request" % show(kk))
        # lock guard not live at yields
        live = []
        for a in cg.awaits():
            if a.yield_bb is None:
                continue
            live += [l for l in range(len(ch.locals)) if "MutexGuard" in ch.local_ty(l)["s"] and not ch.local_ty(l)["s"].startswith("core::result") and cg.maybe_init(l, a.yield_bb)]
        rep.ob("C10.SHARE", skey(ch, "no-lock-across-await"), not live, c.where(),
               "the store mutex is never held across a suspension point" if not live else "a store mutex guard is live at a suspension point")
    facts, tr = facts0, tr0
    sb = facts.bodies.get(sb.def_)
    # ---------------------------------------------------------------- EXPIRY
    store_get = [b for b in facts.crates[CRATE].bodies if b.def_.endswith("CacheStore::<K, V>::get")]
    if not store_get:
        rep.anchor_missing("CacheStore::get")
    else:
        sg = store_get[0]
        rep.saw(sg)
        gs = graph(sg)
        nsome = 0
        expiry_fns = set()
        for (i, j, node) in ret_assigns(tr, sg):
            if node[0] == "agg" and tr.agg_of(node)[1].get("variant") == "Some":
                nsome += 1
                ok = False
                for e in dominating_edges(tr, sg, i):
                    if e["kind"] == "bool" and e["label"] == "false" and e["node"][0] == "call":
                        ec = tr.call_of(e["node"])
                        hb = [facts.bodies.get(d) for d in ec.targets_def()]
                        hb = [h for h in hb if h is not None and h.crate.name == CRATE and h.local_ty(0)["s"] == "bool" and _is_expiry_test(tr, h)]
                        if hb and len(ec.args) >= 2:
                            expiry_fns.update(h.def_ for h in hb)
                            ttl = tr.expand(tr.operand(sg, ec.args[1], ec.loc))
                            ok = ok or mentions_field(tr, ttl, "ttl")
                rep.ob("C10.EXPIRY", skey(sg, "some#%d" % (nsome - 1)), ok, gs.where(i, j),
                       "a stored value is returned only when entry.is_expired(self.ttl) is false" if ok else
                       "a stored value can be returned without the expiry test on the configured ttl")
        rep.floor("C10.get-some-returns", nsome, 1)
    # every store is built with the configured TTL: the value stored in the store's ttl field comes, at every
    # construction path inside the crate, from a `ttl` configuration field (or from a public constructor's caller)
    if store_get:
        sadt = sg.types[sg.impl["self_ty"]].get("def") if sg.impl else None
        nttl = 0
        for (ab, i, j, rv) in (agg_sites(facts, sadt) if sadt else []):
            for fn_, op_ in zip(rv["fields"], rv["ops"]):
                fdef = next((f for f in facts.adt(sadt)["variants"][0]["fields"] if f["name"] == fn_), None)
                if fdef is None or "Option<core::time::Duration>" not in facts.crates[CRATE].types[fdef["ty"]]["s"]:
                    continue
                v = tr.expand(tr.operand(ab, op_, (i, j)), upvars=True, params=True)
                for k_, lf in enumerate(leaves(v)):
                    lf = peel(lf)
                    nttl += 1
                    okt = mentions_field(tr, lf, "ttl") or (lf[0] == "param" and (facts.bodies.get(lf[2]) is not None and facts.bodies[lf[2]].j.get("vis") == "pub"))
                    rep.ob("C10.EXPIRY", "%s|store-ttl-origin#%d" % (CRATE, k_), okt, where(ab, i, j),
                           "the store's TTL comes from the configured ttl on this construction path" if okt else
                           "on one construction path the store's TTL is %s instead of the configured ttl: entries of a cache built "
                           "that way never expire (or expire at the wrong age)" % show(lf)[:60])
        rep.floor("C10.store-ttl-origins", nttl, 1)
        # the store is built from the configuration at every construction site: each argument of the store's constructor
        # reads a configuration field (or is the caller's own argument, for a public constructor), and the construction
        # sites agree argument by argument on which field that is (sibling agreement: the per-service store, the shared
        # store and the store of a shared layer built from an existing configuration are the same cache)
        ctors = [b for b in facts.crates[CRATE].bodies if sadt and b.kind == "fn" and b.impl and not b.impl.get("trait")
                 and sg.types[sg.impl["self_ty"]].get("def") == (b.crate.types[b.impl["self_ty"]].get("def"))
                 and any(ab is b for (ab, _i, _j, _rv) in agg_sites(facts, sadt)) and b.arg_count >= 1]
        nsites = 0
        per_pos = {}
        for cb in ctors:
            for c in tr.callers(cb.def_):
                if c.g.b.crate.name != CRATE:
                    continue
                nsites += 1
                for pos, a in enumerate(c.args):
                    v = tr.expand(tr.operand(c.g.b, a, c.loc), upvars=True, params=True)       # through forwarding helpers
                    flds = set()
                    bad = None
                    for lf in leaves(v):
                        lf = peel(lf)
                        fs = {x[2] for x in tr.walk(lf, limit=120) if x[0] == "field" and isinstance(x[2], str)}
                        if fs:
                            flds |= fs
                        elif lf[0] == "param" and facts.bodies.get(lf[2]) is not None and facts.bodies[lf[2]].j.get("vis") == "pub":
                            flds.add("<argument>")
                        else:
                            bad = lf
                    per_pos.setdefault((cb.def_, pos), []).append((c, flds, bad))
        for (cd, pos), lst in sorted(per_pos.items(), key=lambda kv: kv[0]):
            good = [f for (_c, f, b_) in lst if b_ is None and f]
            common = set.intersection(*good) if good else set()
            lst = sorted(lst, key=lambda t: (t[0].g.b.def_, t[0].bb))
            for k_, (c, flds, bad) in enumerate(lst):
                agree = bool(common) or len(good) <= 1
                okc = bad is None and bool(flds) and agree
                rep.ob("C10.POLICY", skey(c.g.b, "store-config-origin.arg%d@%d" % (pos, sum(1 for x in lst[:k_] if x[0].g.b is c.g.b))),
                       okc, c.where(),
                       "argument %d of the store constructor is read from the configuration (%s), as at the other construction sites" % (pos, ", ".join(sorted(flds))) if okc else
                       "argument %d of the store constructor %s: a cache built through this site ignores the configured value "
                       "(capacity, ttl or eviction policy) that the other sites honour" % (pos, ("is %s, not a configuration field" % show(bad)[:60]) if bad is not None or not flds else
                                                                                            "reads %s where the other construction sites read a different field" % sorted(flds)))
        rep.floor("C10.store-construction-sites", nsites, 1)
    rep.ob("C10.EXPIRY", "%s|expiry-predicate" % CRATE, bool(store_get) and bool(expiry_fns), "-",
           "the expiry predicate consulted by the lookup is elapsed(inserted_at) > ttl (%s)" % sorted(x.split("::")[-1] for x in expiry_fns) if store_get and expiry_fns else
           "no predicate of the form inserted_at.elapsed() > ttl guards the lookup")
    # ---------------------------------------------------------------- CAPACITY / COHERENT
    impls = []
    for im in facts.crates[CRATE].impls:
        if im.get("trait", "").endswith("eviction::EvictionStore"):
            impls.append(im)
    rep.floor("C10.eviction-store-impls", len(impls), 3)
    # the stores are judged on the fully inlined bodies of their trait methods (private helpers such as `is_full()`,
    # `overwrite(..)`, methods of a private struct that groups map and capacity do not matter); containers are the map / queue
    # fields of the store, directly or inside such a private struct
    facts_s, tr_s = facts, tr
    facts, tr = facts.inl, tr.inl
    for im in impls:
        st = facts.crates[CRATE].types[im["self_ty"]]
        adt_def = st.get("def")
        short = adt_def.split("::")[-1]
        items = {it["name"]: facts.bodies.get(it["def"]) for it in im["items"]}
        adt = facts.adt(adt_def)

        def _containers(a_, depth=0):
            out = []
            for f in a_["variants"][0]["fields"]:
                ts = facts.crates[CRATE].types[f["ty"]]["s"]
                fd = facts.crates[CRATE].types[f["ty"]].get("def")
                if fd and fd.startswith(CRATE) and facts.adt(fd) is not None and len(facts.adt(fd)["variants"]) == 1 and depth < 2:
                    out += _containers(facts.adt(fd), depth + 1)
                elif any(t in ts for t in ("HashMap", "VecDeque", "LruCache", "BTreeMap", "Vec<")):
                    out.append(f["name"])
            return out
        containers = _containers(adt)
        # COUNTER: per-key use counters (a map into an integer) order the victims; a counter narrower than 64 bits can
        # wrap or overflow within a reachable number of hits, which turns the most used key into the victim
        import re as _re
        for f in adt["variants"][0]["fields"]:
            fty = facts.crates[CRATE].types[f["ty"]]["s"]
            m_ = _re.search(r"Map<.*,\s*([ui])(8|16|32|64|128|size)>$", fty)
            if not m_:
                continue
            wide = m_.group(2) in ("64", "128", "size")
            rep.ob("C10.COUNTER", "%s|%s|counter.%s" % (CRATE, short, f["name"]), wide, "-",
                   "use counters of %s.%s are %s%s (cannot wrap within a reachable number of hits)" % (short, f["name"], m_.group(1), m_.group(2)) if wide else
                   "use counters of %s.%s are %s%s: after 2^%s hits a key's counter wraps or overflows and the most used key is evicted first"
                   % (short, f["name"], m_.group(1), m_.group(2), m_.group(2)))
        ins = items.get("insert")
        if ins is None:
            rep.anchor_missing("EvictionStore::insert of " + short)
            continue
        rep.saw(ins)
        gi = graph(ins)

        def field_calls(body, names, _depth=0):
            out = []
            for c in graph(body).calls():
                if c.name in names and c.args:
                    recv = peel(tr.expand(tr.operand(body, c.args[0], c.loc), upvars=True))
                    if recv[0] == "field" and recv[2] in containers:
                        out.append((c, recv[2]))
            # local helper functions called from this body (e.g. an extracted `evict_oldest`): their container
            # operations count at the call site
            if _depth < 2:
                for c in graph(body).calls():
                    for d in c.targets_def():
                        hb = facts.bodies.get(d)
                        if hb is not None and hb.crate.name == CRATE and hb.kind == "fn" and hb is not body and hb.name not in items:
                            for (c2, f2) in field_calls(hb, names, _depth + 1):
                                out.append((_AtBlock(c2 if not isinstance(c2, _AtBlock) else c2.c, c.bb), f2))
            for ch in descendants(facts, body):
                if ch is body:
                    continue
                for c in graph(ch).calls():
                    if c.name in names and c.args:
                        recv = peel(tr.expand(tr.operand(ch, c.args[0], c.loc), upvars=True))
                        if recv[0] == "field" and recv[2] in containers:
                            # attribute to the block where the closure is used
                            sites2 = tr.aggsites((ch.crate.name, ch.def_))
                            for (pb, bb, _idx, _rv) in sites2:
                                if pb is body:
                                    out.append((_AtBlock(c, bb), recv[2]))
            return out

        data_ins = [(c, f) for (c, f) in field_calls(ins, INSERTERS)]
        removes = [(c, f) for (c, f) in field_calls(ins, REMOVERS)]
        if len(containers) == 1 and "LruCache" in facts.crates[CRATE].types[[f for f in adt["variants"][0]["fields"] if f["name"] == containers[0]][0]["ty"]]["s"]:
            # LRU: bounded by the library; its capacity must be the configured one
            news = [b for b in facts.crates[CRATE].bodies if b.def_.startswith(adt_def) and b.name == "new"]
            okc = False
            for nb in news:
                for c in graph(nb).calls():
                    if c.name == "new" and "LruCache" in (c.path or ""):
                        cap = tr.expand(tr.operand(nb, c.args[0], c.loc))
                        okc = any(x[0] == "param" for x in tr.walk(cap, limit=60))
            rep.ob("C10.CAPACITY", "%s|%s|lru-capacity" % (CRATE, short), okc, "%s:%d" % (ins.span["file"], ins.span["line"]),
                   "%s is an lru::LruCache sized by the configured capacity" % short if okc else "%s's LruCache is not sized by the configured capacity" % short)
            continue
        # the primary map: the container `len` reads
        lenb = items.get("len")
        primary = None
        if lenb is not None:
            for c in graph(lenb).calls():
                if c.name == "len" and c.args:
                    recv = peel(tr.expand(tr.operand(lenb, c.args[0], c.loc)))
                    if recv[0] == "field":
                        primary = recv[2]
        nnew = 0
        for (c, f) in data_ins:
            if f != primary:
                continue
            edges = dominating_edges(tr, ins, c.bb)
            existing = any(e["kind"] == "bool" and e["label"] == "true" and e["node"][0] == "call" and tr.call_of(e["node"]).name == "contains_key" for e in edges)
            if existing:
                continue
            nnew += 1
            # every path to the insertion passes the failed capacity test or a removal from the primary map
            cap_edges = []
            for bb in range(gi.n):
                sw = gi.switch(bb)
                if sw is None or sw.kind != "bool":
                    continue
                cm = normalise_cmp(tr, peel(tr.expand(tr.operand(ins, sw.cond, (bb, len(gi.stmts(bb)))))))
                if cm and cm[0] in ("Ge", "Gt") and calls_in(tr, cm[1], lambda x: x.name == "len") and (mentions_field(tr, cm[2], "max_size") or mentions_field(tr, cm[2], "capacity")):
                    cap_edges.append((bb, sw.variants["false"]) if cm[0] == "Ge" else None)
                    if cm[0] == "Gt":
                        cap_edges[-1] = None
            cap_edges = [e for e in cap_edges if e]
            rm_blocks = [x.bb for (x, ff) in removes if ff == primary]
            # "no victim" (the `None` answer of the queue / of the search over the use counters) cannot happen at capacity >= 1
            # while the bookkeeping containers mirror the primary map (COHERENT): those edges are not ways around the eviction
            no_victim = []
            for bb in range(gi.n):
                sw = gi.switch(bb)
                if sw is None or sw.kind != "enum" or not ({"None", "Break"} & set(sw.variants)) or not gi.live(bb):
                    continue
                nd = tr.expand(tr.place(ins, sw.place, sw.defloc), upvars=True)
                none_lab = "None" if "None" in sw.variants else "Break"          # (`queue.pop_front()?` answers Break for None)
                if none_lab == "Break" and not (peel(nd)[0] == "call" and tr.call_of(peel(nd)).def_ == TRY_BRANCH):
                    continue

                def _on_secondary(x):
                    if not x.args:
                        return False
                    rc = peel(tr.expand(tr.operand(x.g.b, x.args[0], x.loc), upvars=True))
                    return rc[0] == "field" and rc[2] in containers and rc[2] != primary
                if calls_in(tr, nd, _on_secondary):
                    no_victim.append((bb, sw.variants[none_lab]))
            r = gi.reach([0], kinds=(N,), avoid_nodes=rm_blocks, avoid_edges=cap_edges + no_victim)
            ok = bool(cap_edges) and c.bb not in r
            rep.ob("C10.CAPACITY", "%s|%s|new-key-insert#%d" % (CRATE, short, nnew - 1), ok, c.where(),
                   "a new key is inserted into %s only below capacity (len >= capacity failed) or after an eviction" % short if ok else
                   "a new key can be inserted into %s at capacity without evicting: the cache can grow beyond max_size" % short)
        rep.floor("C10.new-key-insertions:" + short, nnew, 1)
        # OVERWRITE: storing again under a key that is already present replaces the value and nothing else.  On that path the
        # bookkeeping containers get no second entry for the key (a queue that holds the key twice later "evicts" a key that is
        # no longer there: the new key is admitted for free and the cache outgrows max_size) and no reset counter (a key with
        # hits becomes the least-frequently-used victim)
        for n_, (c, f) in enumerate(field_calls(ins, INSERTERS)):
            if f == primary:
                continue
            edges = dominating_edges(tr, ins, c.bb)
            existing = any(e["kind"] == "bool" and e["label"] == "true" and e["node"][0] == "call" and tr.call_of(e["node"]).name == "contains_key" for e in edges)
            if not existing:
                continue
            real = c.c if isinstance(c, _AtBlock) else c
            rb = real.g.b
            bad = None
            if real.name.startswith("push"):
                rms = [x for (x, ff) in removes if ff == f and gi.node_dominates(x.bb, c.bb) and x.bb != c.bb]
                if not rms:
                    bad = "the key is queued again in `%s` without its old position being removed" % f
            elif real.name in ("insert", "put") and len(real.args) >= 3:
                v = peel(tr.expand(tr.operand(rb, real.args[2], real.loc)))
                if v[0] == "const":
                    bad = "`%s` is reset to %s for a key that is already counted" % (f, v[1])
            rep.ob("C10.OVERWRITE", "%s|%s|existing-key.%s#%d" % (CRATE, short, f, n_), bad is None, c.where(),
                   "re-storing a present key leaves the bookkeeping of %s consistent" % short if bad is None else
                   "on the path that re-stores a key that is already present, %s" % bad)
        # COHERENT: removing methods touch every container
        if len(containers) >= 2:
            for nm, mb in items.items():
                if mb is None:
                    continue
                rms = field_calls(mb, REMOVERS)
                touched = {f for (_c, f) in rms}
                if not touched:
                    continue
                rep.saw(mb)
                ok = touched == set(containers)
                rep.ob("C10.COHERENT", "%s|%s|%s" % (CRATE, short, nm), ok, "%s:%d" % (mb.span["file"], mb.span["line"]),
                       "%s::%s removes from all of its containers (%s)" % (short, nm, sorted(containers)) if ok else
                       "%s::%s removes from %s but not from %s: a stale key left behind is later evicted 'successfully' without freeing "
                       "an entry, so the cache exceeds its capacity / evicts the wrong victim" % (short, nm, sorted(touched), sorted(set(containers) - touched)))
                # ... on every path: whenever an entry leaves the primary map, each bookkeeping container drops the key
                # too before the method returns (or has dropped it already).  A removal that is conditional on where the
                # key happens to sit (`if queue.front() == Some(key) { queue.pop_front(); }`) leaves stale keys behind on
                # the other paths.  The `None` answer of the primary removal itself (nothing was removed) is not such a path.
                if primary is None or not ok:
                    continue
                gm = graph(mb)
                rets = [b_ for b_ in range(gm.n) if gm.term(b_)["k"] == "return"]
                for k_, (c, f) in enumerate([(c_, f_) for (c_, f_) in rms if f_ == primary]):
                    real = c.c if isinstance(c, _AtBlock) else c
                    nothing = []
                    if real.g.b is mb:
                        me = ("call", mb.crate.name, mb.def_, real.bb)
                        for bb in range(gm.n):
                            sw = gm.switch(bb)
                            if sw is not None and sw.kind == "bool":
                                # `let v = map.remove(k); if v.is_some() { queue.retain(..) }`
                                nd = peel(tr.expand(tr.operand(mb, sw.cond, (bb, len(gm.stmts(bb)))), upvars=True))
                                neg = False
                                while nd[0] == "unop" and nd[1] == "Not":
                                    nd, neg = peel(nd[2]), not neg
                                if nd[0] == "call" and tr.call_of(nd).name in ("is_some", "is_none") and tr.call_of(nd).args:
                                    cc_ = tr.call_of(nd)
                                    arg = peel(tr.expand(tr.operand(cc_.g.b, cc_.args[0], cc_.loc), upvars=True))
                                    while arg[0] in ("ref", "deref"):
                                        arg = peel(arg[1])
                                    if arg == me or any(peel(x) == me for x in leaves(arg)):
                                        none_lab = "false" if (cc_.name == "is_some") != neg else "true"
                                        if sw.variants.get(none_lab) is not None:
                                            nothing.append((bb, sw.variants[none_lab]))
                                continue
                            if sw is None or sw.kind != "enum" or not ({"None", "Break"} & set(sw.variants)):
                                continue
                            nd = peel(tr.expand(tr.place(mb, sw.place, sw.defloc), upvars=True))
                            lab = "None"
                            if "None" not in sw.variants:        # `map.remove(k)?`
                                if not (nd[0] == "call" and tr.call_of(nd).def_ == TRY_BRANCH):
                                    continue
                                cc_ = tr.call_of(nd)
                                nd = peel(tr.expand(tr.operand(mb, cc_.args[0], cc_.loc), upvars=True))
                                lab = "Break"
                            if nd == me or any(peel(x) == me for x in leaves(nd)):
                                nothing.append((bb, sw.variants[lab]))
                    for g_ in sorted(set(containers) - {primary}):
                        gblocks = {x.bb for (x, ff) in rms if ff == g_}
                        if c.bb in gblocks:
                            continue
                        before = gm.reach([0], kinds=(N,), avoid_nodes=gblocks)
                        after = gm.reach([c.bb], kinds=(N,), avoid_nodes=gblocks, avoid_edges=nothing)
                        leak = c.bb in before and any(b_ in after for b_ in rets)
                        rep.ob("C10.COHERENT", "%s|%s|%s.paired.%s#%d" % (CRATE, short, nm, g_, k_), not leak, c.where(),
                               "every path of %s::%s that removes an entry from `%s` also removes the key from `%s`" % (short, nm, primary, g_) if not leak else
                               "%s::%s can remove an entry from `%s` and return without removing the key from `%s` (the removal from `%s` is "
                               "conditional): the stale key is later evicted 'successfully' without freeing an entry, so the cache exceeds "
                               "max_size" % (short, nm, primary, g_, g_))
    facts, tr = facts_s, tr_s
    # ---------------------------------------------------------------- SHARE
    st = sb.types[sb.impl["self_ty"]]
    n = check_share(facts, tr, rep, "C10.SHARE", st["def"])
    rep.floor("C10.share-fields", n, 2)
    # shared layer hands the same store to every service
    for b in facts.crates[CRATE].bodies:
        if b.name == "layer" and b.impl and b.impl.get("trait") == "tower_layer::Layer" and "Shared" in b.types[b.impl["self_ty"]]["s"]:
            rep.saw(b)
            okc = False
            for c in graph(b).calls():
                for a in c.args:
                    n0 = peel(tr.expand(tr.operand(b, a, c.loc)))
                    if n0[0] == "call" and tr.call_of(n0).def_ == CLONE:
                        src = peel(tr.expand(tr.operand(b, tr.call_of(n0).args[0], tr.call_of(n0).loc)))
                        if src[0] == "field" and src[2] == "store":
                            okc = True
            rep.ob("C10.SHARE", skey(b, "shared-store"), okc, "%s:%d" % (b.span["file"], b.span["line"]),
                   "SharedCacheLayer gives every service a clone of its one store Arc" if okc else "SharedCacheLayer does not pass its store to the services it builds")


class _AtBlock:
    """a call inside a nested closure, attributed to the block of the parent where the closure is created"""
    def __init__(self, c, bb):
        self.c = c
        self.bb = bb
        self.name = c.name

    def where(self):
        return self.c.where()


def in_macro(t):
    return t["span"].get("omacro") is not None
