"""C01 — bulkhead never lets more than max_concurrent_calls into the inner service."""
from ..core import graph, Call, peel, leaves, show, N, U, D
from ..util import *
from .bh_common import BH, CRATE, PERMIT, ACQUIRE

EXPLANATION = (
    "Decides the permit discipline that makes the bound hold for every schedule and cancellation point, given "
    "tokio's semaphore: (CAPACITY) the only Semaphore::new whose result reaches the service is sized by "
    "config.max_concurrent_calls, and clones share that semaphore; (NO-EXTRA-PERMITS) nowhere in the crate are "
    "permits added, forgotten, or the semaphore closed (zero-expected rule with a positive control in the adaptive "
    "crate); (ADMIT) every call of the wrapped service — including the synchronous `call` that creates the inner "
    "future — is dominated by the successful binding of an owned permit acquired from the shared semaphore; "
    "(HELD) on normal control flow the permit is first moved or dropped only after the inner future's await "
    "reported Ready, so it is held across the whole inner call; with C07's pairing, each in-flight inner call owns "
    "a distinct permit of one semaphore of capacity n."
    ' Also: (SHARE) the semaphore field shared by all clones is never assigned after construction; no panicking Instant/Duration operator is applied to a configured duration (NO-PANIC-ARITH).')
RULE = "one obligation per Semaphore::new, per forbidden-call scan, per wrapped-call site, per consumption site of the permit"
TRUSTED = ["tokio::sync::Semaphore (permits are handed out at most `capacity` at a time)", "rustc MIR construction"]
ASSUMPTIONS = ["max_concurrent_calls >= 1"]
CONFIG_CRATES = ["tower_resilience_bulkhead"]
TECHNIQUE = "static analysis of built MIR: value-flow of the capacity, who-calls (zero-expected with positive control), dominance of permit binding over the wrapped call, consumption-after-await rule"

FORBIDDEN = ("add_permits", "forget", "close", "forget_permits")


def _field_is_semaphore(facts, node):
    """('field', base, name, adt): the field's declared type is an Arc of tokio's Semaphore"""
    adt = facts.adt(node[3]) if node[3] else None
    if adt is None:
        return False
    crate = [c for c in facts.crates.values() if node[3] in c.adts][0]
    for f in adt["variants"][0]["fields"]:
        if f["name"] == node[2]:
            return "tokio::sync::semaphore::Semaphore" in crate.types[f["ty"]]["s"]
    return False


def run(facts, tr, rep):
    facts, tr = facts.inl, tr.inl        # path rules: private helpers (sync and async) are looked through by inlining
    _n_ops = check_no_panicking_time_arith(facts, tr, rep, "C01.NO-PANIC-ARITH", facts.crates["tower_resilience_bulkhead"].bodies)
    rep.note("panicking Instant/Duration operators examined in the crate: %d" % _n_ops)
    bh = BH(facts, tr, rep)
    rep.floor("C01.service-impls", len(bh.services), 1)
    rep.floor("C01.inner-call-sites", len(bh.sites), 1)
    # ---------------------------------------------------------------- CAPACITY
    news = []
    for b in facts.crates[CRATE].bodies:
        for c in graph(b).calls():
            if c.name == "new" and "Semaphore" in (c.def_ or "") and "tokio::sync" in (c.def_ or ""):
                news.append((b, c))
    rep.floor("C01.semaphore-new-sites", len(news), 1)
    for (b, c) in news:
        rep.saw(b)
        n = peel(tr.expand(tr.operand(b, c.args[0], c.loc), upvars=True, params=False))
        ok = n[0] == "field" and n[2] == "max_concurrent_calls"
        rep.ob("C01.CAPACITY", skey(b, "semaphore-new#%d" % ordinal(graph(b), c)), ok, c.where(),
               "the semaphore is created with capacity config.max_concurrent_calls" if ok else
               "the semaphore capacity is %s, not config.max_concurrent_calls" % show(n))
    for sb in bh.services:
        st = sb.types[sb.impl["self_ty"]]
        nsh = check_share(facts, tr, rep, "C01.SHARE", st["def"], only_fields=None)
        rep.floor("C01.share-fields", nsh, 1)
    # ---------------------------------------------------------------- NO-EXTRA-PERMITS
    bad = []
    for b in facts.crates[CRATE].bodies:
        for c in graph(b).calls():
            d = c.def_ or ""
            if (c.name in FORBIDDEN and ("emaphore" in d or "Permit" in d)) or d in ("core::mem::forget",) or "ManuallyDrop" in d:
                bad.append((b, c))
    control = 0
    for b in facts.crates.get("tower_resilience_adaptive").bodies if "tower_resilience_adaptive" in facts.crates else []:
        for c in graph(b).calls():
            if c.name == "add_permits" and "emaphore" in (c.def_ or ""):
                control += 1
    rep.ob("C01.NO-EXTRA-PERMITS", "%s|control" % CRATE, control >= 1, "-",
           "positive control: the matcher finds %d Semaphore::add_permits site(s) in the adaptive crate" % control)
    if not bad:
        rep.ob("C01.NO-EXTRA-PERMITS", "%s|scan" % CRATE, True, "-", "no add_permits / forget / close / mem::forget / ManuallyDrop in the bulkhead crate")
    for (b, c) in bad:
        rep.saw(b)
        rep.ob("C01.NO-EXTRA-PERMITS", skey(b, "%s#%d" % (c.name, ordinal(graph(b), c))), False, c.where(),
               "%s changes the number of outstanding permits outside the acquire/drop discipline: the bound no longer equals "
               "max_concurrent_calls" % c.path[:90])
    # ---------------------------------------------------------------- ADMIT
    for (sb, b, c) in bh.sites:
        rep.saw(b)
        g = graph(b)
        k = skey(b, "inner-call#%d" % ordinal(g, c))
        binds = bh.permit_bindings(b)
        blocks = [i for (i, _j, _l) in binds]
        r = g.reach([0], kinds=(N, U, D), avoid_nodes=blocks)
        ok = bool(blocks) and c.bb not in r
        rep.ob("C01.ADMIT", k, ok, c.where(),
               "the wrapped service is called only after an owned permit has been bound (%d binding site(s))" % len(binds) if ok else
               "the wrapped service's `call` is reachable without a permit being held: the request enters the inner service before "
               "(or without) admission")
        if not ok:
            continue
        # the permit comes from the shared semaphore
        for (a, kind, ac, acq) in bh.acquire_awaits(b):
            recv = peel(tr.expand(tr.operand(acq.g.b, acq.args[0], acq.loc)))
            def unclone(n_):
                n_ = peel(n_)
                hops = 0
                while n_[0] == "call" and tr.call_of(n_).def_ == CLONE and hops < 4:
                    cc = tr.call_of(n_)
                    n_ = peel(tr.expand(tr.operand(cc.g.b, cc.args[0], cc.loc), upvars=True))
                    hops += 1
                return n_
            src = unclone(recv)
            # the semaphore may sit in a private struct of shared handles that is itself a (cloned) field of the service
            root = src
            depth_ = 0
            while root[0] == "field" and depth_ < 3:
                root = unclone(root[1])
                depth_ += 1
            oks = src[0] == "field" and root[0] == "param" and _field_is_semaphore(facts, src)
            rep.ob("C01.ADMIT-SEM", skey(b, "acquire@%s" % kind), oks, acq.where(),
                   "permits are acquired from (a clone of) the service's shared semaphore" if oks else
                   "permits are acquired from %s, not the service's shared semaphore" % show(src))
        rep.floor("C01.acquire-awaits", len(bh.acquire_awaits(b)), 2)
        # ---------------------------------------------------------------- HELD
        inner_aw = [a for a in g.awaits() if a.fut_ty["s"].startswith("<S as tower_service::Service") and a.ready_bb is not None]
        if not inner_aw:
            # the inner future may be boxed/renamed: take the await whose awaitee derives from the inner call
            V = ("call", b.crate.name, b.def_, c.bb)
            inner_aw = [a for a in g.awaits() if a.ready_bb is not None and peel(tr.expand(tr.operand(b, a.awaitee, (a.into_bb, 0)))) == V]
        if not inner_aw:
            rep.ob("C01.HELD", k, False, c.where(), "the inner future is not awaited in the body that holds the permit")
            continue
        ia = inner_aw[0]
        normal = g.reach([0], kinds=(N,))
        pls = set(bh.permit_locals(b))
        ncons = 0
        for i in sorted(normal):
            t = g.term(i)
            cons = None
            if t["k"] == "drop" and not t["place"]["p"] and t["place"]["l"] in pls and g.maybe_init(t["place"]["l"], i):
                cons = "drop"
            elif t["k"] == "call":
                for a in t["args"]:
                    pl = a.get("move")
                    if pl is not None and not pl["p"] and pl["l"] in pls:
                        cons = Call(g, i, t).path[:60]
            if cons is None:
                continue
            ncons += 1
            ok2 = g.node_dominates(ia.ready_bb, i)
            rep.ob("C01.HELD", skey(b, "permit-consumed#%d" % (ncons - 1)), ok2, g.where(i),
                   "the permit is released (%s) only after the inner future completed" % cons if ok2 else
                   "the permit is given up (%s) on a path that has not seen the inner future complete: the slot is free while the inner "
                   "call is still running" % cons)
        rep.floor("C01.permit-consumption-sites", ncons, 1)
