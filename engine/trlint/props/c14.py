"""C14 — backoff delays are total, monotone and capped."""
from ..core import graph, Call, peel, leaves, show, N
from ..util import *

EXPLANATION = (
    "Monotonicity and the exact values initial*multiplier^attempt are numeric and are NOT decided. Decided over the "
    "call graph rooted at every IntervalFunction::next_interval implementation of the retry crate and at "
    "ReconnectPolicy::delay_for_attempt: (PANIC-FREE) no call of a panicking Duration/float conversion "
    "(mul_f64, from_secs_f64, div_f64, Duration arithmetic operators, unwrap/expect of a conversion) and no "
    "arithmetic-overflow assertion is reachable — the total try_* variants with a fallback are required; a random "
    "range must be an inclusive range of the form base-delta ..= base+delta (never empty); (CAST) the attempt "
    "number is never narrowed by a lossy `as` cast (a wrapped negative exponent breaks monotonicity and the cap "
    "from below); (SATURATE) when a float-to-Duration conversion fails the fallback is Duration::MAX or the "
    "configured cap on the positive side, never a smaller value (a necessary condition for monotone and "
    "capped-afterwards); (CAP) when max_interval is Some(m) the non-jittered result passes through min(_, m); "
    "(ATTEMPT) the reconnect service passes its own attempt counter to these functions."
    " (PRECISION) no whole-unit as_*/from_* conversion in the backoff computation; (CAP-ORIGIN) the ReconnectPolicy constructors hand the caller's initial interval and cap to the backoff unchanged."
    ' (SATURATE, match form) on the failure edge of the float conversion every value other than Duration::MAX lies behind the false edge of the sign test.')
RULE = "one obligation per reachable call/assert/cast in the backoff call graph, per conversion fallback, per cap site"
TRUSTED = ["std Duration::try_from_secs_f64 / f64::powi are total", "rand::Rng::random_range on a non-empty inclusive range"]
ASSUMPTIONS = ["randomization factor is clamped to [0,1] at construction (checked: C14.FACTOR)"]
CONFIG_CRATES = ["tower_resilience_retry", "tower_resilience_reconnect"]
TECHNIQUE = "static analysis of built MIR: panic-freedom over the call graph (panic table + discharged idioms), lossy-cast taint of the attempt parameter, value-flow of conversion fallbacks"

INTERVAL_TRAIT = "tower_resilience_retry::backoff::IntervalFunction"
PANICKY = {
    "core::time::Duration::mul_f64": "panics when the product does not fit in a Duration",
    "core::time::Duration::mul_f32": "panics when the product does not fit in a Duration",
    "core::time::Duration::div_f64": "panics on overflow / division by zero",
    "core::time::Duration::div_f32": "panics on overflow / division by zero",
    "core::time::Duration::from_secs_f64": "panics on negative, NaN or too large values",
    "core::time::Duration::from_secs_f32": "panics on negative, NaN or too large values",
    "core::ops::arith::Mul::mul": "Duration * n panics on overflow",
    "core::ops::arith::Add::add": "Duration + Duration panics on overflow",
    "core::ops::arith::Sub::sub": "Duration - Duration panics on underflow",
    "core::ops::arith::Div::div": "division panics on zero",
}


def run(facts, tr, rep):
    _n_ops = check_no_panicking_time_arith(facts, tr, rep, "C14.NO-PANIC-ARITH", facts.crates["tower_resilience_retry"].bodies)
    rep.note("panicking Instant/Duration operators examined in the crate: %d" % _n_ops)
    roots = []
    for c in facts.crates.values():
        for im in c.impls:
            if im.get("trait") == INTERVAL_TRAIT:
                for it in im["items"]:
                    b = facts.bodies.get(it["def"])
                    if b is not None and it["name"] == "next_interval":
                        roots.append(b)
    dfa = [b for b in facts.all_bodies() if b.def_ == "tower_resilience_reconnect::policy::ReconnectPolicy::delay_for_attempt"]
    if not dfa:
        rep.anchor_missing("ReconnectPolicy::delay_for_attempt")
    roots += dfa
    rep.floor("C14.roots", len(roots), 5)
    # ------------------------------------------------------------ call graph
    seen = {}
    work = list(roots)
    while work:
        b = work.pop()
        if b.def_ in seen:
            continue
        seen[b.def_] = b
        g = graph(b)
        for c in g.calls():
            for d in c.targets_def():
                b2 = facts.bodies.get(d)
                if b2 is not None and b2.def_ not in seen and b2.crate.name.startswith("tower_resilience"):
                    work.append(b2)
            # closures passed to combinators
            for a in c.args:
                for lf in leaves(tr.operand(b, a, c.loc)):
                    lf = peel(lf)
                    if lf[0] == "agg":
                        b3, rv = tr.agg_of(lf)
                        if rv["ak"] == "closure":
                            cb = [x for x in facts.crates[b3.crate.name].bodies if x.def_ == rv["def"]]
                            work += cb
    rep.note("backoff call graph: %s" % sorted(x.split("::")[-1] if not x.startswith("<") else x[:70] for x in seen))
    nsite = 0
    for b in seen.values():
        rep.saw(b)
        g = graph(b)
        attempt_params = _attempt_params(b)
        for i in range(g.n):
            if b.blocks[i].get("cleanup"):
                continue
            t = g.term(i)
            if t["k"] == "assert":
                nsite += 1
                rep.ob("C14.PANIC-FREE", skey(b, "assert@%s#%d" % (t["msg"], _nth(b, i, "assert"))), False, g.where(i),
                       "arithmetic assertion (%s) is reachable in the backoff computation: it panics on overflow" % t["msg"])
            if t["k"] != "call":
                continue
            c = Call(g, i, t)
            if c.fn is None:
                continue
            d = c.def_
            if c.exp and c.exp.startswith("macro:") and ("format" in c.exp or "write" in c.exp):
                continue
            if d in PANICKY:
                # arithmetic operator traits only matter on Durations
                if d.startswith("core::ops::arith") and "Duration" not in (c.path or ""):
                    continue
                nsite += 1
                rep.ob("C14.PANIC-FREE", skey(b, "%s#%d" % (c.name, ordinal(g, c))), False, c.where(),
                       "%s: %s" % (c.path[:80], PANICKY[d]))
            elif c.name in ("unwrap", "expect") and ("Result" in (c.path or "") or "Option" in (c.path or "")):
                nsite += 1
                src = peel(tr.expand(tr.operand(b, c.args[0], c.loc)))
                rep.ob("C14.PANIC-FREE", skey(b, "%s#%d" % (c.name, ordinal(g, c))), False, c.where(),
                       "%s on %s can panic" % (c.name, show(src)))
            elif c.name == "random_range":
                nsite += 1
                rng_ty = c.path or ""
                incl = "RangeInclusive" in rng_ty
                shape = _range_shape(tr, b, c)
                rep.ob("C14.PANIC-FREE", skey(b, "random_range#%d" % ordinal(g, c)), incl and shape, c.where(),
                       "random_range samples the inclusive range base-delta ..= base+delta (never empty)" if incl and shape else
                       "random_range is called with %s: an empty or inverted range panics"
                       % ("a half-open range (empty when the jitter window is a single point)" if not incl else "bounds not of the form base-delta ..= base+delta"))
            elif c.name in ("try_from_secs_f64", "try_from_secs_f32"):
                nsite += 1
                rep.ob("C14.PANIC-FREE", skey(b, "%s#%d" % (c.name, ordinal(g, c))), True, c.where(),
                       "total conversion %s" % c.name)
                _check_fallback(tr, rep, b, g, c)
            elif c.name in ("as_millis", "as_secs", "as_micros", "subsec_millis", "subsec_micros", "from_millis", "from_secs", "from_micros", "as_secs_f32") \
                    and "Duration" in (c.path or ""):
                # whole-unit conversions truncate: an interval below the unit collapses to zero and never grows
                argc = [peel(tr.expand(tr.operand(b, a, c.loc))) for a in c.args]
                if not all(a[0] == "const" for a in argc):
                    nsite += 1
                    rep.ob("C14.PRECISION", skey(b, "%s#%d" % (c.name, ordinal(g, c))), False, c.where(),
                           "%s truncates to whole units inside the backoff computation: an initial interval below the unit becomes zero for "
                           "every attempt (never grows, never reaches the cap) and fractional intervals are rounded down before scaling — "
                           "the delay is no longer initial x multiplier^attempt" % c.name)
            elif c.name == "clamp" and "f64" in (c.path or ""):
                nsite += 1
                lo = peel(tr.operand(b, c.args[1], c.loc))
                hi = peel(tr.operand(b, c.args[2], c.loc))
                ok = lo[0] == "const" and hi[0] == "const"
                rep.ob("C14.PANIC-FREE", skey(b, "clamp#%d" % ordinal(g, c)), ok, c.where(), "f64::clamp with constant ordered bounds" if ok else "f64::clamp with non-constant bounds can panic (min > max or NaN)")
        # lossy casts of the attempt number
        for i, blk in enumerate(b.blocks):
            for j, s in enumerate(blk["stmts"]):
                if s["k"] == "assign" and s["rv"]["k"] == "cast" and s["rv"]["ck"] == "IntToInt":
                    src = peel(tr.expand(tr.operand(b, s["rv"]["op"], (i, j)), upvars=True))
                    dst = b.ty(s["rv"]["ty"])["s"]
                    sty = _operand_ty(b, s["rv"]["op"])
                    if _tainted_by_attempt(tr, src, attempt_params) and _narrower(sty, dst):
                        nsite += 1
                        rep.ob("C14.CAST", skey(b, "cast#%d" % _nth(b, i, "cast")), False, g.where(i, j),
                               "the attempt number is narrowed with `as %s` (from %s): large attempt numbers wrap, e.g. to a negative exponent" % (dst, sty))
    rep.floor("C14.sites", nsite, 3)
    # ------------------------------------------------------------ CAP-ORIGIN: constructors hand the caller's bounds to the backoff unchanged
    ncapo = 0
    for b in facts.crates["tower_resilience_reconnect"].bodies:
        if b.kind != "fn" or b.j.get("vis") != "pub":
            continue
        for c in graph(b).calls():
            if c.name in ("max_interval", "multiplier", "new") and any(d.startswith("tower_resilience_retry::backoff") for d in c.targets_def() or [c.def_ or ""]):
                for ai, a in enumerate(c.args):
                    v = tr.expand(tr.operand(b, a, c.loc))
                    lfs = [peel(x) for x in leaves(v)]
                    if all(x[0] in ("const", "fnconst") for x in lfs):
                        continue
                    if all(x[0] == "call" and any(d.startswith("tower_resilience_retry::backoff") for d in (tr.call_of(x).targets_def() or [tr.call_of(x).def_ or ""])) for x in lfs):
                        continue       # the builder receiver (result of the previous call of the chain)
                    ncapo += 1
                    ok = all(x[0] in ("param", "const") for x in lfs)
                    rep.ob("C14.CAP-ORIGIN", skey(b, "%s#%d.arg%d" % (c.name, ordinal(graph(b), c), ai)), ok, c.where(),
                           "the caller's value is handed to %s unchanged" % c.name if ok else
                           "the value handed to %s is %s, not the caller's parameter: the policy's delays no longer follow the configured "
                           "initial interval / cap (e.g. never above max_interval)" % (c.name, show(lfs[0])[:70]))
    rep.floor("C14.cap-origin-args", ncapo, 3)
    # ------------------------------------------------------------ CAP
    ncap = 0
    tr_keep = tr
    for b in seen.values():
        # judged on the function's inlined body: `max.map_or(interval, |m| interval.min(m))` is the match it stands for
        b = facts.inl.bodies.get(b.def_) or b
        tr = tr_keep.inl
        g = graph(b)
        for i in range(g.n):
            sw = g.switch(i)
            if sw is None or sw.kind != "enum" or "Some" not in sw.variants:
                continue
            node = peel(tr.place(b, sw.place, sw.defloc))
            is_max = (node[0] == "field" and "max" in str(node[2])) or (node[0] == "param" and "max" in (b.local_name(node[3]) or ""))
            if not is_max:
                continue
            ncap += 1
            some_bb = sw.variants["Some"]
            # every return reachable from the Some edge is min(_, payload)
            ok = True
            any_ret = False
            for (ri, rj, rnode) in ret_assigns(tr, b):
                if ri not in g.reach([some_bb], kinds=(N,)) or ri in g.reach([sw.variants.get("None", -2)], kinds=(N,)) and not g.edge_dominates((i, some_bb), ri):
                    continue
                if not g.edge_dominates((i, some_bb), ri):
                    continue
                any_ret = True
                for lf in leaves(rnode):
                    lf = peel(lf)
                    good = lf[0] == "call" and tr.call_of(lf).def_ in ("core::cmp::Ord::min", "core::cmp::min")
                    if good:
                        cc = tr.call_of(lf)
                        cap = [peel(tr.expand(tr.operand(cc.g.b, a, cc.loc))) for a in cc.args]
                        good = any(derives(tr, x, node, variants=("Some",)) for x in cap)
                    elif lf[0] == "call" and tr.call_of(lf).def_ == "core::cmp::Ord::clamp" and len(tr.call_of(lf).args) == 3:
                        # `x.clamp(ZERO, m)` is `x.min(m)` for a Duration (and cannot panic: ZERO <= m); any other lower
                        # bound can exceed m, and clamp panics then
                        cc = tr.call_of(lf)
                        lo, hi = [peel(tr.expand(tr.operand(cc.g.b, a, cc.loc))) for a in cc.args[1:]]
                        good = lo[0] == "const" and (lo[2] or "").endswith("Duration::ZERO") and derives(tr, hi, node, variants=("Some",))
                    ok = ok and good
            # the jittered function applies the cap before randomising: accept when the capped value flows on
            if not any_ret:
                def _zero_lo(c_):
                    lo_ = peel(tr.expand(tr.operand(c_.g.b, c_.args[1], c_.loc))) if len(c_.args) == 3 else ("?",)
                    return lo_[0] == "const" and (lo_[2] or "").endswith("Duration::ZERO")
                mins = [c for c in g.calls() if (c.def_ in ("core::cmp::Ord::min", "core::cmp::min") or (c.def_ == "core::cmp::Ord::clamp" and _zero_lo(c)))
                        and g.edge_dominates((i, some_bb), c.bb)]
                ok = bool(mins)
            rep.ob("C14.CAP", skey(b, "cap#%d" % (ncap - 1)), ok, g.where(i),
                   "with max_interval = Some(m) the delay passes through min(_, m)" if ok else
                   "with max_interval = Some(m) a delay can be returned without min(_, m)")
    tr = tr_keep
    rep.floor("C14.cap-sites", ncap, 1)
    # ------------------------------------------------------------ FACTOR clamp at construction
    nf = 0
    for b in facts.crates["tower_resilience_retry"].bodies:
        for i, blk in enumerate(b.blocks):
            for j, s in enumerate(blk["stmts"]):
                if s["k"] == "assign" and s["rv"]["k"] == "agg" and s["rv"]["ak"] == "adt" and "randomization_factor" in s["rv"].get("fields", []):
                    if b.name in ("clone",):
                        continue
                    rv = s["rv"]
                    v = peel(tr.expand(tr.operand(b, rv["ops"][rv["fields"].index("randomization_factor")], (i, j))))
                    if v[0] == "field" and v[2] == "randomization_factor":
                        continue      # builder-style copy of self
                    nf += 1
                    ok = v[0] == "call" and tr.call_of(v).name == "clamp"
                    rep.ob("C14.FACTOR", skey(b, "factor-init"), ok, graph(b).where(i, j),
                           "randomization_factor is clamped when the backoff is constructed" if ok else "randomization_factor stored unclamped (%s)" % show(v))
    ws = field_writes(facts, "tower_resilience_retry::backoff::ExponentialRandomBackoff", "randomization_factor")
    rep.ob("C14.FACTOR", "tower_resilience_retry|randomization_factor-writers", not ws, "-",
           "randomization_factor is never assigned after construction" if not ws else "randomization_factor assigned in %s" % [w[0].def_ for w in ws])
    # ------------------------------------------------------------ ATTEMPT origin in reconnect
    from .c16 import _discover_counter, reconnect_view
    facts, tr = reconnect_view(facts)          # the reconnect future with its private bookkeeping helpers inlined (as in C16)
    for d in dfa:
        for cs in tr.callers(d.def_):
            b = cs.g.b
            if not b.crate.name.startswith("tower_resilience_reconnect"):
                continue
            rep.saw(b)
            polls = [x for x in facts.crates[b.crate.name].bodies if x.name == "poll" and x.impl and x.impl.get("trait") == "core::future::future::Future"]
            cnts = {_discover_counter(tr, x) for x in polls} - {None}
            a = peel(tr.expand(tr.operand(b, cs.args[1], cs.loc), upvars=True, params=True))
            ok = bool(cnts) and all(any(x[0] == "field" and x[2] in cnts for x in tr.walk(lf, limit=40)) for lf in leaves(a))
            rep.ob("C14.ATTEMPT", skey(b, "delay_for_attempt-arg"), ok, cs.where(),
                   "reconnect passes its attempt counter (%s) to the policy" % show(a) if ok else "delay_for_attempt receives %s" % show(a))


def _nth(b, bb, kind):
    return sum(1 for i in range(bb) if (kind == "assert" and b.blocks[i]["term"]["k"] == "assert") or
               (kind == "cast" and any(s["k"] == "assign" and s["rv"]["k"] == "cast" and s["rv"]["ck"] == "IntToInt" for s in b.blocks[i]["stmts"])))


def _attempt_params(b):
    return [l for l in range(1, b.arg_count + 1) if "attempt" in (b.local_name(l) or "")]


def _tainted_by_attempt(tr, node, params):
    for x in tr.walk(node, limit=60):
        if x[0] == "param" and ("attempt" in (tr._body(x[1], x[2]).local_name(x[3]) or "")):
            return True
        if x[0] == "field" and "attempt" in str(x[2]):
            return True
    return False


def _operand_ty(b, op):
    pl = op.get("copy") or op.get("move")
    if pl is None:
        return "?"
    if not pl["p"]:
        return b.local_ty(pl["l"])["s"]
    last = pl["p"][-1]
    return b.ty(last["t"])["s"] if isinstance(last, dict) and "t" in last else "?"


def _narrower(src, dst):
    bits = {"u8": 8, "i8": 7, "u16": 16, "i16": 15, "u32": 32, "i32": 31, "u64": 64, "i64": 63, "usize": 64, "isize": 63, "u128": 128, "i128": 127}
    return bits.get(dst, 999) < bits.get(src, 0)


def _range_shape(tr, b, c):
    """random_range(base - d ..= base + d)"""
    r = peel(tr.expand(tr.operand(b, c.args[1], c.loc)))
    if r[0] != "call":
        return False
    rc = tr.call_of(r)
    if not (rc.name == "new" and "RangeInclusive" in (rc.path or "")):
        return False
    lo = peel(tr.expand(tr.operand(rc.g.b, rc.args[0], rc.loc)))
    hi = peel(tr.expand(tr.operand(rc.g.b, rc.args[1], rc.loc)))
    if lo[0] != "binop" or hi[0] != "binop" or lo[1] != "Sub" or hi[1] != "Add":
        return False
    return _same_value(tr, lo[2], hi[2]) and _same_value(tr, lo[3], hi[3])


def _same_value(tr, a, b):
    a, b = peel(a), peel(b)
    if a == b:
        return True
    if a[0] == "call" and b[0] == "call":
        ca, cb = tr.call_of(a), tr.call_of(b)
        if ca.def_ == cb.def_ and len(ca.args) == len(cb.args):
            return all(_same_value(tr, tr.expand(tr.operand(ca.g.b, x, ca.loc)), tr.expand(tr.operand(cb.g.b, y, cb.loc)))
                       for x, y in zip(ca.args, cb.args))
    if a[0] == "binop" and b[0] == "binop" and a[1] == b[1]:
        return _same_value(tr, a[2], b[2]) and _same_value(tr, a[3], b[3])
    return False


def _check_fallback_match(tr, rep, b, g, c, V):
    """the conversion result is matched (`match Duration::try_from_secs_f64(x) { Ok(d) => d, Err(_) if x > 0.0 => MAX,
    Err(_) => initial }`): on the failure edge every value other than Duration::MAX is produced only behind the false edge
    of the sign test `x > 0` of the converted number — for a positive x (a huge product, +inf) the delay saturates"""
    n = 0
    x = peel(tr.expand(tr.operand(b, c.args[0], c.loc))) if c.args else None
    for bb in range(g.n):
        sw = g.switch(bb)
        if sw is None or sw.kind != "enum" or "Err" not in sw.variants or "Ok" not in sw.variants:
            continue
        if peel(tr.expand(tr.place(b, sw.place, sw.defloc))) != V:
            continue
        n += 1
        # the result of the match: the Duration local written on both sides
        r_ok, r_err = g.reach([sw.variants["Ok"]], kinds=(N,)), g.reach([sw.variants["Err"]], kinds=(N,))

        def written(tgt):
            out = set()
            mine = (r_ok - r_err) if tgt == sw.variants["Ok"] else (r_err - r_ok)        # the arm itself, before the two sides join
            for y in mine:
                for s_ in g.stmts(y):
                    if s_["k"] == "assign" and not s_["lhs"]["p"] and "Duration" in b.local_ty(s_["lhs"]["l"])["s"] and "Result" not in b.local_ty(s_["lhs"]["l"])["s"]:
                        out.add(s_["lhs"]["l"])
            return out
        both = written(sw.variants["Ok"]) & written(sw.variants["Err"])
        only_err = {l_ for l_ in both}
        res = both or None
        sign_false = []
        for b2 in range(g.n):
            s2 = g.switch(b2)
            if s2 is None or s2.kind != "bool":
                continue
            cnd = peel(tr.expand(tr.operand(b, s2.cond, (b2, len(g.stmts(b2))))))
            neg = False
            while cnd[0] == "unop" and cnd[1] == "Not":
                cnd, neg = peel(cnd[2]), not neg
            if cnd[0] == "call" and tr.call_of(cnd).name == "is_nan" and tr.call_of(cnd).args:
                cc_ = tr.call_of(cnd)
                if x is None or peel(tr.expand(tr.operand(cc_.g.b, cc_.args[0], cc_.loc))) == x:
                    sign_false.append((b2, s2.variants["false" if neg else "true"]))      # a NaN is not positive
                    continue
            cm = normalise_cmp(tr, peel(tr.expand(tr.operand(b, s2.cond, (b2, len(g.stmts(b2)))))))
            if cm and cm[0] in ("Gt", "Ge") and peel(cm[2])[0] == "const" and (x is None or peel(cm[1]) == x):
                sign_false.append((b2, s2.variants["false"]))
            elif cm and cm[0] in ("Lt", "Le") and peel(cm[1])[0] == "const" and (x is None or peel(cm[2]) == x):
                sign_false.append((b2, s2.variants["false"]))        # `0.0 < x`
        r_ = g.reach([sw.variants["Err"]], kinds=(N,), avoid_edges=sign_false) - r_ok
        bad = []
        if res is not None:
            for y in r_:
                for j_, s_ in enumerate(g.stmts(y)):
                    if s_["k"] == "assign" and s_["lhs"]["l"] in res and not s_["lhs"]["p"]:
                        v = peel(tr.stmt_value(b, y, j_))
                        if not (v[0] == "const" and (v[2] or "").endswith("Duration::MAX")):
                            bad.append((y, j_, v))
        ok = res is not None and bool(sign_false) and not bad
        rep.ob("C14.SATURATE", skey(b, "fallback-match#%d" % (n - 1)), ok, g.where(bb),
               "a failed float-to-Duration conversion saturates (Duration::MAX unless the number is not positive)" if ok else
               "a failed float-to-Duration conversion of a positive number can fall back to %s: once the product overflows (or is "
               "infinite) the delay drops below earlier delays (not monotone, not capped-afterwards)"
               % (show(bad[0][2])[:50] if bad else "a value that is not Duration::MAX"))
    return n


def _check_fallback(tr, rep, b, g, c):
    """uses of the conversion result: unwrap_or(fallback) must saturate"""
    V = ("call", b.crate.name, b.def_, c.bb)
    _check_fallback_match(tr, rep, b, g, c, V)
    for u in g.calls():
        if u.name in ("unwrap_or", "unwrap_or_else", "unwrap_or_default", "unwrap", "expect") and u.args:
            src = peel(tr.expand(tr.operand(b, u.args[0], u.loc)))
            if src != V:
                continue
            if u.name in ("unwrap", "expect"):
                continue   # reported by PANIC-FREE
            if u.name != "unwrap_or":
                rep.ob("C14.SATURATE", skey(b, "fallback#%d" % ordinal(g, u)), False, u.where(),
                       "conversion failure handled by %s: the fallback is not provably Duration::MAX / the cap" % u.name)
                continue
            fb = tr.expand(tr.operand(b, u.args[1], u.loc))
            lv = [peel(x) for x in leaves(fb)]
            has_max = any(x[0] == "const" and (x[2] or "").endswith("Duration::MAX") for x in lv) or \
                any(x[0] in ("field", "param") and "max" in str(x[2] if x[0] == "field" else "") for x in lv)
            only_max = all((x[0] == "const" and (x[2] or "").endswith("Duration::MAX")) for x in lv)
            ok = only_max
            if has_max and not only_max:
                # MAX must be the value on the positive side of a sign test of the converted seconds
                ok = False
                for bb in range(g.n):
                    sw = g.switch(bb)
                    if sw is None or sw.kind != "bool":
                        continue
                    cmpn = normalise_cmp(tr, peel(tr.expand(tr.operand(b, sw.cond, (bb, len(g.stmts(bb)))))))
                    if cmpn and cmpn[0] in ("Gt", "Ge") and cmpn[2][0] == "const":
                        # value assigned on the true edge is MAX
                        tb = sw.variants["true"]
                        for s in g.stmts(g.follow(tb)):
                            if s["k"] == "assign" and s["rv"]["k"] == "use" and "const" in s["rv"]["op"] and (s["rv"]["op"]["const"].get("uneval") or "").endswith("Duration::MAX"):
                                ok = True
            rep.ob("C14.SATURATE", skey(b, "fallback#%d" % ordinal(g, u)), ok, u.where(),
                   "a failed float-to-Duration conversion saturates (Duration::MAX on the positive side)" if ok else
                   "a failed float-to-Duration conversion falls back to %s: once the product overflows the delay drops "
                   "below earlier delays (not monotone, not capped-afterwards)" % " | ".join(show(x) for x in lv))
