"""C04 — circuit breaker trips and recovers exactly as its documented state machine."""
from ..core import graph, Call, peel, leaves, show, N
from ..util import *
from ..atomic import atomic_method
from .cb_common import cb_view, CB, CRATE, STATE_ENUM, check_no_evict_in_half_open, check_window_dispatch, check_stats_partition, check_slide_symmetry

EXPLANATION = (
    "History equivalence with the documented machine (window arithmetic, rates vs thresholds) is numeric and is "
    "NOT decided. Decided structural clauses: (VIEWS) the state field and its lock-free atomic mirror are written "
    "only together, in the one transition function, from the same parameter, with no exit in between; the "
    "decoder from_u8 agrees with the enum's discriminants; the Arc<AtomicU8> given to the circuit is a clone of "
    "the one the service reads; the metrics snapshot copies the state field. (TABLE) the set of transition call "
    "sites — (entry function, state arm, target, guard) — equals the documented edges: Open->HalfOpen under "
    "elapsed>=wait in the admission function; HalfOpen->Closed under successes >= permitted_calls_in_half_open "
    "on success; HalfOpen->Open on any failure; ->Open from the window evaluation under the threshold test "
    "(reached from the non-HalfOpen arms of both recorders); force_open/force_closed/reset. (RESET) every path "
    "through reset leaves all window counters zero and all window containers empty. (SLIDE) the count-based "
    "recording path contains a reachable evicting write (decrement of the aggregates / removal from the bounded "
    "container) that does not depend on a state transition — a necessary condition for 'the last N calls'."
    ' (HALF-OPEN-COUNT) the counter the closing decision reads is decremented only while closed; (WINDOW-DISPATCH) both recorders file outcomes on the arm of config.sliding_window_type the readers use.'
    ' (SLIDE-SYMMETRY) in the function that pushes the new outcome and pops the old one every counter is incremented under the same flags of the recorded outcome as it is decremented under of the evicted one.')
RULE = "one obligation per state/atomic write site, per decoder arm, per transition call site (table row), per window field in reset, per recorder (slide)"
TRUSTED = ["std atomics", "rustc MIR construction", "tokio::sync::Mutex"]
ASSUMPTIONS = ["entry functions of the circuit (record_success, record_failure, try_acquire, force_*, reset) keep their names"]
CONFIG_CRATES = ["tower_resilience_circuitbreaker"]
TECHNIQUE = "static analysis of built MIR: who-writes, table agreement (enum discriminants vs decoder), transition-table extraction with guard normal form, all-paths field clearing"

EXPECTED = {
    # (caller fn name, arm or '*', target)
    ("try_acquire", "Open", "HalfOpen"),
    ("record_success", "HalfOpen", "Closed"),
    ("record_failure", "HalfOpen", "Open"),
    ("evaluate", "*", "Open"),
    ("force_open", "*", "Open"),
    ("force_closed", "*", "Closed"),
    ("reset", "*", "Closed"),
}


def run(facts, tr, rep):
    # service-level rules on the shallow view (free helpers, async helpers and glue methods inlined; the circuit's own
    # methods stay calls and are found by role); clauses about one circuit method use its fully inlined body
    facts0, tr0 = facts, tr
    facts, tr = facts.shallow, tr.shallow
    cb, facts, tr = cb_view(facts0, tr0, rep)
    if not cb.ok or cb.transition is None:
        rep.ob("C04.VIEWS", "%s|state-writers" % CRATE, False, "-",
               "state field is not written by exactly one function (writers: %s)" % sorted({w[0].def_ for w in getattr(cb, 'state_writes', [])}))
        if not cb.ok:
            return
    T = cb.transition
    crate = facts.crates[CRATE]
    # ------------------------------------------------------------ VIEWS
    if T is not None:
        rep.saw(T)
        g = graph(T)
        sw_writes = [(i, j, s) for (b, i, j, s) in cb.state_writes if b is T]
        stores = [c for c in g.calls() if atomic_method(c) == "store" and "Atomic::<u8>" in (c.def_ or "")]
        all_stores = []
        for b in facts.crates[CRATE].bodies:
            if facts.absorbed(b):
                continue        # a helper of the transition function inlined into it is represented by its copy
            for c in graph(b).calls():
                if atomic_method(c) == "store" and "Atomic::<u8>" in (c.def_ or ""):
                    all_stores.append((b, c))
        rep.ob("C04.VIEWS", "%s|atomic-store-sites" % CRATE, bool(all_stores) and all(b is T for (b, _c) in all_stores),
               all_stores[0][1].where() if all_stores else "-",
               "the atomic state mirror is stored only in the transition function (%d site(s))" % len(all_stores)
               if all_stores and all(b is T for (b, _c) in all_stores) else
               "atomic state mirror stored in %s" % sorted({b.def_ for (b, _c) in all_stores}) if all_stores else "atomic state mirror is never stored")
        for (i, j, s) in sw_writes:
            val = peel(tr.operand(T, s["rv"]["op"], (i, j))) if s["rv"]["k"] == "use" else ("rv",)
            is_param = val[0] == "param" and val[3] == 2
            paired = False
            for c in stores:
                sval = peel(tr.operand(T, c.args[1], c.loc))
                while sval[0] in ("cast", "discr"):
                    sval = peel(sval[2] if sval[0] == "cast" else sval[1])
                same = (sval == val) or (sval[0] == "param" and sval[3] == 2)
                # no exit between the write and the store: every path from the write to return passes the store
                r = g.reach([i], kinds=(N,), avoid_nodes=[c.bb])
                no_exit = not any(g.term(x)["k"] == "return" for x in r) or i == c.bb
                before = g.reach([c.bb], kinds=(N,))
                if same and (no_exit or i in before):
                    # store may precede or follow, but both on every path through either
                    paired = True
            rep.ob("C04.VIEWS", skey(T, "state-write"), is_param and paired, g.where(i, j),
                   "state field and atomic mirror are written together from the target parameter" if is_param and paired else
                   "state write %s" % ("is not the transition target parameter" if not is_param else "is not accompanied by the atomic store on every path"))
        rep.floor("C04.state-writes", len(sw_writes), 1)
    # decoder agrees with discriminants
    # (found by signature: the crate's fn(u8) -> CircuitState)
    dec = None
    for b0 in facts.crates[CRATE].bodies:
        if b0.kind == "fn" and b0.arg_count == 1 and b0.local_ty(0).get("def") == STATE_ENUM and b0.local_ty(1)["s"] == "u8":
            dec = b0
    adt = facts.adt(STATE_ENUM)
    if dec is None or adt is None:
        rep.anchor_missing("decoder fn(u8) -> CircuitState")
    else:
        rep.saw(dec)
        g = graph(dec)
        discr = {v["name"]: v["discr"] for v in adt["variants"]}
        nrows = 0
        for bb in range(g.n):
            t = g.term(bb)
            if t["k"] != "switch":
                continue
            cond = peel(tr.operand(dec, t["discr"], (bb, len(g.stmts(bb)))))
            if not (cond[0] == "param" and cond[3] == 1):
                continue
            for val, tgt in t["targets"]:
                # the variant built on that edge
                vs = set()
                for x in g.reach([tgt], kinds=(N,), stop=lambda y: any(s["k"] == "assign" and s["lhs"]["l"] == 0 for s in g.stmts(y))):
                    for s in g.stmts(x):
                        if s["k"] == "assign" and s["lhs"]["l"] == 0 and s["rv"]["k"] == "agg":
                            vs.add(s["rv"]["variant"])
                nrows += 1
                ok = len(vs) == 1 and discr.get(next(iter(vs))) == val
                rep.ob("C04.TABLE-AGREE", "%s|from_u8|%s" % (CRATE, val), ok, g.where(bb),
                       "from_u8(%s) = %s, whose discriminant is %s" % (val, sorted(vs), [discr.get(v) for v in vs]))
        rep.floor("C04.decoder-rows", nrows, 3)
        # every variant's discriminant is decoded
        # (the writer casts the enum to u8, the reader decodes with from_u8)
    # the Arc<AtomicU8> handed to the circuit is a clone of the one kept by the service
    # (discovered by type: the call that builds the circuit from an Arc<AtomicU8>, and the service field of that type)
    ctor = None
    from ..inline import view_of
    facts_s, tr_s = facts, tr
    facts, tr = view_of(facts, "orig")          # constructors are judged on the program as written
    for b in facts.crates[CRATE].bodies:
        if b.kind != "fn" or b.def_.split("::")[-1] == "default":
            continue
        for c in graph(b).calls():
            tg = [facts.bodies.get(d) for d in c.targets_def()]
            for t in tg:
                if t is None or t.crate.name != CRATE or t.local_ty(0).get("def") != cb.circuit_adt or t.arg_count < 1:
                    continue
                if "Atomic<u8>" in t.local_ty(1)["s"]:
                    ctor = (b, c)
    if ctor is None:
        rep.anchor_missing("call of the circuit constructor taking the shared Arc<AtomicU8> (service constructor)")
    else:
        b, c = ctor
        rep.saw(b)
        arg = peel(tr.expand(tr.operand(b, c.args[0], c.loc)))
        src = None
        if arg[0] == "call" and tr.call_of(arg).def_ == CLONE:
            cc = tr.call_of(arg)
            src = peel(tr.expand(tr.operand(cc.g.b, cc.args[0], cc.loc)))
        # the service aggregate's Arc<AtomicU8> operand
        same = False
        for i, blk in enumerate(b.blocks):
            for j, s in enumerate(blk["stmts"]):
                if s["k"] == "assign" and s["rv"]["k"] == "agg" and s["rv"]["ak"] == "adt":
                    adt_ = facts.adt(s["rv"].get("def"))
                    if adt_ is None:
                        continue
                    for fi, fname in enumerate(s["rv"].get("fields", [])):
                        fdef = next((f for f in adt_["variants"][0]["fields"] if f["name"] == fname), None)
                        if fdef is None or "Atomic<u8>" not in b.crate.types[fdef["ty"]]["s"]:
                            continue
                        o = peel(tr.expand(tr.operand(b, s["rv"]["ops"][fi], (i, j))))
                        if src is not None and o == src:
                            same = True
        rep.ob("C04.VIEWS", skey(b, "mirror-shared"), same, c.where(),
               "the atomic handed to the circuit is a clone of the Arc the service reads in state_sync()" if same else
               "the atomic handed to the circuit is not the one stored in the service")
    facts, tr = facts_s, tr_s
    # metrics snapshot copies the state field
    met = facts.bodies.get(cb.circuit_adt + "::metrics")
    if met is not None:
        rep.saw(met)
        ok = False
        for i, blk in enumerate(met.blocks):
            for j, s in enumerate(blk["stmts"]):
                if s["k"] == "assign" and s["rv"]["k"] == "agg" and s["rv"]["ak"] == "adt" and "state" in s["rv"].get("fields", []):
                    o = peel(tr.operand(met, s["rv"]["ops"][s["rv"]["fields"].index("state")], (i, j)))
                    ok = o[0] == "field" and o[2] == cb.state_field
        rep.ob("C04.VIEWS", skey(met, "snapshot-state"), ok, "%s:%d" % (met.span["file"], met.span["line"]),
               "metrics snapshot reports the state field itself")
    # ------------------------------------------------------------ TABLE
    rows = set()
    for (b, cs, tgt) in cb.transition_calls():
        rep.saw(b)
        name = cb.role(b)
        arm, arm_edge = cb.arm_of(b, cs.bb)
        rows.add((name, arm, tgt))
        g = graph(b)
        k = skey(b, "transition->%s@%s" % (tgt, arm))
        ok = (name, arm, tgt) in EXPECTED
        detail = "transition %s[%s] -> %s is a documented edge" % (name, arm, tgt)
        # guards
        edges = dominating_edges(tr, b, cs.bb)
        if (name, arm, tgt) == ("record_success", "HalfOpen", "Closed"):
            gd = False
            for e in edges:
                c = cmp_on_edge(tr, e) if e["kind"] == "bool" else None
                if c and c[0] == "Ge" and mentions_field(tr, c[2], "permitted_calls_in_half_open"):
                    gd = True
                if c and c[0] == "Le" and mentions_field(tr, c[1], "permitted_calls_in_half_open"):
                    gd = True
            ok = ok and gd
            detail += "; guarded by successes >= permitted_calls_in_half_open" if gd else "; NOT guarded by successes >= permitted_calls_in_half_open"
        elif (name, arm, tgt) == ("record_failure", "HalfOpen", "Open"):
            # unguarded inside the arm: no bool edge between the arm entry and the call
            inner = cb.inner_guards(b, cs.bb, arm_edge)
            ok = ok and not inner
            detail += "; unconditional inside the arm" if not inner else "; but it is guarded by an extra condition (a failure in half-open must always re-open)"
        elif (name, arm, tgt) == ("try_acquire", "Open", "HalfOpen"):
            gd = False
            for e in edges:
                c = cmp_on_edge(tr, e) if e["kind"] == "bool" else None
                if c and c[0] in ("Ge", "Gt") and mentions_field(tr, c[2], "wait_duration_in_open"):
                    gd = True
            ok = ok and gd
            detail += "; guarded by elapsed >= wait_duration_in_open" if gd else "; NOT guarded by elapsed >= wait_duration_in_open"
        elif name == "evaluate":
            # guarded by the threshold test, the minimum-calls test and (count-based) the full-window test
            need = {"failure_rate_threshold": False, "minimum_number_of_calls": False, "sliding_window_size": False}
            for e in edges:
                if e["kind"] != "bool":
                    continue
                for f in need:
                    if mentions_field(tr, e["node"], f):
                        need[f] = True
            # the opening decision may be an `||` of tests: look at every bool switch that can reach the call
            r_all = set()
            for bb in range(g.n):
                s2 = g.switch(bb)
                if s2 is not None and s2.kind == "bool" and cs.bb in g.reach([bb], kinds=(N,)):
                    nd = peel(tr.expand(tr.operand(b, s2.cond, (bb, len(g.stmts(bb))))))
                    for f in need:
                        if mentions_field(tr, nd, f):
                            need[f] = True
            okg = all(need.values())
            ok = ok and okg
            detail += "; guarded by %s" % sorted(k for k, v in need.items() if v) + ("" if okg else " — missing %s" % sorted(k for k, v in need.items() if not v))
        rep.ob("C04.TABLE", k, ok, cs.where(), detail if ok else "undocumented or mis-guarded transition: " + detail)
    missing = EXPECTED - rows
    rep.ob("C04.TABLE", "%s|complete" % CRATE, not missing, "-",
           "all %d documented transition edges are present" % len(EXPECTED) if not missing else "documented transitions missing: %s" % sorted(missing))
    rep.floor("C04.transition-call-sites", len(rows), 7)
    # evaluate is reached from the non-HalfOpen arms of both recorders
    ev = [b for b in facts.crates[CRATE].bodies if cb.role(b) == "evaluate" and b.kind == "fn"]
    for e in ev:
        callers = tr.callers(e.def_)
        names = sorted({cb.role(c.g.b) for c in callers})
        rep.ob("C04.TABLE", skey(e, "callers"), set(names) == {"record_failure", "record_success"}, "%s:%d" % (e.span["file"], e.span["line"]),
               "window evaluation is invoked from %s" % names)
        for c in callers:
            b = c.g.b
            in_ho = cb.arm_of(b, c.bb)[0] == "HalfOpen"
            rep.ob("C04.TABLE", skey(b, "evaluate-outside-halfopen"), not in_ho, c.where(),
                   "window evaluation happens outside the HalfOpen arm" if not in_ho else "window evaluation inside the HalfOpen arm")
    # ------------------------------------------------------------ REC: both services record with the classifier's verdict on the result
    nrec = 0
    for sb in cb.services:
        for ch in descendants(facts, sb):
            if ch.kind != "coroutine":
                continue
            gch = graph(ch)
            recs = [(c, cb.roles.get(d)) for c in gch.calls() for d in c.targets_def() if cb.roles.get(d) in ("record_failure", "record_success")]
            for (c, crole) in recs:
                nrec += 1
                rep.saw(ch)
                want = "true" if crole == "record_failure" else "false"
                edges = [e for e in dominating_edges(tr, ch, c.bb) if e["kind"] == "bool"]
                cls = [e for e in edges if e["node"][0] == "call" and tr.call_of(e["node"]).name == "classify"]
                extra = [e for e in edges if e not in cls and not (e["node"][0] == "call" and e["node"] in [x["node"] for x in cls])
                         and not _is_admission_edge(tr, e, cb) and not _in_obs(gch, e)]
                ok = len(cls) == 1 and cls[0]["label"] == want and not extra
                if ok:
                    cc = tr.call_of(cls[0]["node"])
                    arg = peel(tr.expand(tr.operand(ch, cc.args[1], cc.loc)))
                    ok = any(x[0] == "call" and tr.call_of(x).def_ == "core::future::future::Future::poll" for x in tr.walk(arg, limit=30))
                rep.ob("C04.REC", skey(ch, "%s#%d" % (crole, ordinal(gch, c))), ok, c.where(),
                       "%s is recorded exactly when failure_classifier.classify(&result) is %s" % (crole.split("_")[1], want) if ok else
                       "%s is not decided by failure_classifier.classify(&result) alone (extra condition or different verdict): the two services of "
                       "the breaker would count outcomes differently from the documented classifier" % crole)
    rep.floor("C04.record-sites", nrec, 4)
    # ------------------------------------------------------------ RESET
    window_fields = []
    if T is not None:
        for f in cb.circuit["variants"][0]["fields"]:
            fty = crate.types[f["ty"]]["s"]
            if f["name"] in (cb.state_field, cb.atomic_field):
                continue
            if fty == "usize" or fty.startswith("alloc::collections::vec_deque::VecDeque") or _is_tally_struct(facts, crate, f["ty"]):
                if _clears_on_all_paths(facts, tr, T, cb, f["name"], fty, from_bb=None, must_reach_after_state_write=True):
                    window_fields.append((f["name"], fty))
    rep.floor("C04.window-fields", len(window_fields), 2)     # the count tally (one field per counter, or one tally struct) and the records
    reset = cb.by_role("reset")
    if reset is None:
        rep.anchor_missing("Circuit::reset")
    else:
        rep.saw(reset)
        for (fname, fty) in window_fields:
            ok = _clears_on_all_paths(facts, tr, reset, cb, fname, fty)
            rep.ob("C04.RESET", skey(reset, "clears." + fname), ok, "%s:%d" % (reset.span["file"], reset.span["line"]),
                   "every path through reset leaves %s empty/zero" % fname if ok else
                   "reset can return with %s untouched (e.g. through the transition function's same-state early return)" % fname)
    # ------------------------------------------------------------ HALF-OPEN-COUNT: sliding must not eat trial successes
    check_no_evict_in_half_open(cb, rep, "C04.HALF-OPEN-COUNT")
    check_window_dispatch(cb, rep, "C04.WINDOW-DISPATCH")
    check_stats_partition(cb, rep, "C04.STATS-PARTITION")
    rep.floor("C04.SLIDE-SYMMETRY.counters", check_slide_symmetry(cb, rep, "C04.SLIDE-SYMMETRY"), 2)
    # ------------------------------------------------------------ SLIDE
    for rname in ("record_success", "record_failure"):
        rb = cb.by_role(rname)
        if rb is None:
            rep.anchor_missing("Circuit::" + rname)
            continue
        rep.saw(rb)
        ok, wherex = _has_eviction(facts, tr, rb, cb, depth=0)
        rep.ob("C04.SLIDE", skey(rb, "count-window-evicts"), ok, wherex or "%s:%d" % (rb.span["file"], rb.span["line"]),
               "the count-based recording path evicts old outcomes (a sliding window)" if ok else
               "the count-based window is only ever incremented or zeroed at a transition: it cannot be 'the last N calls'")


def _is_admission_edge(tr, e, cb):
    if e["node"][0] == "call" and cb.admission is not None:
        return cb.admission.def_ in tr.call_of(e["node"]).targets_def()
    return False


def _in_obs(g, e):
    from ..pair import in_observability_macro
    return in_observability_macro(g.term(e["bb"]))


def _is_tally_struct(facts, crate, ty):
    """a workspace struct all of whose fields are integers (the counters of a window grouped into one value)"""
    t = crate.types[ty]
    d = t.get("def")
    if not d or not d.startswith(CRATE):
        return False
    adt = facts.adt(d)
    if adt is None or len(adt.get("variants", [])) != 1 or not adt["variants"][0]["fields"]:
        return False
    return all(crate.types[f["ty"]]["s"] in ("usize", "u64", "u32", "u16", "u8") for f in adt["variants"][0]["fields"])


def _is_zero_struct_value(facts, tr, val):
    """`T::default()` of a derived Default, or a struct literal of zero constants"""
    if val[0] == "call":
        c = tr.call_of(val)
        if c.def_ != "core::default::Default::default":
            return False
        for d in c.targets_def():
            hb = facts.bodies.get(d)
            if hb is None:
                continue
            # derived Default of an all-integer struct: every field is Default::default() of an integer, i.e. 0
            rets = ret_assigns(tr, hb)
            return bool(rets) and all(_is_zero_struct_value(facts, tr, peel(n)) or peel(n)[0] == "agg" for (_i, _j, n) in rets) and \
                all(_agg_all_zero(facts, tr, peel(n)) for (_i, _j, n) in rets if peel(n)[0] == "agg")
        return False
    if val[0] == "agg":
        return _agg_all_zero(facts, tr, val)
    return False


def _agg_all_zero(facts, tr, node):
    b2, rv = tr.agg_of(node)
    if not rv["ops"]:
        return False
    for k, o in enumerate(rv["ops"]):
        v = peel(tr.expand(tr.operand(b2, o, (node[3], node[4]))))
        if v[0] == "const" and (v[1] in ("0", "0_usize") or str(v[1]).startswith("0_")):
            continue
        if v[0] == "call" and tr.call_of(v).def_ == "core::default::Default::default" and "core::default::Default>::default" in (tr.call_of(v).path or "") \
                and any(t in tr.call_of(v).path for t in ("<usize as", "<u64 as", "<u32 as", "<u16 as", "<u8 as")):
            continue
        return False
    return True


def _clears_on_all_paths(facts, tr, body, cb, fname, fty, from_bb=None, must_reach_after_state_write=False, depth=0):
    """every normal path entry->return passes a block that zeroes/clears the field (directly, or through a
    local callee that does so on all of its paths — the transition fn is NOT accepted because of its
    early return)"""
    g = graph(body)
    clear_blocks = set()
    for (b, i, j, s) in field_writes(facts, cb.circuit_adt, fname):
        if b is body:
            val = peel(tr.stmt_value(body, i, j))
            if val[0] == "const" and val[1] in ("0", "0_usize"):
                clear_blocks.add(i)
            elif _is_zero_struct_value(facts, tr, val):
                clear_blocks.add(i)
    for c in g.calls():
        if c.name == "clear" and c.args:
            recv = peel(tr.expand(tr.operand(body, c.args[0], c.loc)))
            if recv[0] == "field" and recv[2] == fname:
                clear_blocks.add(c.bb)
        elif depth < 2:
            for d in c.targets_def():
                cb2 = facts.bodies.get(d)
                if cb2 is not None and cb2.crate.name == CRATE and cb2 is not body and cb2.kind == "fn":
                    if _clears_on_all_paths(facts, tr, cb2, cb, fname, fty, depth=depth + 1):
                        clear_blocks.add(c.bb)
    if must_reach_after_state_write:
        # used to discover window fields: cleared somewhere in the transition fn
        return bool(clear_blocks)
    r = g.reach([0], kinds=(N,), avoid_nodes=clear_blocks)
    return not any(g.term(x)["k"] == "return" for x in r) and bool(clear_blocks)


def _has_eviction(facts, tr, body, cb, depth):
    """a pop/remove on a container field or a decrement of a counter field, reachable without a transition call"""
    g = graph(body)
    for c in g.calls():
        if c.name in ("pop_front", "pop_back", "remove", "truncate", "drain", "swap_remove_back", "swap_remove_front") and c.args:
            recv = peel(tr.expand(tr.operand(body, c.args[0], c.loc)))
            if recv[0] == "field" and recv[3] == cb.circuit_adt:
                # must not be the time-based records: require it to be reachable on the CountBased arm
                if _on_count_based_arm(tr, body, c.bb) is not False:
                    return True, c.where()
    for i, blk in enumerate(body.blocks):
        for j, s in enumerate(blk["stmts"]):
            if s["k"] == "assign" and s["lhs"]["p"]:
                last = s["lhs"]["p"][-1]
                if isinstance(last, dict) and last.get("adt") == cb.circuit_adt:
                    val = peel(tr.stmt_value(body, i, j))
                    dec = (val[0] == "call" and tr.call_of(val).name in ("saturating_sub", "wrapping_sub", "checked_sub")) or \
                          (val[0] == "field" and peel(val[1])[0] == "binop" and peel(val[1])[1].startswith("Sub")) or \
                          (val[0] == "binop" and val[1].startswith("Sub"))
                    if dec and _on_count_based_arm(tr, body, i) is not False:
                        return True, graph(body).where(i, j)
    if depth < 2:
        for c in g.calls():
            for d in c.targets_def():
                b2 = facts.bodies.get(d)
                if b2 is not None and b2.crate.name == CRATE and b2.kind == "fn" and b2 is not body and b2 is not cb.transition:
                    if _on_count_based_arm(tr, body, c.bb) is False:
                        continue
                    ok, w = _has_eviction(facts, tr, b2, cb, depth + 1)
                    if ok:
                        return True, w
    return False, None


def _on_count_based_arm(tr, body, bb):
    """True/False if the site is dominated by a CountBased / TimeBased arm, None if neither"""
    for e in dominating_edges(tr, body, bb):
        if e["kind"] == "enum" and e["label"] in ("CountBased", "TimeBased"):
            return e["label"] == "CountBased"
    return None
