"""C02 — rate limiter admits at most limit_for_period calls per window."""
from ..core import graph, Call, peel, leaves, show, N
from ..util import *
from ..util import state_adts
from .rl_common import RL, CRATE

EXPLANATION = (
    "The window theorem itself (consecutive windows, boundary instants, the sliding counter's float estimate) is a "
    "timing property and is NOT decided. Decided: the permit-accounting discipline every admission rests on. "
    "(PROTOCOL) in the async acquire, every Ok return is edge-dominated by the *consumed* edge — Ok and zero wait — "
    "of the latest try-acquire result on that path, and the sleep is reached only on the must-wait edge; "
    "(CONSUME) in each of the three window states every `Ok(ZERO)` return is preceded on every path by a "
    "consume-write of that state (permits -= 1, log.push_back, count += 1), no two consume-writes lie on one "
    "path, and every consume-write leads to that return; (CAPACITY) the consume-write is dominated by the capacity "
    "guard; (REFILL) every other write of the consumed state (refill, pop_front, bucket rotation) is dominated by "
    "the elapsed-time guard, and the new window start is the instant that guard compared; (ADMIT) in the service "
    "the wrapped call is reached only on the Ok edge of awaiting acquire, once, outside any cycle."
    ' (SENTINEL) an `Ok(wait)` answered on a path that took no permit has no origin that is zero by construction (literal ZERO, `checked_*(..).unwrap_or(ZERO)`, `min(_, timeout_duration)`): `Ok(ZERO)` means "permit taken" to acquire(). Numeric waits computed by helpers are not judged.'
    ' (STALE) no window state uses a value computed from one of its fields after that field was overwritten on the way (a wait computed from the window start of the previous period). (refresh-start) past the edge on which the period is over and capacity is restored, every way out of the window function advances the window start; the window rules follow the state through the private structs it stores.')
RULE = "one obligation per Ok-return of acquire, per window state (consume, capacity, refill writes), per wrapped-call site"
TRUSTED = ["std::sync::Mutex (mutual exclusion of window updates)", "tokio::time::sleep", "rustc MIR construction"]
ASSUMPTIONS = ["limit_for_period >= 1 (the property's quantifier) for the one reasoned exception in the sliding log"]
CONFIG_CRATES = ["tower_resilience_ratelimiter"]
TECHNIQUE = "static analysis of built MIR: protocol rule (edge dominance over result variants and zero-duration idioms), guarded-write / who-writes rules"


def run(facts, tr, rep):
    rl = RL(facts, tr, rep)
    if not rl.ok:
        rep.anchor_missing("rate limiter acquire / try-acquire functions")
        return
    A = rl.acquire
    rep.saw(A)
    g = graph(A)
    tr_w, tr = tr, rl.atr         # the acquire future: view with the helpers between it and the try-acquire functions inlined
    rep.floor("C02.try-acquire-calls-in-acquire", len(rl.tcalls), 1)
    tnodes = {c.bb: ("call", A.crate.name, A.def_, c.bb) for (c, _fb) in rl.tcalls}
    # ---------------------------------------------------------------- PROTOCOL
    nok = 0
    for (i, j, node) in ret_assigns(tr, A):
        if node[0] != "agg":
            # a try-acquire result handed back through Ok-preserving combinators (`map`, `map_err`, ..) admits the caller on
            # every Ok, also on Ok(wait > 0) = "no permit taken"
            for lf in leaves(node):
                lf = peel(lf)
                hops, cur = 0, lf
                while cur[0] == "call" and tr.call_of(cur).name in ("map", "map_err", "or", "inspect", "inspect_err") and hops < 6:
                    cc_ = tr.call_of(cur)
                    cur = peel(tr.expand(tr.operand(cc_.g.b, cc_.args[0], cc_.loc)))
                    hops += 1
                if hops and cur in tnodes.values():
                    nok += 1
                    rep.ob("C02.PROTOCOL", skey(A, "ok-return#%d" % (nok - 1)), False, g.where(i, j),
                           "a try-acquire result is returned through `%s`, which keeps every Ok: the caller is admitted also when the window "
                           "state answered Ok(wait > 0), i.e. without having taken a permit" % tr.call_of(lf).name)
            continue
        _b, rv = tr.agg_of(node)
        if rv.get("variant") != "Ok" or not rv.get("def", "").endswith("Result"):
            continue
        nok += 1
        edges = dominating_edges(tr, A, i)
        # try-acquire results whose Ok edge dominates the site
        doms = [bb for bb, V in tnodes.items() if any(e["kind"] == "enum" and e["label"] == "Ok" and e["node"] == V for e in edges)]
        latest = None
        for bb in doms:
            if all(g.node_dominates(o, bb) for o in doms):
                latest = bb
        # a try-acquire call between the latest dominating one and the site would be newer
        newer = [bb for bb in tnodes if bb not in doms and latest is not None and bb in g.reach([latest], kinds=(N,)) and i in g.reach([bb], kinds=(N,))]
        ok = latest is not None and not newer and zero_duration_on(tr, edges, tnodes[latest])
        rep.ob("C02.PROTOCOL", skey(A, "ok-return#%d" % (nok - 1)), ok, g.where(i, j),
               "admission is returned only on the consumed edge (Ok and zero wait) of the latest try-acquire (%s)" % g.where(latest) if ok else
               "admission is returned although the latest try-acquire result%s was not `Ok(zero)`: the caller is admitted without "
               "having taken a permit" % (" (%s)" % g.where(latest) if latest is not None else ""))
    rep.floor("C02.acquire-ok-returns", nok, 2)
    # sleep only on the must-wait edge of the first result
    sleeps = [c for c in g.calls() if c.def_ and c.def_.startswith("tokio::time::sleep::sleep")]
    for c in sleeps:
        edges = dominating_edges(tr, A, c.bb)
        doms = [bb for bb, V in tnodes.items() if any(e["kind"] == "enum" and e["label"] == "Ok" and e["node"] == V for e in edges)]
        consumed = any(zero_duration_on(tr, edges, tnodes[bb]) for bb in doms)
        dur = peel(tr.expand(tr.operand(A, c.args[0], c.loc)))
        from_result = any(derives(tr, dur, tnodes[bb]) for bb in doms)
        rep.ob("C02.SLEEP", skey(A, "sleep"), bool(doms) and not consumed and from_result, c.where(),
               "sleep is reached only on the must-wait edge and lasts the wait the window state asked for" if doms and not consumed and from_result else
               "sleep is not confined to the must-wait edge of a try-acquire result / its duration is not that result")
    tr = tr_w
    # ---------------------------------------------------------------- window states
    rep.floor("C02.window-states", len(rl.windows), 3)
    for W in rl.windows:
        rep.saw(W)
        _check_window(facts, tr, rep, rl, W)
    # STALE: a value computed from the window's fields is not used after those fields were updated on the way (the wait
    # computed from the window start of the *previous* period, after the refresh moved it)
    nst = 0
    for W0 in rl.windows:
        Wf_ = facts.inl.bodies.get(W0.def_) or W0
        nst += check_stale_reads(facts.inl, tr.inl, rep, "C02.STALE", Wf_, rl.self_adt(W0))
    rep.ob("C02.STALE", "%s|window-states" % CRATE, nst == 0, "-",
           "no window state uses a value derived from a field after overwriting that field" if nst == 0 else "%d stale use(s)" % nst)
    # NONZERO-WAIT (also judged by C15): a wait answered without taking a permit is not produced by a whole-unit
    # conversion, which would turn a sub-unit wait into Ok(ZERO) = "permit taken".  On the inlined view of each window
    # state, so a shared "wait or reject" helper is covered.
    ffacts, ftr = facts.inl, tr.inl
    for W0 in rl.windows:
        Wf = ffacts.bodies.get(W0.def_)
        gf = graph(Wf)
        nn = 0
        for (i, j, node) in ret_assigns(ftr, Wf):
            if node[0] != "agg" or not gf.live(i):
                continue
            b_, rv = ftr.agg_of(node)
            if rv.get("variant") != "Ok" or _is_ok_zero(ftr, node):
                continue
            payload = peel(ftr.expand(ftr.operand(b_, rv["ops"][0], (node[3], node[4]))))
            if payload[0] == "const":
                continue
            trunc = calls_in(ftr, payload, lambda x: x.name in ("as_millis", "as_secs", "as_micros", "subsec_millis", "subsec_micros", "from_millis",
                                                                "from_secs", "from_micros", "as_secs_f32"))
            rep.ob("C02.NONZERO-WAIT", skey(Wf, "ok-wait#%d" % nn), not trunc, gf.where(i, j),
                   "the answered wait is not rounded to whole units" if not trunc else
                   "the answered wait is truncated (%s): a sub-unit wait becomes Ok(ZERO), which acquire() reads as 'permit taken' and admits "
                   "the call without consuming a permit" % trunc[0].name)
            nn += 1
    # ---------------------------------------------------------------- ADMIT in the service
    for (b, c, found) in rl.service_sites:
        rep.saw(b)
        gg = graph(b)
        k = skey(b, "inner-call#%d" % ordinal(gg, c))
        if found is None:
            rep.ob("C02.ADMIT", k, False, c.where(), "wrapped call is not preceded by awaiting the limiter's acquire")
            continue
        a, ac, fb = found
        V = await_node(b, a)
        edges = dominating_edges(tr, b, c.bb)
        ok = any(e["kind"] == "enum" and e["label"] in ("Ok",) and derives(tr, e["node"], V) for e in edges)
        cyc = gg.in_cycle(c.bb)
        rep.ob("C02.ADMIT", k, ok and not cyc, c.where(),
               "wrapped call is reached only on the Ok edge of acquire().await, outside any cycle" if ok and not cyc else
               "wrapped call is %s" % ("inside a cycle" if cyc else "not dominated by the Ok edge of acquire().await"))
    rep.floor("C02.service-sites", len(rl.service_sites), 1)


def _consume_sites(facts, tr, W, adt):
    """(bb, idx, field, kind) of consume-writes: field +=/-= 1, or push on a container field"""
    out = []
    g = graph(W)
    # writes to a field of the window state, or to a field of a private struct the state groups its bookkeeping in
    # (`self.buckets.current += 1`): the projection path passes through the state's own type
    ws_ = []
    for i_, blk_ in enumerate(W.blocks):
        for j_, s_ in enumerate(blk_["stmts"]):
            if s_["k"] == "assign" and s_["lhs"]["p"]:
                pr_ = s_["lhs"]["p"]
                if isinstance(pr_[-1], dict) and pr_[-1].get("n") and any(isinstance(e_, dict) and e_.get("adt") == adt for e_ in pr_):
                    ws_.append((W, i_, j_, s_))
    for (b, i, j, s) in ws_:
        val = peel(tr.stmt_value(W, i, j))
        fname = s["lhs"]["p"][-1]["n"]
        v = val
        if v[0] == "field" and peel(v[1])[0] == "binop":
            v = peel(v[1])
        if v[0] == "binop" and v[1] in ("Add", "AddWithOverflow", "Sub", "SubWithOverflow"):
            a, bnode = peel(v[2]), peel(v[3])
            # the field as read, or what an earlier write on the path stored (a refresh inlined above the consume)
            a_alts = [peel(x) for x in leaves(a)]
            if any(a_[0] == "field" and a_[2] == fname for a_ in a_alts) and bnode[0] == "const" and bnode[3] == "1":
                out.append((i, j, fname, "step"))
        # `if let Some(rest) = self.f.checked_sub(1) { self.f = rest; .. }`: a step whose Some edge is its own capacity guard
        w_ = val
        while w_[0] in ("field", "downcast"):
            w_ = peel(w_[1])
        if val[0] == "field" and w_[0] == "call" and tr.call_of(w_).name in ("checked_sub", "checked_add") and len(tr.call_of(w_).args) == 2:
            cc_ = tr.call_of(w_)
            a_s = [peel(x) for x in leaves(tr.expand(tr.operand(cc_.g.b, cc_.args[0], cc_.loc)))]     # the field as read, or what an earlier write on the path stored
            bnode = peel(tr.expand(tr.operand(cc_.g.b, cc_.args[1], cc_.loc)))
            if any(a[0] == "field" and a[2] == fname for a in a_s) and bnode[0] == "const" and bnode[3] == "1":
                out.append((i, j, fname, "step"))
    for c in g.calls():
        if c.name in ("push_back", "push", "push_front", "insert") and c.args:
            recv = peel(tr.expand(tr.operand(W, c.args[0], c.loc)))
            if recv[0] == "field" and recv[3] == adt:
                out.append((c.bb, len(g.stmts(c.bb)), recv[2], "push"))
    return out


def _is_ok_zero(tr, node):
    if node[0] != "agg":
        return False
    b, rv = tr.agg_of(node)
    if rv.get("variant") != "Ok":
        return False
    p = peel(tr.operand(b, rv["ops"][0], (node[3], node[4])))
    return p[0] == "const" and (p[2] or "").endswith("Duration::ZERO")


def _is_zero_const(x):
    return x[0] == "const" and ((x[2] or "").endswith("Duration::ZERO") or (x[2] or "").endswith("Duration::default"))


def _zeroable(tr, node, depth=0):
    """reason (str) why the Duration `node` is zero for some admissible configuration, else None (unknown / numeric)"""
    if depth > 6:
        return None
    for lf in leaves(node):
        lf = peel(lf)
        if _is_zero_const(lf):
            return "a literal Duration::ZERO reaches it"
        if lf[0] == "call":
            c = tr.call_of(lf)
            args = [tr.expand(tr.operand(c.g.b, a, c.loc)) for a in c.args]
            if c.name in ("unwrap_or", "unwrap_or_default", "unwrap_or_else") and args:
                dflt_zero = c.name == "unwrap_or_default" or (len(args) > 1 and any(_is_zero_const(peel(x)) for x in leaves(args[1])))
                checked = calls_in(tr, args[0], lambda x: x.name.startswith("checked_"))
                if dflt_zero and checked:
                    return "`%s(..).unwrap_or(ZERO)`: the overflow case of %s, which a very long period reaches, answers ZERO" % (checked[0].name, checked[0].name)
                w = _zeroable(tr, args[0], depth + 1) if not dflt_zero else None
                if w:
                    return w
            elif c.name in ("min", "clamp") and len(args) >= 2:
                for a in args[1:] if c.name == "min" else args[2:]:
                    if mentions_field(tr, a, "timeout_duration"):
                        return "it is capped by timeout_duration, which may be zero"
                if c.name == "min" and mentions_field(tr, args[0], "timeout_duration") and peel(args[0])[0] == "field":
                    return "it is capped by timeout_duration, which may be zero"
                for a in args[:2] if c.name == "min" else args[:1]:
                    w = _zeroable(tr, a, depth + 1)
                    if w:
                        return w
            elif c.name in ("map", "and_then", "saturating_sub", "saturating_duration_since"):
                continue
    return None


def _time_guarded(tr, body, bb):
    for e in dominating_edges(tr, body, bb):
        if e["kind"] != "bool":
            continue
        c = cmp_on_edge(tr, e)
        if c is None:
            continue
        for side in (c[1], c[2]):
            if calls_in(tr, side, lambda x: x.def_ in ("std::time::Instant::duration_since", "std::time::Instant::elapsed",
                                                        "std::time::Instant::saturating_duration_since", "std::time::Instant::checked_duration_since")):
                return e
    return None


def _check_window(facts, tr, rep, rl, W):
    g = graph(W)
    adt = rl.self_adt(W)
    short = adt.split("::")[-1]
    cons = _consume_sites(facts, tr, W, adt)
    cons_blocks = {c[0] for c in cons}
    okz = [(i, j) for (i, j, node) in ret_assigns(tr, W) if _is_ok_zero(tr, node)]
    rep.floor("C02.consume-writes:" + short, len(cons), 1)
    rep.floor("C02.ok-zero-returns:" + short, len(okz), 1)
    for n, (i, j) in enumerate(okz):
        r = g.reach([0], kinds=(N,), avoid_nodes=cons_blocks)
        ok = i not in r or i in cons_blocks
        exc = False
        if not ok:
            # reasoned exception: the sliding log's `None` arm of front() after the failed capacity test;
            # unreachable for limit_for_period >= 1 because the deque is then non-empty
            for e in dominating_edges(tr, W, i):
                if e["kind"] == "enum" and e["label"] == "None" and e["node"][0] == "call" and tr.call_of(e["node"]).name == "front":
                    exc = True
        rep.ob("C02.CONSUME", skey(W, "ok-zero#%d" % n), ok or exc, g.where(i, j),
               ("every path to this immediate grant consumes capacity of the window state" if ok else
                "immediate grant without a consume-write on the `front() == None` arm: unreachable for limit_for_period >= 1 (reasoned exception)")
               if ok or exc else "an immediate grant (Ok(ZERO)) is reachable without consuming capacity of the window")
    # SENTINEL: `Ok(ZERO)` means "a permit was taken" to acquire(); an `Ok(wait)` answered on a path that took no
    # permit must therefore not be able to be ZERO by construction.  Decided structurally (three-valued: a value is
    # reported only when one of its origins *is* zero for an admissible configuration; numeric waits are not judged):
    #   a literal ZERO leaf, `x.unwrap_or(ZERO)` after a checked_* operation (None = overflow, which a long period
    #   reaches), `x.min(timeout_duration)` / `.clamp(_, timeout)` (the timeout may be zero).
    nw = 0
    for (i, j, node) in ret_assigns(tr, W):
        if node[0] != "agg" or _is_ok_zero(tr, node):
            continue
        b_, rv = tr.agg_of(node)
        if rv.get("variant") != "Ok":
            continue
        r = g.reach([0], kinds=(N,), avoid_nodes=cons_blocks)
        if i not in r or i in cons_blocks:
            continue
        nw += 1
        payload = tr.expand(tr.operand(b_, rv["ops"][0], (node[3], node[4])))
        why = _zeroable(tr, payload)
        rep.ob("C02.SENTINEL", skey(W, "ok-wait#%d" % (nw - 1)), why is None, g.where(i, j),
               "the wait answered without taking a permit has no origin that is zero by construction" if why is None else
               "the wait answered without taking a permit can be Duration::ZERO (%s); acquire() reads Ok(ZERO) as 'permit taken' and admits "
               "the call although nothing was consumed" % why)
    for n, (i, j, fname, kind) in enumerate(cons):
        # leads to Ok(ZERO)
        okblocks = {x[0] for x in okz}
        r = g.reach([i], kinds=(N,), avoid_nodes=okblocks - {i})
        leads = not any(g.term(x)["k"] == "return" for x in r) or i in okblocks
        # not two on one path
        other = cons_blocks - {i}
        twice = any(o in g.reach([i], kinds=(N,)) for o in other) or g.in_cycle(i)
        rep.ob("C02.CONSUME", skey(W, "consume#%d" % n), leads and not twice, g.where(i, j),
               "consume-write of %s.%s is followed by the grant and is the only one on its path" % (short, fname) if leads and not twice else
               "consume-write of %s.%s %s" % (short, fname, "can be followed by another consume-write (a grant consumes twice)" if twice else "does not lead to a grant"))
        # capacity guard
        guard = None
        for e in dominating_edges(tr, W, i):
            if e["kind"] != "bool":
                continue
            c = cmp_on_edge(tr, e)
            if c is None:
                continue
            op, x, y = c
            txt = (mentions_field(tr, x, "limit_for_period") or mentions_field(tr, y, "limit_for_period")
                   or mentions_field(tr, x, fname) or mentions_field(tr, y, fname))
            if not txt:
                continue
            # direction: consumed quantity strictly below the limit / remaining strictly above zero
            if (op == "Lt" and mentions_field(tr, y, "limit_for_period")) or (op == "Gt" and mentions_field(tr, x, "limit_for_period")) \
               or (op == "Gt" and mentions_field(tr, x, fname) and y[0] == "const" and y[3] == "0") \
               or (op in ("Ne",) and mentions_field(tr, x, fname) and y[0] == "const" and y[3] == "0") \
               or (op == "Ge" and mentions_field(tr, x, fname) and y[0] == "const" and y[3] == "1"):
                guard = (e, c)
            # `remaining.checked_sub(1)` answered Some: remaining >= 1
        for e in dominating_edges(tr, W, i):
            if e["kind"] == "enum" and e["label"] == "Some" and e["node"][0] == "call" and tr.call_of(e["node"]).name == "checked_sub":
                cc_ = tr.call_of(e["node"])
                a_s = [peel(x) for x in leaves(tr.expand(tr.operand(cc_.g.b, cc_.args[0], cc_.loc)))]
                b_ = peel(tr.expand(tr.operand(cc_.g.b, cc_.args[1], cc_.loc)))
                if any(a_[0] == "field" and a_[2] == fname for a_ in a_s) and b_[0] == "const" and b_[3] == "1":
                    guard = (e, ("Ge", a_s[0], b_))
        rep.ob("C02.CAPACITY", skey(W, "consume#%d" % n), guard is not None, g.where(i, j),
               "consume-write is dominated by the capacity guard (%s)" % g.where(guard[0]["bb"]) if guard else
               "consume-write of %s.%s is not dominated by a capacity guard (used < limit_for_period / remaining > 0)" % (short, fname))
    # refill writes: other writes to the consumed fields (anywhere in the crate)
    cfields = sorted({c[2] for c in cons})
    nref = 0
    adts = state_adts(facts, CRATE, adt)
    for fname in cfields:
        for (b, i, j, s) in [w_ for a_ in sorted(adts) for w_ in field_writes(facts, a_, fname)]:
            if b is W and i in cons_blocks:
                continue
            if b.name == "new":
                continue
            nref += 1
            rep.saw(b)
            _refill_ob(facts, tr, rep, W, b, i, j, short, fname, nref)
        # container removals
        for b in facts.crates[CRATE].bodies:
            for c in graph(b).calls():
                if c.name in ("pop_front", "pop_back", "clear", "truncate", "drain", "remove") and c.args:
                    recv = peel(tr.expand(tr.operand(b, c.args[0], c.loc)))
                    if recv[0] == "field" and recv[3] == adt and recv[2] == fname:
                        nref += 1
                        rep.saw(b)
                        _refill_ob(facts, tr, rep, W, b, c.bb, None, short, fname, nref, call=c)
    # window start: written with the instant the guard compared
    nstart = 0
    has_start = False
    starts = []
    for (adt, f) in [(a_, f_) for a_ in sorted(adts) for f_ in facts.adt(a_)["variants"][0]["fields"]]:
        fty = facts.crates[CRATE].types[f["ty"]]["s"]
        if "Instant" not in fty or "Deque" in fty:
            continue
        has_start = True
        starts.append((adt, f["name"]))
        for (b, c) in _mut_borrow_calls(facts, tr, adt, f["name"]):
            rep.saw(b)
            nstart += 1
            timed = any(_time_derived(tr, tr.expand(tr.operand(b, a, c.loc), upvars=True, params=True)) for a in c.args[1:])
            rep.ob("C02.REFILL", skey(b, "window-start.%s.inplace" % f["name"]), timed, c.where(),
                   "window start advanced by an amount computed from the elapsed time" if timed else
                   "the window start %s.%s is modified in place by %s instead of being set to the instant the elapsed-time guard "
                   "was evaluated at: after an idle gap the guard stays true and every call refills the window" % (short, f["name"], c.path[:80]))
        for (b, i, j, s) in field_writes(facts, adt, f["name"]):
            if b.name == "new":
                continue
            rep.saw(b)
            val = peel(tr.expand(tr.stmt_value(b, i, j), upvars=True, params=True))
            is_now = all((x[0] == "call" and tr.call_of(x).def_ == "std::time::Instant::now") or _time_derived(tr, x) for x in leaves(val))
            nstart += 1
            rep.ob("C02.REFILL", skey(b, "window-start.%s" % f["name"]), is_now, where(b, i, j),
                   "on refresh the window start %s.%s becomes the instant `now` the elapsed-time guard was evaluated at" % (short, f["name"]) if is_now else
                   "on refresh the window start %s.%s is not set to the current instant (%s): the elapsed-time guard can stay true and "
                   "refill the window again" % (short, f["name"], show(val)))
    if has_start:
        rep.floor("C02.window-start-writes:" + short, nstart, 1)
        _check_refresh_start(facts, tr, rep, W, short, adts, cfields, starts)


ELAPSED_FNS = ("std::time::Instant::duration_since", "std::time::Instant::elapsed",
               "std::time::Instant::saturating_duration_since", "std::time::Instant::checked_duration_since")


def _check_refresh_start(facts, tr, rep, W, short, adts, cfields, starts):
    """the refresh is one step: on the side of the elapsed-time guard where the period is over and capacity is restored,
    every way out of the window function advances the window start.  A way out that restores capacity and leaves the
    start behind keeps the guard true, so every later call restores capacity again: the limit is off until some other
    path moves the start.  Judged on the inlined view of the window function (the rotation may live in a helper)."""
    Wf = facts.inl.bodies.get(W.def_) or W
    ftr = tr.inl if Wf is not W else tr
    g = graph(Wf)
    sblocks, rsites = set(), []
    snames = {n for (_a, n) in starts}

    def fld(pl):
        pp = pl["p"]
        if pp and isinstance(pp[-1], dict) and pp[-1].get("n") and pp[-1].get("adt") in adts:
            return pp[-1]["n"]
        return None
    cons_f = {c[0] for a_ in adts for c in _consume_sites(facts, ftr, Wf, a_)}
    for i, blk in enumerate(Wf.blocks):
        for j, s_ in enumerate(blk["stmts"]):
            if s_["k"] != "assign":
                continue
            f = fld(s_["lhs"])
            if f in snames:
                sblocks.add(i)
            elif f in cfields and i not in cons_f:
                rsites.append((i, j, f))
    # `&mut self.f` handed to a call (mem::take / replace, `+=` on a non-primitive), through any chain of reborrows
    for c in g.calls():
        if c.name not in ("take", "replace", "swap", "clear", "add_assign", "sub_assign"):
            continue
        for a in c.args:
            n_ = ftr.expand(ftr.operand(Wf, a, c.loc))
            while n_[0] in ("use", "deref") or (n_[0] == "ref" and n_[1][0] in ("deref", "use", "ref")):
                n_ = n_[1] if n_[0] != "ref" else ("ref", n_[1][1])
            if n_[0] == "ref" and peel(n_[1])[0] == "field" and peel(n_[1])[3] in adts:
                f2 = peel(n_[1])[2]
                if f2 in snames:
                    sblocks.add(c.bb)
                elif f2 in cfields and c.name in ("take", "replace", "swap", "clear"):
                    rsites.append((c.bb, None, f2))
    done = set()
    for (i, j, f) in rsites:
        # the innermost dominating edge on which `elapsed >= period` holds
        best = None
        for e in dominating_edges(ftr, Wf, i):
            if e["kind"] != "bool":
                continue
            c = cmp_on_edge(ftr, e)
            if c is None:
                continue
            op, x, y = c
            xs, ys = peel(x), peel(y)
            el_x = xs[0] == "call" and ftr.call_of(xs).def_ in ELAPSED_FNS
            el_y = ys[0] == "call" and ftr.call_of(ys).def_ in ELAPSED_FNS
            if (el_x and op in ("Ge", "Gt")) or (el_y and op in ("Le", "Lt")):
                if best is None or g.dominates(best["bb"], e["bb"]):
                    best = e
        if best is None:
            continue
        tgt = best["sw"].variants.get(best["label"])
        if (best["bb"], tgt) in done:
            continue
        done.add((best["bb"], tgt))
        rets = [b for b in range(g.n) if g.term(b)["k"] == "return"]
        r = g.reach([tgt], kinds=(N,), avoid_nodes=sblocks) if tgt not in sblocks else set()
        leak = sorted(b for b in rets if b in r)
        rep.ob("C02.REFILL", skey(W, "refresh-start@%d" % len(done)), not leak, g.where(best["bb"]),
               "once the period is over (guard at %s) every way out of %s advances the window start (%s)" % (g.where(best["bb"]), short, ", ".join(sorted(snames))) if not leak else
               "past the elapsed-time guard at %s capacity is restored (%s at %s) but %s can be left without advancing the window start (%s): the guard "
               "stays true and every later call restores capacity again" % (g.where(best["bb"]), f, g.where(i, j), short, ", ".join(sorted(snames))))


def _mut_borrow_calls(facts, tr, adt, fname):
    """calls that receive `&mut self.<fname>` (in-place modification such as `+=` on a non-primitive)"""
    out = []
    for b in facts.crates[CRATE].bodies:
        g = graph(b)
        for c in g.calls():
            for a in c.args:
                pl = a.get("move") or a.get("copy")
                if pl is None or pl["p"]:
                    continue
                for d in g.reaching(pl["l"], c.loc):
                    if d[3] == "assign" and d[5]["k"] == "ref" and d[5]["bk"] == "mut":
                        pp = d[5]["place"]["p"]
                        if pp and isinstance(pp[-1], dict) and pp[-1].get("n") == fname and pp[-1].get("adt") == adt:
                            out.append((b, c))
    return out


TIME_FNS = ("std::time::Instant::now", "std::time::Instant::duration_since", "std::time::Instant::elapsed",
            "std::time::Instant::saturating_duration_since", "std::time::Instant::checked_duration_since")


def _time_derived(tr, node):
    return bool(calls_in(tr, node, lambda c: c.def_ in TIME_FNS))


def _timed_prefix_len(facts, tr, b, c):
    """`deque.drain(..n)` / `truncate` where n = entries.iter().take_while(|t| <age test>).count(): the removal is bounded by
    the number of entries that passed an elapsed-time test, one by one"""
    for a in c.args[1:]:
        node = tr.expand(tr.operand(b, a, c.loc), upvars=True)
        for cnt in calls_in(tr, node, lambda x: x.name == "count"):
            src = peel(tr.expand(tr.operand(cnt.g.b, cnt.args[0], cnt.loc)))
            if src[0] != "call" or tr.call_of(src).name not in ("take_while", "filter") or len(tr.call_of(src).args) < 2:
                continue
            fc = tr.call_of(src)
            clo = peel(tr.expand(tr.operand(fc.g.b, fc.args[1], fc.loc)))
            if clo[0] != "agg":
                continue
            cb_ = facts.bodies.get(tr.agg_of(clo)[1].get("def"))
            if cb_ is None:
                continue
            for (_i, _j, nd) in ret_assigns(tr, cb_):
                for lf in leaves(nd):
                    cm = normalise_cmp(tr, peel(lf))
                    if cm and any(calls_in(tr, side, lambda x: x.def_ in ("std::time::Instant::duration_since", "std::time::Instant::elapsed",
                                                                          "std::time::Instant::saturating_duration_since",
                                                                          "std::time::Instant::checked_duration_since")) for side in (cm[1], cm[2])):
                        return cnt
    return None


def _refill_ob(facts, tr, rep, W, b, i, j, short, fname, n, call=None):
    e = _time_guarded(tr, b, i)
    how = None
    if e is not None:
        how = "dominated by the elapsed-time guard at %s" % graph(b).where(e["bb"])
    elif call is not None and call.name in ("drain", "truncate", "split_off") and _timed_prefix_len(facts, tr, b, call) is not None:
        how = "limited to the leading entries that pass an elapsed-time test (%s)" % _timed_prefix_len(facts, tr, b, call).where()
    else:
        callers = tr.callers(b.def_)
        if callers and all(_time_guarded(tr, c.g.b, c.bb) is not None for c in callers):
            how = "its only callers (%s) are dominated by the elapsed-time guard" % ", ".join(c.where() for c in callers)
    rep.ob("C02.REFILL", skey(b, "refill.%s@%d" % (fname, _ordinal_write(b, i))), how is not None, where(b, i, j),
           "refill/eviction write of %s.%s is %s" % (short, fname, how) if how else
           "write of %s.%s is not guarded by an elapsed-time test: capacity would be restored without time passing" % (short, fname))


def _ordinal_write(b, bb):
    return sorted(i for i in range(len(b.blocks))).index(bb) if False else sum(1 for i in range(bb) if any(s["k"] == "assign" and s["lhs"]["p"] for s in b.blocks[i]["stmts"]))
