"""C15 — rate limiter decides every call within its timeout and rejected calls go nowhere."""
from ..core import graph, Call, peel, leaves, show, N
from ..util import *
from .rl_common import RL, CRATE
from .c02 import _is_ok_zero

EXPLANATION = (
    "Decides the bounded-wait wiring: (BOUND) every non-zero `Ok(wait)` answer of a window state is edge-dominated "
    "by `wait <= timeout_duration`; (ONE-SLEEP) the async acquire contains exactly one sleep await, outside any "
    "cycle, whose duration is that answer, and no other await — the state mutex is a std mutex whose guard is not "
    "live at any suspension point; the service awaits nothing else before the wrapped call; hence the total "
    "waiting per call is at most timeout_duration. (REJECT) the rate-limited error is constructed only on the Err "
    "edge of acquire().await, from which no wrapped call is reachable; the admitted path reaches exactly one "
    "wrapped call, outside any cycle. Not decided: window arithmetic ('permit of a later window', 'idle for two "
    "periods => no wait') — numeric/timing, residue of C02."
    ' (NO-PANIC-ARITH) no panicking Instant/Duration operator on configured periods/timeouts.')
RULE = "one obligation per non-zero Ok answer of each window state, per await of acquire and of the service coroutine, per error construction site"
TRUSTED = ["tokio::time::sleep sleeps at least and about the requested time", "std::sync::Mutex", "rustc MIR construction"]
ASSUMPTIONS = []
CONFIG_CRATES = ["tower_resilience_ratelimiter"]
TECHNIQUE = "static analysis of built MIR: guard dominance on returned waits, await inventory (suspension points), liveness of lock guards at yields, no-reach"


def run(facts, tr, rep):
    _n_ops = check_no_panicking_time_arith(facts, tr, rep, "C15.NO-PANIC-ARITH", facts.crates[CRATE].bodies)
    rep.note("panicking Instant/Duration operators examined in the crate: %d" % _n_ops)
    rl = RL(facts, tr, rep)
    if not rl.ok:
        rep.anchor_missing("rate limiter acquire / try-acquire functions")
        return
    # ---------------------------------------------------------------- BOUND
    rep.floor("C15.window-states", len(rl.windows), 3)
    facts0, tr0 = facts, tr
    facts, tr = facts.inl, tr.inl           # BOUND is local to each window state: analysed with its private helpers inlined
    for W in [facts.bodies[w.def_] for w in rl.windows]:
        rep.saw(W)
        g = graph(W)
        n = 0
        for (i, j, node) in ret_assigns(tr, W):
            if node[0] != "agg":
                continue
            b, rv = tr.agg_of(node)
            if rv.get("variant") != "Ok" or _is_ok_zero(tr, node):
                continue
            payload = peel(tr.expand(tr.operand(b, rv["ops"][0], (node[3], node[4]))))
            if payload[0] == "const":
                continue
            n += 1
            ok = False
            for e in dominating_edges(tr, W, i):
                if e["kind"] != "bool":
                    continue
                c = cmp_on_edge(tr, e)
                if c is None:
                    continue
                op, x, y = c
                if op in ("Le", "Lt") and x == payload and mentions_field(tr, y, "timeout_duration"):
                    ok = True
                if op in ("Ge", "Gt") and y == payload and mentions_field(tr, x, "timeout_duration"):
                    ok = True
            trunc = calls_in(tr, payload, lambda x: x.name in ("as_millis", "as_secs", "as_micros", "subsec_millis", "subsec_micros", "from_millis",
                                                               "from_secs", "from_micros", "as_secs_f32"))
            divs = []      # float division is not truncating; integer duration math goes through the as_*/from_* calls above
            rep.ob("C15.NONZERO-WAIT", skey(W, "ok-wait#%d" % (n - 1)), not trunc and not divs, g.where(i, j),
                   "the answered wait is not rounded: a remaining wait can never collapse to Duration::ZERO, which means 'permit taken' to the caller"
                   if not trunc and not divs else
                   "the answered wait is truncated (%s): a sub-unit wait becomes Ok(ZERO), which the caller reads as 'permit taken' and admits "
                   "the call without consuming a permit" % (trunc[0].name if trunc else "integer division"))
            rep.ob("C15.BOUND", skey(W, "ok-wait#%d" % (n - 1)), ok, g.where(i, j),
                   "a wait is answered only under wait <= timeout_duration" if ok else
                   "a wait longer than timeout_duration can be answered as Ok(wait): the caller would be held beyond its timeout")
        rep.floor("C15.ok-wait-returns:" + W.def_.split("::")[-2], n, 1)
    facts, tr = facts0, tr0
    # ---------------------------------------------------------------- ONE-SLEEP
    A = rl.acquire
    rep.saw(A)
    g = graph(A)
    aws = g.awaits()
    sleeps = [a for a in aws if a.fut_ty["s"].startswith("tokio::time::sleep::Sleep")]
    others = [a for a in aws if a not in sleeps]
    rep.ob("C15.ONE-SLEEP", skey(A, "awaits"), len(sleeps) == 1 and not others, "%s:%d" % (A.span["file"], A.span["line"]),
           "acquire suspends only in one sleep" if len(sleeps) == 1 and not others else
           "acquire has %d sleep await(s) and %d other await(s): %s" % (len(sleeps), len(others), [a.fut_ty["s"][:60] for a in others]))
    for a in sleeps:
        # not inside a cycle other than its own poll loop: the into_future block must not be reachable from the ready edge
        cyc = a.ready_bb is not None and a.into_bb in g.reach([a.ready_bb], kinds=(N,))
        rep.ob("C15.ONE-SLEEP", skey(A, "sleep-once"), not cyc, g.where(a.into_bb),
               "the sleep is not repeated (no path from its completion back to it)" if not cyc else
               "the sleep can be reached again after it completed: waiting is not bounded by one wait")
    # std mutex guards are not live at suspension points
    for a in aws:
        if a.yield_bb is None:
            continue
        live = [l for l in range(len(A.locals)) if "MutexGuard" in A.local_ty(l)["s"] and "Result<" not in A.local_ty(l)["s"][:30] and g.maybe_init(l, a.yield_bb)]
        rep.ob("C15.NO-LOCK-ACROSS-AWAIT", skey(A, "yield@L%s" % "sleep"), not live, g.where(a.yield_bb),
               "no mutex guard is held while suspended" if not live else "a mutex guard (%s) is live at a suspension point" % live)
    # ---------------------------------------------------------------- service
    rep.floor("C15.service-sites", len(rl.service_sites), 1)
    for (b, c, found) in rl.service_sites:
        rep.saw(b)
        gg = graph(b)
        k = skey(b, "inner-call#%d" % ordinal(gg, c))
        if found is None:
            rep.ob("C15.REJECT", k, False, c.where(), "wrapped call not preceded by acquire().await")
            continue
        a, ac, fb = found
        V = await_node(b, a)
        # awaits before the inner call: only acquire
        pre = [x for x in gg.awaits() if x is not a and x.into_bb is not None and c.bb in gg.reach([x.into_bb], kinds=(N,))
               and not x.fut_ty["s"].startswith("<S as tower_service::Service")]
        rep.ob("C15.ONE-SLEEP", skey(b, "awaits-before-call"), not pre, c.where(),
               "the service awaits nothing but acquire() before the wrapped call" if not pre else
               "the service awaits %s before the wrapped call" % [x.fut_ty["s"][:50] for x in pre])
        # error construction sites
        nerr = 0
        for i, blk in enumerate(b.blocks):
            for j, s in enumerate(blk["stmts"]):
                if s["k"] == "assign" and s["rv"]["k"] == "agg" and s["rv"]["ak"] == "adt" and s["rv"]["variant"] == "RateLimited":
                    nerr += 1
                    edges = dominating_edges(tr, b, i)
                    ok = any(e["kind"] == "enum" and e["label"] == "Err" and derives(tr, e["node"], V, variants=("Ready",)) for e in edges)
                    r = gg.reach([i], kinds=(N,))
                    reach_inner = any(gg.term(x)["k"] == "call" and Call(gg, x, gg.term(x)).def_ == "tower_service::Service::call"
                                      and Call(gg, x, gg.term(x)).self_kind in ("param", "ref_param") for x in r)
                    rep.ob("C15.REJECT", skey(b, "rate-limited#%d" % (nerr - 1)), ok and not reach_inner, gg.where(i, j),
                           "the rate-limited error is built only on the Err edge of acquire().await and no wrapped call follows" if ok and not reach_inner else
                           "the rate-limited error is %s" % ("followed by a wrapped call" if reach_inner else "built outside the Err edge of acquire().await"))
        rep.floor("C15.rate-limited-sites", nerr, 1)
        same = [x for (bb2, x, _f) in rl.service_sites if bb2 is b]
        rep.ob("C15.REJECT", skey(b, "one-inner-call"), len(same) == 1 and not gg.in_cycle(c.bb), c.where(),
               "the admitted path reaches exactly one wrapped call, outside any cycle" if len(same) == 1 and not gg.in_cycle(c.bb) else
               "%d wrapped-call sites / in cycle: %s" % (len(same), gg.in_cycle(c.bb)))
