"""C11 — coalesce runs one inner call per key and shares its result with all waiters."""
from ..core import graph, Call, peel, leaves, show, N, U
from ..util import *
from ..pair import Pair, in_observability_macro

EXPLANATION = (
    "Decides the registration discipline of the in-flight map on built MIR: (LOCK-REGION) the lookup and the "
    "insertion of a key happen under one lock guard, as do the removal and the broadcast of the result; "
    "(LEADER) the wrapped service is called only on the leader edge (the join attempt answered 'no call in "
    "flight'); (PAIR) from the leader edge to every exit of Service::call — including the unwind edge of the "
    "wrapped service's `call` — the registration is owned by a guard whose destructor removes it, and it is handed "
    "to the returned future with the key still present; (KEY-TAKEN-AFTER) inside the future's poll the key is "
    "taken only after the inner poll returned Ready, so a panic inside the inner poll leaves the key for the "
    "destructor; (KEY-TAKEN) on completion the key is taken out before `complete`, so a finished future that is "
    "dropped later cannot cancel a newer leader; (DROP) the future's destructor cancels whenever the key is still "
    "there; (WAIT) a waiter returns Pending only after arranging a wake-up, maps a closed channel to the "
    "leader-cancelled error and returns the received payload; (SHARE) clones share the in-flight map. Not "
    "decided: wall-clock promptness; that distinct keys never meet (map key equality, trusted)."
    ' Disarming a registration guard (`guard.key.take()`) is modelled: from there to the successor guard nobody owns the obligation. (ONLY-OWN-KEY) no bulk operation (retain/clear/drain) on the in-flight registry.')
RULE = "one obligation per lock region, per wrapped-call site, per exit class of the leader path, per take/complete/cancel site, per Pending return"
TRUSTED = ["parking_lot::Mutex", "tokio broadcast channel", "hashbrown::HashMap", "may-unwind policy table"]
ASSUMPTIONS = []
CONFIG_CRATES = ["tower_resilience_coalesce"]
TECHNIQUE = "static analysis of built MIR: lock-region rule, acquire/release pairing over unwind edges (RAII-aware), ordering of Option::take against the inner poll, lost-wakeup rule"

CRATE = "tower_resilience_coalesce"
MAP_METHODS = ("get", "get_mut", "contains_key", "insert", "remove", "entry", "remove_entry")


def _map_calls(tr, b):
    """(Call, method, guard-origin) for hash-map method calls whose receiver comes out of a lock guard"""
    out = []
    g = graph(b)
    for c in g.calls():
        if c.name in MAP_METHODS and "HashMap" in (c.path or "") and c.args:
            recv = tr.expand(tr.operand(b, c.args[0], c.loc))
            locks = calls_in(tr, recv, lambda x: x.name in ("lock", "write", "lock_arc") and "utex" in (x.path or ""))
            out.append((c, c.name, locks))
    return out


def run(facts, tr, rep):
    # shallow view: helper functions of the service and of its hand-written future are inlined (a `poll` split into
    # `poll_leading` / `poll_waiting`, a `lead()` method); the registry's methods stay calls and are found by role
    # the registry's role functions (join = lookup + insert, removers = remove; found by what they do to the map that
    # comes out of the lock) stay calls; every other private helper — including closure-taking ones, whose closures
    # are inlined where they are invoked — is looked through
    from ..inline import view_of
    keep = set()
    ff_, ftr_ = view_of(facts, "full")
    for b0 in facts.crates[CRATE].bodies:
        if b0.kind != "fn":
            continue
        # judged on the function's fully inlined body: the map operations may sit in methods of a private registry struct
        # that the function calls with the lock held
        bv0 = ff_.bodies.get(b0.def_) or b0
        mc0 = _map_calls(ftr_, bv0)
        names0 = {m for (_c, m, _l) in mc0}
        if not mc0 or not all(ls for (_c, _m, ls) in mc0):
            continue
        if ("insert" in names0 and ({"get", "contains_key", "entry", "get_mut"} & names0)) or "remove" in names0 or "remove_entry" in names0:
            keep.add(b0.def_)
    # ... the innermost such functions: one that reaches another candidate (Service::call reaches try_join) is a user of the roles

    def _reaches(d, depth=0, seen=None):
        seen = seen if seen is not None else set()
        b_ = facts.bodies.get(d)
        if b_ is None or depth > 4 or d in seen:
            return set()
        seen.add(d)
        out = set()
        for x in descendants(facts, b_):
            for c in graph(x).calls():
                for t in c.targets_def():
                    if facts.bodies.get(t) is not None and t != d:
                        out.add(t)
                        out |= _reaches(t, depth + 1, seen)
        return out
    for d in sorted(keep):
        if _reaches(d) & (keep - {d}):
            keep.discard(d)
    # methods that only forward a key to a remover (a shared `cancel_registered`) keep their role too
    for _round in range(2):
        for b0 in facts.crates[CRATE].bodies:
            if b0.kind == "fn" and b0.def_ not in keep and b0.impl and any(set(c0.targets_def()) & keep for c0 in graph(b0).calls()) \
                    and any(facts.bodies.get(k_) is not None and facts.bodies[k_].impl and facts.bodies[k_].impl.get("self_ty") == b0.impl.get("self_ty") for k_ in keep):
                keep.add(b0.def_)
    facts, tr = view_of(facts, keep)
    sbs = service_call_bodies(facts, crate=CRATE)
    if not sbs:
        rep.anchor_missing("Service::call of the coalesce service")
        return
    sb = sbs[0]
    rep.saw(sb)
    g = graph(sb)
    # ---------------------------------------------------------------- join / complete / cancel functions (by role)
    joins, removers = [], []
    for b in facts.crates[CRATE].bodies:
        if b.kind != "fn" or facts.absorbed(b):
            continue        # (a helper inlined into every role function is judged there, with the lock in view)
        mc = _map_calls(tr, b)
        names = {m for (_c, m, _l) in mc}
        if "insert" in names and ({"get", "contains_key", "entry", "get_mut"} & names):
            joins.append((b, mc))
        if "remove" in names or "remove_entry" in names:
            removers.append((b, mc))
    rep.floor("C11.join-functions", len(joins), 1)
    rep.floor("C11.remove-functions", len(removers), 2)
    for (b, mc) in joins:
        rep.saw(b)
        locks = {l.bb for (_c, _m, ls) in mc for l in ls}
        every = all(ls for (_c, _m, ls) in mc)
        rep.ob("C11.LOCK-REGION", skey(b, "lookup+insert"), every and len(locks) == 1, "%s:%d" % (b.span["file"], b.span["line"]),
               "the key lookup and the registration use one lock guard (decision and registration are atomic)" if every and len(locks) == 1 else
               "lookup and insertion of the key are not under one lock guard (%d lock sites): two requests can both become leader" % len(locks))
    for (b, mc) in removers:
        rep.saw(b)
        gb = graph(b)
        locks = {l.bb for (_c, _m, ls) in mc for l in ls}
        sends = [c for c in gb.calls() if c.name == "send" and "broadcast" in (c.def_ or "")]
        ok = all(ls for (_c, _m, ls) in mc) and len(locks) == 1
        if sends:
            # guard still held at the send: the guard local is maybe-initialised there
            gl = [l for l in range(len(b.locals)) if "MutexGuard" in b.local_ty(l)["s"]]
            ok = ok and all(any(gb.maybe_init(l, s.bb) for l in gl) for s in sends)
        rep.ob("C11.LOCK-REGION", skey(b, "remove" + ("+send" if sends else "")), ok, "%s:%d" % (b.span["file"], b.span["line"]),
               "removal%s happens under one lock guard" % (" and broadcast of the result" if sends else "") if ok else
               "removal / broadcast are not under one lock guard")
    # ONLY-OWN-KEY: the registry is touched one key at a time; a bulk operation (retain / clear / drain / extract_if)
    # on the map that comes out of the lock removes registrations of *other* keys whose calls are still in flight
    BULK = ("retain", "clear", "drain", "extract_if", "retain_mut")
    nbulk = 0
    for b in facts.crates[CRATE].bodies:
        for c in graph(b).calls():
            if c.name in BULK and "HashMap" in (c.path or "") and c.args:
                recv = tr.expand(tr.operand(b, c.args[0], c.loc))
                if calls_in(tr, recv, lambda x: x.name in ("lock", "write", "lock_arc") and "utex" in (x.path or "")):
                    nbulk += 1
                    rep.saw(b)
                    rep.ob("C11.ONLY-OWN-KEY", skey(b, "%s#%d" % (c.name, ordinal(graph(b), c))), False, c.where(),
                           "`%s` on the in-flight registry removes entries of keys other than the caller's own: a leader still running "
                           "loses its registration, the next request for that key starts a second inner call and waiters of the first "
                           "are never notified" % c.name)
    rep.ob("C11.ONLY-OWN-KEY", "%s|registry-bulk-ops" % CRATE, nbulk == 0, "-",
           "the in-flight registry is only modified one key at a time (insert/remove by key)" if nbulk == 0 else "%d bulk operation(s) on the registry" % nbulk)
    join_defs = {b.def_ for (b, _mc) in joins}
    remover_defs = {b.def_ for (b, _mc) in removers}
    # a registry method that does nothing but hand its key to a remover releases too (e.g. a shared
    # `cancel_registered(&mut Option<K>)` used by both destructors): methods of the same type that call a remover
    # on every path that finds a key
    reg_adts = {b.types[b.impl["self_ty"]].get("def") for (b, _mc) in removers if b.impl}
    for _round in range(2):
        for b in facts.crates[CRATE].bodies:
            if b.kind != "fn" or b.def_ in remover_defs or not b.impl or b.types[b.impl["self_ty"]].get("def") not in reg_adts:
                continue
            if any(set(c.targets_def()) & remover_defs for c in graph(b).calls()) and not any(m == "insert" for (_c, m, _l) in _map_calls(tr, b)):
                remover_defs.add(b.def_)
    # ---------------------------------------------------------------- LEADER
    sites = inner_calls(facts, sb)
    rep.floor("C11.inner-call-sites", len(sites), 1)
    leader_edges = []
    for (b, c) in sites:
        gb = graph(b)
        ok = False
        for e in dominating_edges(tr, b, c.bb):
            if e["kind"] == "enum" and e["label"] == "None" and e["node"][0] == "call" and set(tr.call_of(e["node"]).targets_def()) & join_defs:
                ok = True
                leader_edges.append((b, e))
            if e["kind"] == "bool" and e["node"][0] == "call" and set(tr.call_of(e["node"]).targets_def()) & join_defs:
                ok = True
                leader_edges.append((b, e))
        rep.ob("C11.LEADER", skey(b, "inner-call#%d" % ordinal(gb, c)), ok and not gb.in_cycle(c.bb), c.where(),
               "the wrapped service is called only on the leader edge of the join attempt, once" if ok and not gb.in_cycle(c.bb) else
               "the wrapped service is called outside the leader edge (a waiter would start its own inner call)")
    # ---------------------------------------------------------------- PAIR from the leader edge
    def is_release(body, c):
        return bool(set(c.targets_def()) & remover_defs) or (c.name in ("remove", "remove_entry") and "HashMap" in (c.path or ""))
    P = Pair(facts, tr, is_release)
    rep.note("guard types whose Drop removes the registration: %s" % sorted(P.guard_types))
    for (b, e) in leader_edges[:1]:
        sw = e["sw"]
        start = sw.variants.get(e["label"]) if e["kind"] == "enum" else sw.variants.get("true")
        viol, transfers = P.explore(b, start, None, came_from=e["bb"])
        classes = {}
        for (kind, wherex, path) in viol:
            classes.setdefault(kind, (wherex, path))
        gb = graph(b)
        for kind, (wherex, path) in classes.items():
            if kind == "return":
                continue    # hand-over to the returned future is checked by HANDOVER below
            rep.ob("C11.PAIR", skey(b, "leader-edge|exit:%s" % kind), False, wherex,
                   "after this request registered itself as leader, %s leaves the key registered with no owner to cancel it: every "
                   "later request for the key waits forever; path %s" %
                   ({"resume": "unwinding (e.g. a panic in the wrapped service's `call`)", "unwind-exit": "unwinding", "forget": "forgetting the guard",
                     "coroutine_drop": "dropping the future"}.get(kind, kind), P.describe_path(b, path)))
        if not [k for k in classes if k != "return"]:
            rep.ob("C11.PAIR", skey(b, "leader-edge"), True, gb.where(e["bb"]),
                   "from the leader edge every unwinding exit runs a destructor that removes the registration")
        # HANDOVER: the returned future owns the key (Some) and the same map
        hand = False
        for (i, j, node) in ret_assigns(tr, b):
            if node[0] != "agg" or not gb.edge_dominates((e["bb"], start), i):
                continue
            _b2, rv = tr.agg_of(node)
            if rv["def"] not in P.guard_types:
                rep.ob("C11.HANDOVER", skey(b, "returned-future"), False, gb.where(i, j),
                       "the leader path returns a %s, whose destructor does not remove the registration" % rv["def"].split("::")[-1])
                hand = True
                continue
            hand = True
            kf = [f for f in rv["fields"] if "key" in f]
            okk = False
            desc = "no key field"
            for f in kf:
                v = peel(tr.expand(tr.operand(b, rv["ops"][rv["fields"].index(f)], (i, j))))
                # Some(key) or the value taken out of the registration guard (`guard.key.take()`, or a `release()` of the
                # guard's own claim type that answers Some(key) for a held claim)
                for lf in [peel(x) for x in leaves(v)]:
                    if lf[0] == "agg" and tr.agg_of(lf)[1].get("variant") == "Some":
                        okk = True
                    elif lf[0] == "call" and tr.call_of(lf).name in ("take", "replace"):
                        okk = True
                desc = show(v)
            rep.ob("C11.HANDOVER", skey(b, "returned-future"), okk, gb.where(i, j),
                   "the returned leading future takes over the registration (its key is present)" if okk else
                   "the returned leading future does not own the key (%s): nothing cancels the registration on drop" % desc)
        if not hand:
            rep.ob("C11.HANDOVER", skey(b, "returned-future"), False, gb.where(e["bb"]), "the leader path does not return a guard-typed future")
    # ---------------------------------------------------------------- the future: poll and Drop
    fut_adt = None
    for t in P.guard_types:
        a = facts.adt(t)
        if a and a["kind"] == "enum":
            fut_adt = t
    if fut_adt is None:
        rep.ob("C11.DROP", "%s|future-drop" % CRATE, False, "-", "no future type whose destructor cancels the registration")
        return
    poll = dropb = None
    for im in facts.crates[CRATE].impls:
        st = facts.crates[CRATE].types[im["self_ty"]]
        if st.get("def") != fut_adt:
            continue
        for it in im["items"]:
            if im.get("trait") == "core::future::future::Future" and it["name"] == "poll":
                poll = facts.bodies.get(it["def"])
            if im.get("trait") == "core::ops::drop::Drop" and it["name"] == "drop":
                dropb = facts.bodies.get(it["def"])
    if poll is None or dropb is None:
        rep.anchor_missing("Future::poll / Drop::drop of " + fut_adt)
        return
    rep.saw(poll)
    rep.saw(dropb)
    # DROP: cancel dominated only by variant + key-present tests (on the destructor's fully inlined body: a shared
    # "take the key and cancel" helper of the registry is looked through)
    from ..inline import view_of
    ffacts_, ftr_ = view_of(facts, "full")
    tr_s, dropb_s = tr, dropb
    dropb = ffacts_.bodies.get(dropb.def_) or dropb
    tr = ftr_
    gd = graph(dropb)
    rel = [c for c in gd.calls() if is_release(dropb, c)]
    okd = bool(rel)
    for c in rel:
        bools = [e for e in dominating_edges(tr, dropb, c.bb) if e["kind"] == "bool" and not in_observability_macro(gd.term(e["bb"]))]
        somes = [e for e in dominating_edges(tr, dropb, c.bb) if e["kind"] == "enum" and e["label"] == "Some"]
        okd = okd and not bools and bool(somes)
    rep.ob("C11.DROP", skey(dropb, "cancel"), okd, "%s:%d" % (dropb.span["file"], dropb.span["line"]),
           "dropping a leading future cancels its registration whenever its key is still present" if okd else
           "the destructor does not cancel unconditionally when the key is present")
    # poll
    gp = graph(poll)
    inner_polls = [c for c in gp.calls() if c.def_ == "core::future::future::Future::poll" and c.self_kind in ("alias", "param", "dyn")]
    # the key field = the Option field the destructor takes
    key_field = None
    for c in gd.calls():
        if c.name == "take" and "Option" in (c.path or "") and c.args:
            recv = peel(tr.expand(tr.operand(dropb, c.args[0], c.loc)))
            if recv[0] == "field":
                key_field = recv[2]
    dropb = dropb_s
    # the completion protocol of `poll` is judged on its fully inlined body as well (a `publish(key, &result)` helper
    # of the registry, a poll split into per-variant functions)
    poll = ffacts_.bodies.get(poll.def_) or poll
    gp = graph(poll)
    inner_polls = [c for c in gp.calls() if c.def_ == "core::future::future::Future::poll" and c.self_kind in ("alias", "param", "dyn")]
    takes = [c for c in gp.calls() if c.name == "take" and "Option" in (c.path or "")]
    key_takes = []
    for c in takes:
        recv = peel(tr.expand(tr.operand(poll, c.args[0], c.loc)))
        if recv[0] == "field" and recv[2] == key_field:
            key_takes.append(c)
    # a private helper that receives `&mut key`, takes it and completes with it counts as take + complete at its call site
    helper_completes = []
    for c in gp.calls():
        node = ("call", poll.crate.name, poll.def_, c.bb)
        hb = tr.local_sync_callee(node)
        if hb is None or hb.crate.name != CRATE or hb.def_ in remover_defs:
            continue
        passes_key = False
        for a in c.args:
            n = peel(tr.expand(tr.operand(poll, a, c.loc)))
            if n[0] == "field" and n[2] == key_field:
                passes_key = True
        if not passes_key:
            continue
        hg = graph(hb)
        with tr.bound(hb, node):
            htakes = [x for x in hg.calls() if x.name == "take" and "Option" in (x.path or "")
                      and peel(tr.expand(tr.operand(hb, x.args[0], x.loc), upvars=True))[0] == "field"
                      and peel(tr.expand(tr.operand(hb, x.args[0], x.loc), upvars=True))[2] == key_field]
        hrel = [x for x in hg.calls() if is_release(hb, x)]
        rel_from_take = bool(hrel) and all(calls_in(tr, tr.expand(tr.operand(hb, x.args[1], x.loc)), lambda y: y.name == "take" and "Option" in (y.path or "")) for x in hrel if len(x.args) > 1)
        # on every path through the helper the key is taken
        if htakes:
            r_ = hg.reach([0], kinds=(N,), avoid_nodes=[x.bb for x in htakes])
            always = not any(hg.term(x)["k"] == "return" for x in r_)
        else:
            always = False
        if htakes and always:
            key_takes.append(c)
            rep.saw(hb)
            if hrel and rel_from_take:
                helper_completes.append(c)
    rep.floor("C11.inner-poll-sites", len(inner_polls), 1)
    rep.floor("C11.key-take-sites", len(key_takes), 1)
    for n, ip in enumerate(inner_polls):
        # KEY-TAKEN-AFTER: no take of the key can precede the inner poll
        before = [t for t in key_takes if ip.bb in gp.reach([t.bb], kinds=(N,))]
        rep.ob("C11.KEY-TAKEN-AFTER", skey(poll, "inner-poll#%d" % n), not before, ip.where(),
               "the key is still in place while the inner future is polled: if that poll panics the destructor cancels the registration" if not before else
               "the key is taken (%s) before the inner future is polled: a panic inside the inner poll unwinds with the key gone, the destructor "
               "skips the cancel and the registration leaks" % before[0].where())
        # KEY-TAKEN: on the Ready edge every path to return passes a key take, and complete's key comes from it
        sw = gp.switch(ip.target) if ip.target is not None else None
        if sw is None or "Ready" not in sw.variants:
            rep.ob("C11.KEY-TAKEN", skey(poll, "ready#%d" % n), False, ip.where(), "inner poll result is not matched on Ready/Pending")
            continue
        rb = sw.variants["Ready"]
        r = gp.reach([rb], kinds=(N,), avoid_nodes=[t.bb for t in key_takes])
        leak = [x for x in r if gp.term(x)["k"] == "return"]
        comp = [c for c in gp.calls() if is_release(poll, c) and c.bb in gp.reach([rb], kinds=(N,))]
        hcomp = [c for c in helper_completes if c.bb in gp.reach([rb], kinds=(N,))]
        from_take = bool(comp) or bool(hcomp)
        for c in comp:
            kk = tr.expand(tr.operand(poll, c.args[1], c.loc)) if len(c.args) > 1 else ("unknown",)
            if not calls_in(tr, kk, lambda x: x.name == "take" and "Option" in (x.path or "")):
                from_take = False
        rep.ob("C11.KEY-TAKEN", skey(poll, "ready#%d" % n), not leak and from_take, gp.where(rb),
               "on completion the key is taken out of the future and the registration is completed with it" if not leak and from_take else
               "on completion the future keeps its key: when it is dropped later its destructor cancels whatever is registered for that key "
               "then — possibly a newer leader's call" if leak or not from_take else "")
        # the shared result: complete() receives clones of the polled result
    # WAIT arm
    npend = 0
    for (i, j, node_) in ret_assigns(tr, poll):
        for lf_ in leaves(node_):
            lf_ = peel(lf_)
            if lf_[0] == "agg" and tr.agg_of(lf_)[1].get("variant") == "Pending":
                i, j = lf_[3], lf_[4]
                npend += 1
                # fine if it is the Pending edge of a delegated poll with the same cx
                delegated = False
                for e in dominating_edges(tr, poll, i):
                    if e["kind"] == "enum" and e["label"] == "Pending" and e["node"][0] == "call":
                        cc = tr.call_of(e["node"])
                        if cc.name == "poll" and len(cc.args) > 1:
                            cx = peel(tr.expand(tr.operand(poll, cc.args[1], cc.loc)))
                            delegated = cx[0] == "param" and cx[3] == 2
                wakes = [c.bb for c in gp.calls() if c.name in ("wake_by_ref", "wake") or (c.name in ("clone",) and "Waker" in (c.path or ""))]
                r = gp.reach([0], kinds=(N,), avoid_nodes=wakes)
                woken = i not in r
                rep.ob("C11.WAIT", skey(poll, "pending#%d" % (npend - 1)), delegated or woken, gp.where(i, j),
                       "Pending is returned only on the Pending edge of the delegated inner poll or after arranging a wake-up" if delegated or woken else
                       "Pending is returned without a wake-up being arranged (lost wake-up: the waiter would hang)")
    rep.floor("C11.pending-returns", npend, 2)
    # closed channel -> LeaderCancelled
    lc = 0
    for i, blk in enumerate(poll.blocks):
        for j, s in enumerate(blk["stmts"]):
            if s["k"] == "assign" and s["rv"]["k"] == "agg" and s["rv"].get("variant") == "LeaderCancelled":
                lc += 1
                ok = any(e["kind"] == "enum" and e["label"] == "Closed" for e in dominating_edges(tr, poll, i))
                rep.ob("C11.WAIT", skey(poll, "leader-cancelled#%d" % (lc - 1)), ok, gp.where(i, j),
                       "leader-cancelled is reported exactly on the closed-channel edge" if ok else "leader-cancelled reported off the closed-channel edge")
    rep.floor("C11.leader-cancelled-sites", lc, 1)
    # SHARE
    st = sb.types[sb.impl["self_ty"]]
    n = check_share(facts, tr, rep, "C11.SHARE", st["def"])
    rep.floor("C11.share-fields", n, 2)
