"""Discovery shared by the bulkhead properties (C01, C07)."""
from ..core import graph, Call, peel, leaves, show, N, U, D
from ..util import *

CRATE = "tower_resilience_bulkhead"
PERMIT = "tokio::sync::semaphore::OwnedSemaphorePermit"
ACQUIRE = ("acquire_owned", "acquire_many_owned", "try_acquire_owned", "try_acquire_many_owned")


class BH:
    def __init__(self, facts, tr, rep):
        self.facts, self.tr, self.rep = facts, tr, rep
        self.services = service_call_bodies(facts, crate=CRATE)
        self.sites = []     # (service fn body, body containing the inner call, Call)
        for sb in self.services:
            for (b, c) in inner_calls(facts, sb):
                self.sites.append((sb, b, c))
        self.cor = None
        for (sb, b, c) in self.sites:
            if b.kind == "coroutine":
                self.cor = b
        if self.cor is None:
            for sb in self.services:
                for d in descendants(facts, sb):
                    if d.kind == "coroutine":
                        self.cor = d

    def permit_locals(self, b):
        return [l for l in range(len(b.locals)) if b.local_ty(l).get("def") == PERMIT]

    def permit_bindings(self, b):
        """blocks where a permit value first materialises: `P = move (X as Ok).0` (payload of an acquire result), or
        `(X as Some).0` of such a result turned into an Option (`try_acquire_owned().ok()`)"""
        out = []
        pls = set(self.permit_locals(b))
        for i, blk in enumerate(b.blocks):
            for j, s in enumerate(blk["stmts"]):
                if s["k"] != "assign" or s["lhs"]["p"] or s["lhs"]["l"] not in pls or s["rv"]["k"] != "use":
                    continue
                src = s["rv"]["op"].get("move") or s["rv"]["op"].get("copy")
                if src is None or not src["p"]:
                    continue
                if any(isinstance(e, dict) and e.get("v") in ("Ok", "Some") for e in src["p"]):
                    out.append((i, j, s["lhs"]["l"]))
        return out

    def acquire_awaits(self, b):
        """awaits whose awaitee is acquire_owned(..) directly or wrapped in tokio::time::timeout"""
        out = []
        g = graph(b)
        for a in g.awaits():
            if a.poll_bb is None:
                continue
            for ac in awaited_calls(self.tr, b, a):
                kind = None
                acq = None
                if ac.name in ACQUIRE:
                    kind, acq = "plain", ac
                elif ac.def_ and ac.def_.startswith(("tokio::time::timeout::timeout_at", "tokio::time::timeout::timeout")) and len(ac.args) > 1:
                    inner = peel(self.tr.expand(self.tr.operand(b, ac.args[1], ac.loc)))
                    if inner[0] == "call" and self.tr.call_of(inner).name in ACQUIRE:
                        kind, acq = "timeout", self.tr.call_of(inner)
                if kind:
                    out.append((a, kind, ac, acq))
        return out
