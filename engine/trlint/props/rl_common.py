"""Discovery shared by the rate-limiter properties (C02, C15)."""
from ..core import graph, Call, peel, leaves, show, N
from ..util import *

CRATE = "tower_resilience_ratelimiter"


class RL:
    def __init__(self, facts, tr, rep):
        self.facts, self.tr, self.rep = facts, tr, rep
        self.ok = False
        self.service_sites = []       # (coroutine body, inner Call, await record of acquire, acquire Call)
        self.acquire = None           # coroutine body of the async acquire fn
        for sb in service_call_bodies(facts, crate=CRATE):
            for (b, c) in inner_calls(facts, sb):
                g = graph(b)
                found = None
                for a in g.awaits():
                    if a.poll_bb is None:
                        continue
                    ac = awaited_call(tr, b, a)
                    if ac is None:
                        continue
                    for d in ac.targets_def():
                        fb = facts.bodies.get(d)
                        if fb is not None and fb.crate.name == CRATE and fb.j.get("is_async"):
                            found = (a, ac, fb)
                self.service_sites.append((b, c, found))
                if found and self.acquire is None:
                    kids = [x for x in facts.children.get(found[2].def_, []) if x.kind == "coroutine"]
                    if kids:
                        self.acquire = kids[0]
        if self.acquire is None:
            return
        self.afacts, self.atr = facts, tr
        A = self.acquire
        RT = "core::result::Result<core::time::Duration"

        def local_callees(fb):
            out = []
            for c in graph(fb).calls():
                for d in c.targets_def():
                    k = facts.bodies.get(d)
                    if k is not None and k.crate.name == CRATE and k.kind == "fn" and k is not fb and not k.j.get("is_async"):
                        out.append(k)
            return out
        # everything the acquire future reaches through workspace-local synchronous functions (whatever they return:
        # a classification step such as `admit() -> Admission` may sit between acquire and the try-acquire functions)
        reach, work = {}, list(local_callees(A))
        while work:
            fb = work.pop()
            if fb.def_ in reach:
                continue
            reach[fb.def_] = fb
            work += local_callees(fb)

        def below(fb):
            seen, st = {}, list(local_callees(fb))
            while st:
                k = st.pop()
                if k.def_ in seen:
                    continue
                seen[k.def_] = k
                st += local_callees(k)
            return list(seen.values())
        cands = [fb for fb in reach.values() if fb.local_ty(0)["s"].startswith(RT)]
        is_state_method = lambda fb: bool(self.self_adt(fb) and facts.adt(self.self_adt(fb)) is not None)
        # window states: the try-acquire functions that are methods of a state struct and have no such method below
        # them (a free "wait or reject" helper below a state is part of that state)
        self.windows = []
        for fb in cands:
            if not is_state_method(fb):
                continue
            lower = [k for k in below(fb) if k.local_ty(0)["s"].startswith(RT) and is_state_method(k)]
            if not lower:
                self.windows.append(fb)
        self.windows.sort(key=lambda b: b.def_)
        rty = self.windows[0].local_ty(0)["s"] if self.windows else None
        # the dispatcher: the top-most function with the windows' return type (the enum that selects the window)
        same = [fb for fb in cands if fb.local_ty(0)["s"] == rty]
        tops = [fb for fb in same if not any(fb.def_ in {k.def_ for k in below(o)} for o in same if o is not fb)]
        self.dispatch = tops[0] if len(tops) == 1 else None
        # the acquire future is analysed with every helper between it and the try-acquire functions inlined
        keep = {w.def_ for w in self.windows} | {fb.def_ for fb in tops}
        from ..inline import view_of
        self.afacts, self.atr = view_of(facts, keep)
        A = self.acquire = self.afacts.bodies.get(self.acquire.def_) or self.acquire
        self.tcalls = []
        for c in graph(A).calls():
            for d in c.targets_def():
                fb = facts.bodies.get(d)
                if fb is not None and fb.def_ in {t.def_ for t in tops}:
                    self.tcalls.append((c, fb))
        self.ok = bool(self.tcalls)

    def self_adt(self, body):
        if body.arg_count < 1:
            return None
        t = body.local_ty(1)
        while t.get("k") == "ref":
            t = body.types[t["args"][0]]
        return t.get("def")
