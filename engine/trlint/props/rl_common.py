"""Discovery shared by the rate-limiter properties (C02, C15)."""
from ..core import graph, Call, peel, leaves, show, N
from ..util import *

CRATE = "tower_resilience_ratelimiter"


class RL:
    def __init__(self, facts, tr, rep):
        self.facts, self.tr, self.rep = facts, tr, rep
        self.ok = False
        self.service_sites = []       # (coroutine body, inner Call, await record of acquire, acquire Call)
        self.acquire = None           # coroutine body of the async acquire fn
        for sb in service_call_bodies(facts, crate=CRATE):
            for (b, c) in inner_calls(facts, sb):
                g = graph(b)
                found = None
                for a in g.awaits():
                    if a.poll_bb is None:
                        continue
                    ac = awaited_call(tr, b, a)
                    if ac is None:
                        continue
                    for d in ac.targets_def():
                        fb = facts.bodies.get(d)
                        if fb is not None and fb.crate.name == CRATE and fb.j.get("is_async"):
                            found = (a, ac, fb)
                self.service_sites.append((b, c, found))
                if found and self.acquire is None:
                    kids = [x for x in facts.children.get(found[2].def_, []) if x.kind == "coroutine"]
                    if kids:
                        self.acquire = kids[0]
        if self.acquire is None:
            return
        A = self.acquire
        g = graph(A)
        # the try-acquire dispatcher: workspace-local non-async fn called from acquire whose result is a Result<Duration, _>
        self.tcalls = []
        for c in g.calls():
            for d in c.targets_def():
                fb = facts.bodies.get(d)
                if fb is not None and fb.crate.name == CRATE and fb.kind == "fn" and "core::result::Result<core::time::Duration" in fb.local_ty(0)["s"]:
                    self.tcalls.append((c, fb))
        self.dispatch = self.tcalls[0][1] if self.tcalls else None
        # window states: the leaves of the call tree of workspace-local functions with that return type
        # (wrappers such as a lock-and-try helper or the enum dispatcher are looked through)
        self.windows = []
        if self.dispatch is not None:
            rty = self.dispatch.local_ty(0)["s"]
            seen, work = set(), [fb for (_c, fb) in self.tcalls]
            while work:
                fb = work.pop()
                if fb.def_ in seen:
                    continue
                seen.add(fb.def_)
                kids = []
                for c in graph(fb).calls():
                    for d in c.targets_def():
                        k = facts.bodies.get(d)
                        if k is not None and k.crate.name == CRATE and k.kind == "fn" and k.local_ty(0)["s"] == rty and k is not fb:
                            kids.append(k)
                if kids:
                    work += kids
                elif fb not in self.windows and self.self_adt(fb) and facts.adt(self.self_adt(fb)) is not None:
                    # a window state is a method of a state struct; a free helper with the same return type
                    # (e.g. the shared "wait or reject" tail) is analysed inlined into the states that use it
                    self.windows.append(fb)
            # a state whose only same-typed callees are free helpers is a leaf itself
            for d in sorted(seen):
                fb = facts.bodies.get(d)
                if fb is None or fb in self.windows or not (self.self_adt(fb) and facts.adt(self.self_adt(fb)) is not None):
                    continue
                kids = [facts.bodies.get(x) for c in graph(fb).calls() for x in c.targets_def()]
                kids = [k for k in kids if k is not None and k.crate.name == CRATE and k.kind == "fn" and k.local_ty(0)["s"] == rty and k is not fb]
                if kids and all(not (self.self_adt(k) and facts.adt(self.self_adt(k)) is not None) for k in kids):
                    self.windows.append(fb)
            self.windows.sort(key=lambda b: b.def_)
        self.ok = bool(self.tcalls)

    def self_adt(self, body):
        if body.arg_count < 1:
            return None
        t = body.local_ty(1)
        while t.get("k") == "ref":
            t = body.types[t["args"][0]]
        return t.get("def")
