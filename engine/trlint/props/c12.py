"""C12 — hedge starts a bounded number of attempts and fails only when all have failed."""
from ..core import graph, Call, peel, leaves, show, N
from ..util import *

EXPLANATION = (
    "Hedge start instants (delay after the previous start) live inside the tokio::select! expansion and tokio's "
    "timer and are NOT decided; nor is the latency-mode attempt bound as a select! branch precondition (only the "
    "weaker counter discipline below). Decided: (EVIDENCE) every construction of the all-attempts-failed error is "
    "edge-dominated by the `None` answer of an awaited Receiver::recv — the channel is closed — and by the drop of "
    "the function's own Sender, so `None` means every spawned attempt has reported; no failure is reported on a "
    "single attempt's error; (ATTEMPT) each spawned attempt body performs exactly one wrapped-service call, "
    "outside any cycle, and sends its result into that channel (3 spawn sites); (PARALLEL-BOUND) the parallel-mode "
    "loop ranges over 1..max_hedged_attempts with one spawn per iteration: max-1 hedges besides the primary; "
    "(LATENCY-COUNT) the latency-mode spawn is preceded by exactly one increment of the spawned-hedges counter, "
    "which nothing else writes, and the comparison counter+1 < max_hedged_attempts exists as its precondition; "
    "(FIRST-SUCCESS) on the Ok edge of a received result the function returns that payload without suspending."
    ' (AWAITS) the coordinating future suspends only in the race between the result channel and the hedge timer, or on the result channel; a `Sleep::reset` must be armed at now() + get_delay(..).'
    " (EXHAUST) an attempt's error ends the hedging phase only when no further hedge can be started. (EVIDENCE receiver-stays-open) the coordinator never closes the result receiver at a point from which the all-attempts-failed report is reachable.")
RULE = "one obligation per AllAttemptsFailed construction, per spawned attempt body, per loop / counter site, per Ok edge of a received result"
TRUSTED = ["tokio mpsc channel (recv() == None iff all senders dropped and buffer empty)", "tokio::spawn", "tokio::select! macro expansion"]
ASSUMPTIONS = ["max_hedged_attempts is the public configuration name of the bound"]
CONFIG_CRATES = ["tower_resilience_hedge"]
TECHNIQUE = "static analysis of built MIR: evidence rule (edge dominance on channel closure), counting-loop recognition, value-flow through the result channel"

CRATE = "tower_resilience_hedge"


def _is_recv_helper(facts, tr, ac):
    """the awaited call is a local async fn whose only await is `recv()` and which returns that await's result"""
    for d in ac.targets_def():
        hb2 = facts.bodies.get(d)
        if hb2 is None or hb2.crate.name != CRATE or not hb2.j.get("is_async"):
            continue
        kids = [k for k in facts.children.get(hb2.def_, []) if k.kind == "coroutine"]
        if len(kids) != 1:
            continue
        k = kids[0]
        gk = graph(k)
        aws = [a for a in gk.awaits() if a.poll_bb is not None]
        if len(aws) != 1:
            continue
        ac2 = awaited_call(tr, k, aws[0])
        if ac2 is None or ac2.name != "recv" or "mpsc" not in (ac2.def_ or ac2.path or ""):
            continue
        V = await_node(k, aws[0])
        rets = ret_assigns(tr, k)
        if rets and all(derives(tr, peel(lf), V, variants=("Ready",)) for (_i, _j, nd) in rets for lf in leaves(nd)):
            return True
    return False


def run(facts, tr, rep):
    facts, tr = facts.shallow, tr.shallow        # the hedging future is analysed with its private helper functions (sync and async) inlined; methods of the delay policy stay calls
    _n_ops = check_no_panicking_time_arith(facts, tr, rep, "C12.NO-PANIC-ARITH", facts.crates[CRATE].bodies)
    rep.note("panicking Instant/Duration operators examined in the crate: %d" % _n_ops)
    # the hedging coroutine: the body with tokio::spawn sites reachable from Hedge's Service::call
    hb = None
    for sb in service_call_bodies(facts, crate=CRATE):
        stack = descendants(facts, sb)
        seen = set()
        while stack:
            b = stack.pop()
            if b.def_ in seen:
                continue
            seen.add(b.def_)
            g = graph(b)
            if any(c.name == "channel" and "mpsc" in (c.def_ or "") for c in g.calls()):
                # the body the channel lives in: as written, or - when that body is an async helper awaited in
                # place by exactly one caller - the caller it was inlined into
                if hb is None or (getattr(facts, "absorbed", None) is not None and facts.absorbed(hb) and not facts.absorbed(b)):
                    hb = b
            for c in g.calls():
                for d in c.targets_def():
                    b2 = facts.bodies.get(d)
                    if b2 is not None and b2.crate.name == CRATE:
                        stack += descendants(facts, b2)
    if hb is None:
        rep.anchor_missing("hedge execution body (the future that creates the result channel, reachable from Hedge::call)")
        return
    rep.saw(hb)
    g = graph(hb)
    # channel
    chans = [c for c in g.calls() if c.name == "channel" and "mpsc" in (c.def_ or "")]
    if len(chans) != 1:
        rep.ob("C12.EVIDENCE", skey(hb, "channel"), False, "-", "expected exactly one mpsc channel, found %d" % len(chans))
        return
    CH = ("call", hb.crate.name, hb.def_, chans[0].bb)

    def from_channel(node, idx):
        node = peel(node)
        if node[0] == "phi":
            # one async block spawned from several places (a helper inlined twice): every capture site counts
            return bool(node[1]) and all(from_channel(x, idx) for x in node[1])
        guard = 0
        while node[0] == "call" and guard < 6 and tr.call_of(node).def_ == CLONE:
            cc = tr.call_of(node)
            node = peel(tr.expand(tr.operand(cc.g.b, cc.args[0], cc.loc)))
            guard += 1
        return node[0] == "field" and node[2] == idx and peel(node[1]) == CH

    # recv awaits (direct awaits only)
    recv_awaits = []
    for a in g.awaits():
        if a.poll_bb is None:
            continue
        ac = awaited_call(tr, hb, a)
        if ac is not None and ac.name == "recv" and from_channel(tr.expand(tr.operand(hb, ac.args[0], ac.loc)), 1):
            recv_awaits.append(a)
        elif ac is not None and ac.args and _is_recv_helper(facts, tr, ac) and \
                any(from_channel(tr.expand(tr.operand(hb, x, ac.loc)), 1) for x in ac.args):
            recv_awaits.append(a)       # a private async helper that only awaits recv() on its argument and returns that
    rep.floor("C12.recv-awaits", len(recv_awaits), 1)
    sender_drops = [c for c in g.calls() if c.def_ == "core::mem::drop" and "Sender" in (c.path or "")
                    and from_channel(tr.expand(tr.operand(hb, c.args[0], c.loc)), 0)]
    # ------------------------------------------------------------ EVIDENCE
    nfail = 0
    fail_sites = []
    for b in descendants(facts, hb):
        if b is not hb and getattr(facts, "absorbed", None) is not None and facts.absorbed(b):
            continue          # an async helper awaited in place: its body is part of hb in this view
        gb = graph(b)
        for i, blk in enumerate(b.blocks):
            for j, s in enumerate(blk["stmts"]):
                if s["k"] == "assign" and s["rv"]["k"] == "agg" and s["rv"]["ak"] == "adt" and s["rv"]["variant"] == "AllAttemptsFailed":
                    nfail += 1
                    if b is hb:
                        fail_sites.append(i)
                    if b is not hb:
                        rep.ob("C12.EVIDENCE", skey(b, "all-failed#%d" % (nfail - 1)), False, gb.where(i, j),
                               "all-attempts-failed is constructed inside a nested body")
                        continue
                    edges = dominating_edges(tr, hb, i)
                    closed = False
                    for e in edges:
                        if e["kind"] == "enum" and e["label"] == "None":
                            for a in recv_awaits:
                                if derives(tr, e["node"], await_node(hb, a), variants=("Ready",)):
                                    closed = True
                    dropped = any(gb.node_dominates(c.bb, i) for c in sender_drops)
                    rep.ob("C12.EVIDENCE", skey(hb, "all-failed#%d" % (nfail - 1)), closed and dropped, gb.where(i, j),
                           "all-attempts-failed is reported only after recv() answered None (channel closed) and the function's own "
                           "sender was dropped: every started attempt has reported" if closed and dropped else
                           "all-attempts-failed is reported %s: attempts that are still running could yet succeed"
                           % ("without the channel having closed (recv() == None)" if not closed else "while the function still holds its own sender"))
    rep.floor("C12.all-failed-sites", nfail, 1)
    # ... and recv() == None means "every sender is gone" only while the receiver is open: a coordinator that closes its own
    # receiver gets None with attempts still running (their later sends fail), and reports all-attempts-failed over them
    # (closing once the outcome is decided - after the winner was received, on the way out - is harmless: what matters is
    # a close from which the all-attempts-failed report can still be reached)
    closers = [c for b_ in [hb] + [x for x in descendants(facts, hb) if x is not hb] for c in graph(b_).calls()
               if c.name == "close" and "mpsc" in (c.def_ or c.path or "")]
    closers = [c for c in closers if c.g.b is not hb or any(f_ in g.reach([c.bb], kinds=(N,)) for f_ in fail_sites)]
    rep.ob("C12.EVIDENCE", skey(hb, "receiver-stays-open"), not closers, closers[0].where() if closers else "%s:%d" % (hb.span["file"], hb.span["line"]),
           "the coordinator never closes the result channel's receiver: recv() == None is evidence that every attempt has reported" if not closers else
           "the coordinator closes the result channel's receiver (%s): recv() then answers None while attempts are still running, and their "
           "success is discarded in favour of all-attempts-failed" % closers[0].path[:60])
    # ------------------------------------------------------------ ATTEMPT bodies
    # spawn sites: in the hedging future itself, or in a private synchronous helper it calls (then the site is the helper call)
    spawns = []
    spawn_impl = {}       # call in hb -> (body holding the real tokio::spawn, that Call, binding node or None)
    for c in g.calls():
        if c.def_ and c.def_.startswith("tokio::task::spawn::spawn"):
            spawns.append(c)
            spawn_impl[c.bb] = (hb, c, None)
        else:
            node = ("call", hb.crate.name, hb.def_, c.bb)
            hlp = tr.local_sync_callee(node)
            if hlp is not None and hlp.crate.name == CRATE:
                hs = [x for x in graph(hlp).calls() if x.def_ and x.def_.startswith("tokio::task::spawn::spawn")]
                if len(hs) == 1:
                    spawns.append(c)
                    spawn_impl[c.bb] = (hlp, hs[0], node)
                    rep.saw(hlp)
    rep.floor("C12.spawn-sites", len(spawns), 3)
    for n, c in enumerate(spawns):
        sbody, scall, bind = spawn_impl[c.bb]
        fut = peel(tr.expand(tr.operand(sbody, scall.args[0], scall.loc)))
        if fut[0] != "agg":
            rep.ob("C12.ATTEMPT", skey(hb, "spawn#%d" % n), False, c.where(), "spawned future is not an async block of this function")
            continue
        _b, rv = tr.agg_of(fut)
        child = [x for x in facts.crates[CRATE].bodies if x.def_ == rv["def"]]
        if not child:
            rep.ob("C12.ATTEMPT", skey(hb, "spawn#%d" % n), False, c.where(), "spawned async block not found")
            continue
        child = child[0]
        rep.saw(child)
        cg = graph(child)
        ics = [x for x in cg.calls() if x.def_ == "tower_service::Service::call" and x.self_kind in ("param", "ref_param")]
        sends = [x for x in cg.calls() if x.name == "send" and "mpsc" in (x.def_ or "")]
        sent_ok = False
        for sd in sends:
            if bind is not None:
                with tr.bound(sbody, bind):
                    tx = tr.expand(tr.operand(child, sd.args[0], sd.loc), upvars=True)
            else:
                tx = tr.expand(tr.operand(child, sd.args[0], sd.loc))
            if from_channel(tx, 0):
                sent_ok = True
        ok = len(ics) == 1 and not cg.in_cycle(ics[0].bb) and sent_ok
        rep.ob("C12.ATTEMPT", skey(hb, "spawn#%d" % n), ok, c.where(),
               "the spawned attempt makes exactly one wrapped-service call and reports into the result channel" if ok else
               "the spawned attempt makes %d wrapped-service call(s)%s%s" % (len(ics), " in a cycle" if ics and cg.in_cycle(ics[0].bb) else "",
                                                                          "" if sent_ok else " and does not report into the result channel"))
    # ------------------------------------------------------------ PARALLEL-BOUND
    nloops = 0
    for i, blk in enumerate(hb.blocks):
        for j, s in enumerate(blk["stmts"]):
            if s["k"] == "assign" and s["rv"]["k"] == "agg" and s["rv"]["ak"] == "adt" and s["rv"]["def"] == "core::ops::range::Range":
                rv = s["rv"]
                lo = peel(tr.expand(tr.operand(hb, rv["ops"][0], (i, j))))
                hi = peel(tr.expand(tr.operand(hb, rv["ops"][1], (i, j)), upvars=True, params=True))
                nexts = [c for c in g.calls() if c.name == "next" and c.exp == "desugar:ForLoop"]
                in_loop = []
                for nx in nexts:
                    sw = g.switch(nx.target)
                    if sw is None or "Some" not in sw.variants:
                        continue
                    body_blocks = g.reach([sw.variants["Some"]], kinds=(N,), avoid_nodes=[nx.bb])
                    for sp in spawns:
                        if sp.bb in body_blocks:
                            # once per iteration: the spawn is not inside an inner cycle that avoids `next`
                            inner = sp.bb in g.reach([sp.target], kinds=(N,), avoid_nodes=[nx.bb]) if sp.target is not None else False
                            in_loop.append((sp, inner))
                if not in_loop:
                    continue
                nloops += 1
                ok_lo = lo[0] == "const" and lo[3] == "1"
                ok_hi = mentions_field(tr, hi, "max_hedged_attempts")
                ok_once = all(not inner for (_sp, inner) in in_loop) and len(in_loop) == 1
                rep.ob("C12.PARALLEL-BOUND", skey(hb, "for-range#%d" % (nloops - 1)), ok_lo and ok_hi and ok_once, g.where(i, j),
                       "parallel mode spawns once per iteration of 1..max_hedged_attempts: max-1 hedges besides the primary" if ok_lo and ok_hi and ok_once else
                       "parallel-mode loop: lower bound %s, upper bound %s, spawns per iteration %s" % (show(lo), show(hi), len(in_loop)))
    # ... or written as a counting loop: `while spawned + 1 < max { spawned += 1; spawn(..) }` with no suspension inside
    if nloops == 0:
        aw_blocks = {a.into_bb for a in g.awaits() if a.into_bb is not None}
        for sp in spawns:
            if sp.target is None:
                continue
            cyc = {x for x in g.reach([sp.target], kinds=(N,)) if sp.bb in g.reach([x], kinds=(N,))}
            if not cyc or sp.bb not in cyc or (cyc & aw_blocks):
                continue
            guard_ok = inc_ok = False
            for e in dominating_edges(tr, hb, sp.bb):
                if e["kind"] != "bool" or e["bb"] not in cyc:
                    continue
                cm = cmp_on_edge(tr, dict(e, node=peel(tr.expand(e["node"], upvars=True, params=True))))
                if cm and mentions_field(tr, cm[1], "max_hedged_attempts") and not mentions_field(tr, cm[2], "max_hedged_attempts"):
                    cm = ({"Le": "Ge", "Lt": "Gt", "Ge": "Le", "Gt": "Lt"}.get(cm[0], cm[0]), cm[2], cm[1])
                if cm and cm[0] == "Lt" and mentions_field(tr, cm[2], "max_hedged_attempts"):
                    n1 = peel(cm[1])
                    if n1[0] == "field":
                        n1 = peel(n1[1])
                    guard_ok = guard_ok or (n1[0] == "binop" and n1[1].startswith("Add") and peel(n1[3])[0] == "const" and peel(n1[3])[3] == "1")
            for i, blk in enumerate(hb.blocks):
                if i not in cyc or not g.node_dominates(i, sp.bb):
                    continue
                for j, s_ in enumerate(blk["stmts"]):
                    if s_["k"] == "assign" and hb.locals[s_["lhs"]["l"]].get("user"):
                        v = peel(tr.stmt_value(hb, i, j))
                        if v[0] == "field" and peel(v[1])[0] == "binop":
                            v = peel(v[1])
                        if v[0] == "binop" and v[1].startswith("Add") and peel(v[3])[0] == "const" and peel(v[3])[3] == "1":
                            inc_ok = True
            nloops += 1
            rep.ob("C12.PARALLEL-BOUND", skey(hb, "count-loop#%d" % (nloops - 1)), guard_ok and inc_ok, sp.where(),
                   "parallel mode spawns while spawned + 1 < max_hedged_attempts, counting each spawn: max-1 hedges besides the primary" if guard_ok and inc_ok else
                   "the parallel-mode loop is not bounded by `spawned + 1 < max_hedged_attempts` with one increment per spawn")
    rep.floor("C12.parallel-loops", nloops, 1)
    # ------------------------------------------------------------ LATENCY-COUNT
    # counter = the local incremented by 1 right before a spawn outside the for loop
    counters = {}
    for i, blk in enumerate(hb.blocks):
        for j, s in enumerate(blk["stmts"]):
            if s["k"] == "assign" and not s["lhs"]["p"] and hb.locals[s["lhs"]["l"]].get("user"):
                v = peel(tr.stmt_value(hb, i, j))
                if v[0] == "field" and peel(v[1])[0] == "binop":
                    v = peel(v[1])
                if v[0] == "binop" and v[1] in ("Add", "AddWithOverflow"):
                    b1 = peel(v[3])
                    if b1[0] == "const" and b1[3] == "1":
                        counters.setdefault(s["lhs"]["l"], []).append((i, j))
    # ... the counter may be a field of a bookkeeping struct (`ledger.hedges += 1`), incremented in place or by a
    # method of that struct called here (`ledger.start_hedge()`)
    def _field_incs(body, base_ok):
        out = []
        for i, blk in enumerate(body.blocks):
            for j, s in enumerate(blk["stmts"]):
                if s["k"] != "assign" or not s["lhs"]["p"] or not base_ok(s["lhs"]["l"]):
                    continue
                names = tuple(e.get("n") for e in s["lhs"]["p"] if isinstance(e, dict) and "f" in e)
                if not names or not isinstance(s["lhs"]["p"][-1], dict) or "f" not in s["lhs"]["p"][-1]:
                    continue
                v = peel(tr.stmt_value(body, i, j))
                if v[0] == "field" and peel(v[1])[0] == "binop":
                    v = peel(v[1])
                if v[0] == "binop" and v[1] in ("Add", "AddWithOverflow") and peel(v[3])[0] == "const" and peel(v[3])[3] == "1":
                    out.append((names, i, j))
        return out
    for (names, i, j) in _field_incs(hb, lambda l: bool(hb.locals[l].get("user"))):
        counters.setdefault(("field",) + names, []).append((i, j))
    for c in g.calls():
        hlp = tr.local_sync_callee(("call", hb.crate.name, hb.def_, c.bb))
        if hlp is None or hlp.crate.name != CRATE or hlp.arg_count < 1 or hlp.local_ty(1).get("k") != "ref" or not hlp.local_ty(1).get("mut"):
            continue
        for (names, _i, _j) in _field_incs(hlp, lambda l: l == 1):
            counters.setdefault(("field",) + names, []).append((c.bb, len(g.stmts(c.bb))))
            rep.saw(hlp)
    lat_spawns = [sp for sp in spawns if not any(sp.bb in g.reach([c.target], kinds=(N,)) and c.name == "next" for c in g.calls() if c.name == "next" and c.exp == "desugar:ForLoop" and c.target is not None) and sp is not spawns[0]]
    for n, sp in enumerate(lat_spawns):
        pre = [(l, i) for l, sites in counters.items() for (i, j) in sites if g.node_dominates(i, sp.bb)]
        # the precondition comparison counter + 1 < max exists
        cmp_found = False
        for bb in range(g.n):
            sw = g.switch(bb)
            if sw is None or sw.kind != "bool":
                continue
            cm = normalise_cmp(tr, peel(tr.expand(tr.operand(hb, sw.cond, (bb, len(g.stmts(bb)))), upvars=True, params=True)))
            if cm and cm[0] in ("Lt", "Ge") and mentions_field(tr, cm[2], "max_hedged_attempts"):
                cmp_found = True
        ok = len({l for l, _i in pre}) >= 1 and cmp_found
        # exactly one increment dominates: the nearest one is not repeated between it and the spawn
        rep.ob("C12.LATENCY-COUNT", skey(hb, "latency-spawn#%d" % n), ok, sp.where(),
               "the latency-mode hedge is counted (one increment dominates the spawn) and `spawned + 1 < max_hedged_attempts` guards the branch" if ok else
               "the latency-mode hedge spawn is not counted against max_hedged_attempts")
    rep.floor("C12.latency-spawn-sites", len(lat_spawns), 1)
    # ------------------------------------------------------------ EXHAUST: an attempt's error ends the hedging phase only when no further hedge can be started
    # (all-attempts-failed is reported once the channel closes; leaving the race loop early closes it with attempts unstarted)
    exhausted = []          # edges on which `spawned + 1 >= max_hedged_attempts` holds
    for bb in range(g.n):
        sw = g.switch(bb)
        if sw is None or sw.kind != "bool" or not g.live(bb):
            continue
        cm = normalise_cmp(tr, peel(tr.expand(tr.operand(hb, sw.cond, (bb, len(g.stmts(bb)))), upvars=True, params=True)))
        if cm and mentions_field(tr, cm[1], "max_hedged_attempts") and not mentions_field(tr, cm[2], "max_hedged_attempts"):
            cm = ({"Le": "Ge", "Lt": "Gt", "Ge": "Le", "Gt": "Lt"}.get(cm[0], cm[0]), cm[2], cm[1])       # `max <= spawned + 1`
        if cm and mentions_field(tr, cm[2], "max_hedged_attempts"):
            if cm[0] == "Ge":
                exhausted.append((bb, sw.variants["true"]))
            elif cm[0] == "Lt":
                exhausted.append((bb, sw.variants["false"]))
    nex = 0
    for sd in sender_drops:
        for bb in range(g.n):
            sw = g.switch(bb)
            if sw is None or sw.kind != "enum" or not {"Ok", "Err"} <= set(sw.variants) or not g.live(bb) or not g.in_cycle(bb):
                continue
            if sd.bb not in g.reach([bb], kinds=(N,)) or bb in g.reach([sd.bb], kinds=(N,)):
                continue        # a result match of the hedging phase: before the function's own sender is dropped
            nex += 1
            # ... "left" = reaching the end of the phase without another round of the race (the awaits of the loop)
            rounds = [a.into_bb for a in g.awaits() if a.into_bb is not None and g.in_cycle(a.into_bb) and sd.bb in g.reach([a.into_bb], kinds=(N,))
                      and a.into_bb not in g.reach([sd.bb], kinds=(N,))]
            r_ = g.reach([sw.variants["Err"]], kinds=(N,), avoid_edges=exhausted, avoid_nodes=rounds)
            okx = sd.bb not in r_
            rep.ob("C12.EXHAUST", skey(hb, "attempt-error#%d" % (nex - 1)), okx, g.where(bb),
                   "after an attempt's error the hedging phase is left only when no further hedge can be started (spawned + 1 >= max_hedged_attempts)" if okx else
                   "after an attempt's error the hedging phase can be left although further hedges could be started: the call then reports "
                   "all-attempts-failed (or waits for a slow attempt) without having started every attempt it could")
    rep.floor("C12.hedging-phase-result-matches", nex, 1)
    # ------------------------------------------------------------ DELAY-ORIGIN: the hedge timer is only armed with configured delays
    sleeps = [c for c in g.calls() if c.def_ and c.def_.startswith("tokio::time::sleep::sleep")]
    rep.floor("C12.sleep-sites", len(sleeps) + len([c for c in g.calls() if c.name == "reset" and "tokio::time::sleep::Sleep" in (c.def_ or c.path or "")]), 2)
    for n, c in enumerate(sleeps):
        d = tr.expand(tr.operand(hb, c.args[0], c.loc), upvars=True, params=True)
        ok = bool(calls_in(tr, d, lambda x: x.name == "get_delay"))
        rep.ob("C12.DELAY-ORIGIN", skey(hb, "sleep#%d" % n), ok, c.where(),
               "the hedge timer is armed with a delay obtained from config.delay.get_delay(..)" if ok else
               "the hedge timer is armed with %s, not a configured delay: the next attempt can start earlier than the configured delay "
               "after the previous one" % show(peel(d)))
    resets = [c for c in g.calls() if c.name == "reset" and "tokio::time::sleep::Sleep" in (c.def_ or c.path or "")]
    for n, c in enumerate(resets):
        d = tr.expand(tr.operand(hb, c.args[1], c.loc), upvars=True, params=True)
        # now() + get_delay(..), or the deadline of a fresh `sleep(get_delay(..))` (which is exactly that, saturating)
        fresh = [tr.call_of(peel(d))] if peel(d)[0] == "call" and tr.call_of(peel(d)).name == "deadline" and "Sleep" in (tr.call_of(peel(d)).def_ or tr.call_of(peel(d)).path or "") else []
        fresh_ok = False
        for fc in fresh:
            src = peel(tr.expand(tr.operand(fc.g.b, fc.args[0], fc.loc), upvars=True, params=True))
            if src[0] == "call" and (tr.call_of(src).def_ or "").startswith("tokio::time::sleep::sleep") and \
               calls_in(tr, tr.expand(tr.operand(tr.call_of(src).g.b, tr.call_of(src).args[0], tr.call_of(src).loc), upvars=True, params=True), lambda x: x.name == "get_delay"):
                fresh_ok = True
        ok = (bool(calls_in(tr, d, lambda x: x.name == "get_delay")) and bool(calls_in(tr, d, lambda x: x.name == "now"))) or fresh_ok
        rep.ob("C12.DELAY-ORIGIN", skey(hb, "reset#%d" % n), ok, c.where(),
               "the hedge timer is re-armed at now() + a configured delay" if ok else
               "the hedge timer is re-armed at %s, not at now() + get_delay(..): measured from the previous deadline instead of from the "
               "start of the previous attempt, a late-started attempt is followed by the next one too early" % show(peel(d))[:80])
    # ------------------------------------------------------------ AWAITS: the coordinator only waits in the race / on the results
    naw = 0

    def _only_race_awaits(body, depth=0):
        """every await of a local async helper is itself a select arm, a recv on the channel, or such a helper"""
        gb_ = graph(body)
        for a_ in gb_.awaits():
            t2 = gb_.term(a_.into_bb)
            if (t2["span"].get("omacro") or "").startswith("tokio::select"):
                continue
            ac_ = awaited_call(tr, body, a_)
            if ac_ is not None and ac_.name in ("recv", "recv_many") and "mpsc" in (ac_.def_ or ac_.path or ""):
                continue
            if ac_ is not None and depth < 2 and _helper_ok(ac_, depth + 1):
                continue
            return False
        return True

    def _helper_ok(ac_, depth):
        for d_ in ac_.targets_def():
            hb_ = facts.bodies.get(d_)
            if hb_ is not None and hb_.crate.name == CRATE and hb_.j.get("is_async"):
                kids = [k_ for k_ in facts.children.get(hb_.def_, []) if k_.kind == "coroutine"]
                if kids and all(_only_race_awaits(k_, depth) for k_ in kids):
                    return True
        return False
    for a in g.awaits():
        naw += 1
        t_ = g.term(a.into_bb)
        in_select = (t_["span"].get("omacro") or "").startswith("tokio::select")
        ac = awaited_call(tr, hb, a)
        is_recv = ac is not None and ac.name in ("recv", "recv_many") and "mpsc" in (ac.def_ or ac.path or "")
        if not in_select and not is_recv and ac is not None and _helper_ok(ac, 1):
            is_recv = True       # a local async helper that itself only waits in the race / on the channel
        rep.ob("C12.AWAITS", skey(hb, "await@%s" % ("select" if in_select else (ac.name if ac is not None else "?")) + "#%d" % naw), in_select or is_recv, g.where(a.into_bb),
               "the coordinating future suspends only in the race between the result channel and the hedge timer, or on the result channel" if in_select or is_recv else
               "the coordinating future awaits %s outside the race: while it is suspended there it does not read the result channel, so "
               "a success that is already available is not returned until that await completes (and never, if it does not)" % a.fut_ty["s"][:70])
    rep.floor("C12.coordinator-awaits", naw, 2)
    # ------------------------------------------------------------ FIRST-SUCCESS
    nok = 0
    for (i, j, node) in ret_assigns(tr, hb):
        payload = None
        if node[0] == "agg":
            _b, rv = tr.agg_of(node)
            if rv.get("variant") == "Ok":
                payload = peel(tr.expand(tr.operand(hb, rv["ops"][0], (i, j))))
        elif node[0] == "call":
            cc = tr.call_of(node)
            if cc.name == "map_err":
                payload = peel(tr.expand(tr.operand(hb, cc.args[0], cc.loc)))
        if payload is None:
            continue
        # the returned response may have been received at one of several places (`break Some(response)` from two arms of the
        # race, returned once after the loop): every origin is a received result, and from each the way to the return is free
        # of suspension points
        cand_aw = list(recv_awaits) + [a for a in g.awaits() if a.poll_bb is not None and "poll_fn" in a.fut_ty["s"]]
        lvs = [peel(x) for x in leaves(payload)]
        per_leaf = []
        for lf in lvs:
            s_ = [a for a in cand_aw if derives(tr, lf, await_node(hb, a), variants=None)]
            per_leaf.append((lf, s_))
        if not any(s_ for (_lf, s_) in per_leaf):
            continue
        nok += 1
        ys = []
        if not all(s_ for (_lf, s_) in per_leaf):
            ys = [i]              # one origin of the returned response is not a received result
        for (lf, s_) in per_leaf:
            if not s_:
                continue
            V = await_node(hb, s_[0])
            found = False
            cands = dominating_edges(tr, hb, i) if len(per_leaf) == 1 else \
                [{"kind": "enum", "label": "Ok", "bb": bb_, "sw": g.switch(bb_), "node": peel(tr.expand(tr.place(hb, g.switch(bb_).place, g.switch(bb_).defloc)))}
                 for bb_ in range(g.n) if g.switch(bb_) is not None and g.switch(bb_).kind == "enum" and "Ok" in g.switch(bb_).variants and g.live(bb_)
                 and i in g.reach([g.switch(bb_).variants["Ok"]], kinds=(N,))]
            for e in cands:
                if e["kind"] == "enum" and e["label"] == "Ok" and derives(tr, e["node"], V, variants=None):
                    found = True
                    tgt = e["sw"].variants["Ok"]
                    region = g.reach([tgt], kinds=(N,), avoid_edges=[(e["bb"], tgt)], stop=lambda x: x == i)
                    ys += [x for x in region if g.term(x)["k"] == "yield" and i in g.reach([x], kinds=(N,), avoid_edges=[(e["bb"], tgt)])]
            if not found:
                ys.append(s_[0].poll_bb)     # no Ok edge of the received result leads to the return
        rep.ob("C12.FIRST-SUCCESS", skey(hb, "return-ok#%d" % (nok - 1)), not ys, g.where(i, j),
               "a received success is returned as the call's response without suspending again" if not ys else
               "the function suspends (%s) between receiving a success and returning it" % g.where(ys[0]))
    rep.floor("C12.success-returns", nok, 2)
