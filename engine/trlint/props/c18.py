"""C18 — health status flips only at its thresholds; selection returns eligible resources."""
from ..core import graph, Call, peel, leaves, show, N, U, D
from ..util import *
from ..atomic import atomic_method, word_of

EXPLANATION = (
    "Long-run hysteresis against a model and the evenness of round-robin over many selections are numeric and NOT "
    "decided. Decided: (WHO) set_status is called only from the per-resource check task; (THRESHOLDS) "
    "set_status(Unhealthy) happens only in the unhealthy arm, after record_failure, under "
    "consecutive_failures >= failure_threshold; set_status(Healthy) only in the healthy arm, after "
    "record_success, under consecutive_successes >= success_threshold; set_status(Degraded) in the degraded arm, "
    "after record_success, unconditionally; the unknown arm changes nothing; a check that exceeds the timeout is "
    "treated as Unhealthy; (COUNTERS) record_failure increments failures and zeroes successes, record_success the "
    "converse, each under one write lock; (SELECT) get_with_filter returns an element of the vector produced by "
    "filtering the contexts with the caller's predicate applied to ctx.status(), returns None when that vector is "
    "empty, get_healthy passes `== Healthy` and get_usable passes is_usable, whose table is {Healthy, Degraded}; "
    "(CURSOR) every round-robin selection performs exactly one atomic read-modify-write on the cursor and no other "
    "write, and indexes the eligible list modulo its non-zero length; (SHARE) clones of a context share its state, "
    "so the check task and the selectors see one status."
    ' (COUNT-ONCE) from one recorder call no second recorder call is reachable for the same check result.')
RULE = "one obligation per set_status site, per record function, per selector clause, per cursor write"
TRUSTED = ["std::sync::RwLock", "tokio::time::timeout", "std atomics"]
ASSUMPTIONS = ["thresholds >= 1"]
CONFIG_CRATES = ["tower_resilience_healthcheck"]
TECHNIQUE = "static analysis of built MIR: who-calls, guarded-write with guard normal form, table agreement of is_usable, value-flow of the selected element, atomic write discipline on the cursor"

CRATE = "tower_resilience_healthcheck"
STATUS = "tower_resilience_healthcheck::HealthStatus"


def _const_variant(tr, b, op, loc):
    n = peel(tr.expand(tr.operand(b, op, loc)))
    if n[0] == "agg":
        _b, rv = tr.agg_of(n)
        return rv.get("variant")
    return None


def _accessor_field(facts, tr, name):
    """(adt, field, context ADT) the public accessor `name()` of the context returns; judged on the accessor's fully
    inlined body, so it does not matter through which private helper (`self.peek(|s| s.status)`) the state is read"""
    from ..inline import view_of
    ff, ftr = view_of(facts, "full")
    for b0 in facts.crates[CRATE].bodies:
        if b0.name == name and b0.kind == "fn" and b0.j.get("vis") == "pub" and b0.arg_count == 1:
            b = ff.bodies.get(b0.def_) or b0
            for (i, j, node) in ret_assigns(ftr, b):
                for x in ftr.walk(ftr.expand(node, upvars=True), limit=60):
                    if x[0] == "field" and isinstance(x[2], str) and not x[2].isdigit() and x[3] and facts.adt(x[3]) is not None:
                        ctx = b0.types[b0.impl["self_ty"]].get("def") if b0.impl else None
                        return (x[3], x[2], ctx)
    return None


def _writes_in(body, adt, field):
    out = []
    for i, blk in enumerate(body.blocks):
        for j, s in enumerate(blk["stmts"]):
            if s["k"] == "assign" and s["lhs"]["p"]:
                last = s["lhs"]["p"][-1]
                if isinstance(last, dict) and last.get("adt") == adt and last.get("n") == field:
                    out.append((i, j, s))
    return out


_COMBINED = {}


def _roles(facts, tr):
    """the context's private mutators, named by their effect on the fields the public accessors expose:
    set_status writes the field status() returns; record_failure / record_success increment the field
    consecutive_failures() / consecutive_successes() returns.  The effect is looked for in each method's fully inlined
    body (the write may sit in a closure handed to a lock helper, or in a method of the state struct)."""
    from ..inline import view_of
    ff, ftr = view_of(facts, "full")
    roles = {}

    def methods(ctx):
        for b0 in facts.crates[CRATE].bodies:
            if b0.kind == "fn" and b0.impl and not b0.impl.get("trait") and b0.types[b0.impl["self_ty"]].get("def") == ctx and b0.j.get("vis") != "pub":
                yield b0, (ff.bodies.get(b0.def_) or b0)
    st = _accessor_field(facts, tr, "status")
    _COMBINED.clear()
    if st:
        for (b0, b) in methods(st[2]):
            if b0.arg_count == 2 and _writes_in(b, st[0], st[1]):
                roles[b0.def_] = "set_status"
            elif b0.arg_count == 1:
                # a mutator that counts a result *and* publishes a fixed status in one step (`record_degraded()`): at its
                # call sites it stands for the recorder followed by set_status(<that status>)
                vs = set()
                for (i, j, s_) in _writes_in(b, st[0], st[1]):
                    v_ = peel(ftr.stmt_value(b, i, j))
                    vs.add(ftr.agg_of(v_)[1].get("variant") if v_[0] == "agg" else None)
                if len(vs) == 1 and None not in vs:
                    _COMBINED[b0.def_] = next(iter(vs))
    for acc, role in (("consecutive_failures", "record_failure"), ("consecutive_successes", "record_success")):
        fl = _accessor_field(facts, tr, acc)
        if not fl:
            continue
        for (b0, b) in methods(fl[2]):
            for (i, j, s) in _writes_in(b, fl[0], fl[1]):
                v = peel(ftr.stmt_value(b, i, j))
                if v[0] == "field" and peel(v[1])[0] == "binop":
                    v = peel(v[1])
                if v[0] == "binop" and v[1].startswith("Add"):
                    roles.setdefault(b0.def_, role)
    # the mutator is the innermost such method: one that reaches another candidate (an `apply_check_outcome` that calls
    # record_failure and set_status) is a user of the mutators, to be looked through like any other helper
    def reaches(d, depth=0, seen=None):
        seen = seen if seen is not None else set()
        b_ = facts.bodies.get(d)
        if b_ is None or depth > 3 or d in seen:
            return set()
        seen.add(d)
        out = set()
        for x in [b_] + [k_ for k_ in descendants(facts, b_) if k_ is not b_]:
            for c in graph(x).calls():
                for t in c.targets_def():
                    if facts.bodies.get(t) is not None and t != d:
                        out.add(t)
                        out |= reaches(t, depth + 1, seen)
                for a_ in c.args:
                    fi = (a_.get("const") or {}).get("fn") if isinstance(a_, dict) else None
                    if fi and facts.bodies.get(fi.get("def")) is not None:
                        out.add(fi["def"])
        return out
    for d in list(roles):
        if reaches(d) & (set(roles) - {d}):
            del roles[d]
    return roles


def run(facts, tr, rep):
    _n_ops = check_no_panicking_time_arith(facts, tr, rep, "C18.NO-PANIC-ARITH", facts.crates["tower_resilience_healthcheck"].bodies)
    rep.note("panicking Instant/Duration operators examined: %d" % _n_ops)
    # ---------------------------------------------------------------- WHO / THRESHOLDS
    roles = _roles(facts, tr)
    rep.note("context mutators by effect: %s" % {k.split("::")[-1]: v for k, v in roles.items()})

    def role_of(c):
        for d in c.targets_def():
            if d in roles:
                return roles[d]
        return None

    def combined_of(c):
        for d in c.targets_def():
            if d in _COMBINED and d in roles:
                return _COMBINED[d]
        return None
    # the thresholds are judged on a view in which every helper except the context's mutators themselves is inlined:
    # an `apply_check_outcome(outcome, success_threshold, failure_threshold)` helper is analysed once per call site,
    # with that call's arguments (a swapped pair at one of two call sites must not hide behind the other)
    from ..inline import view_of
    facts_w, tr_w = facts, tr
    keep_ = set(roles) | {b_.def_ for b_ in facts.crates[CRATE].bodies if b_.kind == "fn" and b_.j.get("vis") == "pub" and
                          b_.name in ("status", "consecutive_failures", "consecutive_successes")}
    facts, tr = view_of(facts, keep_)
    sites = []
    for b in facts.crates[CRATE].bodies:
        if facts.absorbed(b):
            continue
        for c in graph(b).calls():
            if role_of(c) == "set_status" or combined_of(c):
                sites.append((b, c))
    rep.floor("C18.set_status-sites", len(sites), 3)
    tasks = {b.def_ for (b, _c) in sites}
    okwho = len(tasks) == 1
    if okwho:
        tb = sites[0][0]
        if tb.kind != "coroutine":
            # a private helper: it must be called only from spawned check tasks
            callers = tr.callers(tb.def_)
            okwho = bool(callers) and all(cs.g.b.kind == "coroutine" for cs in callers) and not tb.j.get("vis") == "pub"
    rep.ob("C18.WHO", "%s|set_status-callers" % CRATE, okwho, sites[0][1].where() if sites else "-",
           "set_status is called only from the check task (%s)" % sorted(tasks) if okwho else "set_status is called from %s" % sorted(tasks))
    if not sites:
        return
    b = sites[0][0]
    rep.saw(b)
    g = graph(b)
    # the status match(es): the match on the check result whose arms hold the status publications.  An outcome helper
    # inlined at two call sites gives two such matches; each is judged with the sites it dominates.  Other matches on
    # a HealthStatus (conversions, is_usable) may be inlined into this body too: they dominate no publication.
    all_sites = [(b_, c_) for (b_, c_) in sites if b_ is b and g.live(c_.bb)]
    groups = []
    for bb in range(g.n):
        sw = g.switch(bb)
        if sw is not None and sw.kind == "enum" and {"Healthy", "Degraded", "Unhealthy", "Unknown"} <= set(sw.variants) and g.live(bb):
            mine = [(b_, c_) for (b_, c_) in all_sites
                    if any(g.edge_dominates((bb, t_), c_.bb) for t_ in set(sw.variants.values()) if t_ is not None)]
            if mine:
                groups.append((sw, mine))
    covered = {id(c_) for (_sw, m_) in groups for (_b, c_) in m_}
    if not groups or any(id(c_) not in covered for (_b, c_) in all_sites):
        rep.anchor_missing("match on the check result's HealthStatus in the check task")
        return
    union_targets = set()
    all_status_leaves = []
    for gi_, (arms_sw, sites) in enumerate(groups):
        gsfx = "" if len(groups) == 1 else "@match%d" % gi_
        rec_s = [c for c in g.calls() if role_of(c) == "record_success"]
        rec_f = [c for c in g.calls() if role_of(c) == "record_failure"]
        seen_targets = set()
        for n, (bb_, c) in enumerate(sites):
            tgt = combined_of(c) or (_const_variant(tr, b, c.args[1], c.loc) if len(c.args) > 1 else None)
            seen_targets.add(tgt)
            edges = dominating_edges(tr, b, c.bb)
            arm = [e["label"] for e in edges if e["kind"] == "enum" and e["bb"] == arms_sw.bb]
            in_arm_bools = [e for e in edges if e["kind"] == "bool" and arms_sw.bb in [arms_sw.bb] and g.node_dominates(arms_sw.bb, e["bb"])]
            k = skey(b, "set_status(%s)%s" % (tgt, gsfx))
            if tgt == "Unhealthy":
                pre = any(g.node_dominates(r.bb, c.bb) and g.edge_dominates((arms_sw.bb, arms_sw.variants["Unhealthy"]), r.bb) for r in rec_f)
                gd = _threshold_guard(tr, in_arm_bools, "consecutive_failures", "failure_threshold")
                ok = arm == ["Unhealthy"] and pre and gd
                rep.ob("C18.THRESHOLDS", k, ok, c.where(),
                       "Unhealthy is published only on an unhealthy (or timed-out) check, after counting it, once consecutive_failures >= failure_threshold" if ok else
                       "Unhealthy is published %s" % ("outside the unhealthy arm" if arm != ["Unhealthy"] else "without counting the failure first" if not pre else
                                                      "without the test consecutive_failures >= failure_threshold"))
            elif tgt == "Healthy":
                pre = any(g.node_dominates(r.bb, c.bb) and g.edge_dominates((arms_sw.bb, arms_sw.variants["Healthy"]), r.bb) for r in rec_s)
                gd = _threshold_guard(tr, in_arm_bools, "consecutive_successes", "success_threshold")
                ok = arm == ["Healthy"] and pre and gd
                rep.ob("C18.THRESHOLDS", k, ok, c.where(),
                       "Healthy is published only on a healthy check, after counting it, once consecutive_successes >= success_threshold" if ok else
                       "Healthy is published %s" % ("outside the healthy arm" if arm != ["Healthy"] else "without counting the success first" if not pre else
                                                    "without the test consecutive_successes >= success_threshold"))
            elif tgt == "Degraded":
                pre = any(g.node_dominates(r.bb, c.bb) and g.edge_dominates((arms_sw.bb, arms_sw.variants["Degraded"]), r.bb) for r in rec_s)
                ok = arm == ["Degraded"] and pre and not in_arm_bools
                rep.ob("C18.THRESHOLDS", k, ok, c.where(),
                       "Degraded is published at once in the degraded arm, after counting the check as non-failing (which resets the failure run)" if ok else
                       "Degraded is published %s" % ("outside the degraded arm" if arm != ["Degraded"] else
                                                     "without record_success(): a degraded result no longer interrupts a run of failures" if not pre else "conditionally"))
            else:
                rep.ob("C18.THRESHOLDS", k, False, c.where(), "set_status with a non-constant or unexpected status (%s)" % tgt)
        union_targets |= seen_targets
        # COUNT-ONCE: one check result is counted once — from a recorder call no second recorder call is reachable before
        # the task waits for the next interval (the iteration boundary: the awaits on a Sleep / Interval tick)
        recs_all = [c for c in g.calls() if role_of(c) in ("record_success", "record_failure")]
        boundary = set()
        for a in g.awaits():
            if any(k_ in a.fut_ty["s"] for k_ in ("Sleep", "Interval", "Tick")):
                boundary.add(a.into_bb)
        for k_, r1 in enumerate(recs_all):
            again = []
            if r1.target is not None:
                r_ = g.reach([r1.target], kinds=(N,), avoid_nodes=list(boundary))
                again = [r2 for r2 in recs_all if r2.bb in r_]
            # a body that handles one check per invocation has no boundary inside it: then the recorder must not sit in a cycle
            cyc = (not boundary) and g.in_cycle(r1.bb)
            rep.ob("C18.COUNT-ONCE", skey(b, "%s#%d" % (role_of(r1), k_)), not again and not cyc, r1.where(),
                   "after this %s() no further counter update happens for the same check result" % role_of(r1) if not again and not cyc else
                   ("this %s() sits in a loop that does not wait for the next interval" % role_of(r1) if cyc else
                    "after this %s() the same check result reaches %s() at %s: one result is counted twice, so a threshold of n is reached "
                    "after fewer than n consecutive results" % (role_of(r1), role_of(again[0]), again[0].where())))
        rep.floor("C18.recorder-sites", len(recs_all), 3)
        # unknown arm: no write reachable inside the arm
        utgt = arms_sw.variants["Unknown"]
        other_tgts = {arms_sw.variants[v] for v in ("Healthy", "Degraded", "Unhealthy")}
        ublocks = {x for x in g.reach([utgt], kinds=(N,)) if g.edge_dominates((arms_sw.bb, utgt), x)}
        bad = [c for c in g.calls() if c.bb in ublocks and role_of(c) in ("set_status", "record_success", "record_failure")]
        rep.ob("C18.THRESHOLDS", skey(b, "unknown-arm"), not bad, g.where(utgt),
               "an unknown check result changes neither the status nor the counters" if not bad else "the unknown arm calls %s" % bad[0].name)
        # timeout => Unhealthy: collected per match, judged over all matches below
        st_node = tr.expand(tr.place(b, arms_sw.place, arms_sw.defloc), upvars=True, params=True)
        all_status_leaves += [(peel(x), arms_sw.bb) for x in leaves(st_node)]
    # the evaluated status is the Ok payload of timeout(..).await, or the constant Unhealthy on that await's Err edge
    tb_ = b
    if b.kind != "coroutine":
        cs_ = tr.callers(b.def_)
        if cs_:
            tb_ = cs_[0].g.b
            rep.saw(tb_)
    gt_ = graph(tb_)
    aw = [a for a in gt_.awaits() if a.fut_ty["s"].startswith("tokio::time::timeout::Timeout")]
    okt = False
    if aw:
        V = await_node(tb_, aw[0])
        lv = [x for (x, _bb) in all_status_leaves]
        from_ok = [x for x in lv if derives(tr, x, V, variants=("Ready", "Ok"))]
        consts = [(x, bb_) for (x, bb_) in all_status_leaves if x[0] == "agg" and tr.agg_of(x)[1].get("variant") == "Unhealthy"]
        okt = len(from_ok) >= 1 and len(consts) >= 1 and len(from_ok) + len(consts) == len(lv)
        # the constant is used only where the check timed out
        for (x, bb_) in consts:
            errs = [e for e in dominating_edges(tr, tb_, bb_) if e["kind"] == "enum" and e["label"] == "Err" and derives(tr, e["node"], V, variants=("Ready",))]
            okt = okt and (bool(errs) or len(groups) == 1)
        d = tr.expand(tr.operand(tb_, awaited_call(tr, tb_, aw[0]).args[0], awaited_call(tr, tb_, aw[0]).loc), upvars=True)
        okt = okt and mentions_field(tr, d, "timeout")
    rep.ob("C18.THRESHOLDS", skey(b, "timeout-is-unhealthy"), okt, g.where(groups[0][0].bb),
           "the evaluated status is the checker's answer within config.timeout, or Unhealthy when the check timed out" if okt else
           "the evaluated status is not {checker's answer | Unhealthy on timeout}")
    rep.ob("C18.THRESHOLDS", skey(b, "targets"), union_targets == {"Healthy", "Degraded", "Unhealthy"}, g.where(groups[0][0].bb),
           "each of Healthy / Degraded / Unhealthy has its publication site" if union_targets == {"Healthy", "Degraded", "Unhealthy"} else
           "publication sites cover %s" % sorted(str(x) for x in union_targets))
    facts, tr = facts_w, tr_w
    # ---------------------------------------------------------------- COUNTERS
    for nm, inc, zero in (("record_failure", "consecutive_failures", "consecutive_successes"), ("record_success", "consecutive_successes", "consecutive_failures")):
        rb = [x for x in facts.crates[CRATE].bodies if roles.get(x.def_) == nm and x.kind == "fn"]
        if not rb:
            rep.anchor_missing("HealthCheckedContext::" + nm)
            continue
        # every method with the role (a `record_degraded()` that counts a success is a recorder of successes too)
        for rb0_ in sorted(rb, key=lambda x: x.def_):
            # judged on the recorder's fully inlined body: the updates may sit in a closure handed to a lock helper or in a
            # method of the state struct
            ffc_, ftrc_ = view_of(facts, "full")
            rb = ffc_.bodies.get(rb0_.def_) or rb0_
            tr_c_keep, tr = tr, ftrc_
            rep.saw(rb)
            ws = {}
            for i, blk in enumerate(rb.blocks):
                for j, s in enumerate(blk["stmts"]):
                    if s["k"] == "assign" and s["lhs"]["p"]:
                        names = [e.get("n") for e in s["lhs"]["p"] if isinstance(e, dict) and "f" in e]
                        if names:
                            ws[names[-1]] = peel(tr.stmt_value(rb, i, j))
            vi = ws.get(inc)
            if vi is not None and vi[0] == "field" and peel(vi[1])[0] == "binop":
                vi = peel(vi[1])
            ok_inc = vi is not None and vi[0] == "binop" and vi[1] in ("Add", "AddWithOverflow") and peel(vi[3])[0] == "const" and peel(vi[3])[3] == "1"
            vz = ws.get(zero)
            ok_zero = vz is not None and vz[0] == "const" and vz[3] == "0"
            locks = [c for c in graph(rb).calls() if c.name in ("write", "lock")]
            tr = tr_c_keep
            rep.ob("C18.COUNTERS", skey(rb, "effect"), ok_inc and ok_zero and len(locks) == 1, "%s:%d" % (rb.span["file"], rb.span["line"]),
                   "%s increments %s and zeroes %s under one write lock" % (nm, inc, zero) if ok_inc and ok_zero and len(locks) == 1 else
                   "%s does not (increment %s, zero %s) under one lock" % (nm, inc, zero))
    # ---------------------------------------------------------------- SELECT
    # the selection helper, by role: the async body that filters the contexts and hands the survivors to the
    # selection strategy's select()
    gwf = [x for x in facts.crates[CRATE].bodies if x.kind == "coroutine" and
           any(c.name == "select" and any(d.startswith(CRATE) for d in c.targets_def()) for c in graph(x).calls()) and
           any(c.name == "filter" and c.trait == "core::iter::traits::iterator::Iterator" for c in graph(x).calls())]
    if not gwf:
        rep.anchor_missing("the wrapper's selection helper (async body calling Iterator::filter and SelectionStrategy::select)")
    else:
        w = gwf[0]
        rep.saw(w)
        gw = graph(w)
        filt = [c for c in gw.calls() if c.name == "filter" and c.trait == "core::iter::traits::iterator::Iterator"]
        okf = False
        for c in filt:
            clo = peel(tr.expand(tr.operand(w, c.args[1], c.loc)))
            if clo[0] == "agg":
                cb, rv = tr.agg_of(clo)
                child = [x for x in facts.crates[CRATE].bodies if x.def_ == rv["def"]]
                if child:
                    ch = child[0]
                    rep.saw(ch)
                    cg = graph(ch)
                    stat = [x for x in cg.calls() if x.name == "status"]
                    fcall = [x for x in cg.calls() if x.def_ in ("core::ops::function::Fn::call", "core::ops::function::FnMut::call_mut")
                             or x.fn is None]          # (a captured closure, or a plain `fn(&HealthStatus) -> bool` pointer)
                    if stat and fcall:
                        fa_ = fcall[0].args[1] if fcall[0].fn is not None and len(fcall[0].args) > 1 else (fcall[0].args[0] if fcall[0].args else None)
                        arg = tr.expand(tr.operand(ch, fa_, fcall[0].loc)) if fa_ is not None else ("unknown",)
                        okf = any(x == ("call", ch.crate.name, ch.def_, stat[0].bb) for x in tr.walk(arg, limit=30))
        rep.ob("C18.SELECT", skey(w, "filter"), okf, filt[0].where() if filt else "-",
               "candidates are the contexts whose status() satisfies the caller's predicate" if okf else
               "candidates are not obtained by applying the caller's predicate to ctx.status()")
        # empty -> None before selection
        emp = [c for c in gw.calls() if c.name == "is_empty"]
        sel = [c for c in gw.calls() if c.name == "select" and any(d.startswith(CRATE) for d in c.targets_def())]
        oke = False
        for e in emp:
            sw = gw.switch(e.target)
            if sw is not None and sw.kind == "bool":
                oke = all(gw.edge_dominates((sw.bb, sw.variants["false"]), s.bb) for s in sel) and bool(sel)
        if not oke and sel:
            # ... or the strategy's own select() answers None for an empty list before it touches the cursor / the generator
            for d_ in sel[0].targets_def():
                sb_ = facts.bodies.get(d_)
                if sb_ is None:
                    continue
                gsb = graph(sb_)
                for e2 in [c for c in gsb.calls() if c.name == "is_empty"]:
                    sw2 = gsb.switch(e2.target)
                    if sw2 is None or sw2.kind != "bool":
                        continue
                    effects = [c.bb for c in gsb.calls() if atomic_method(c) or "rand" in (c.def_ or "") or c.def_ in ("core::ops::function::Fn::call",)]
                    oke = oke or (all(gsb.edge_dominates((sw2.bb, sw2.variants["false"]), x) for x in effects) and gsb.node_dominates(e2.bb, sw2.bb)
                                  and peel(tr.expand(tr.operand(sb_, e2.args[0], e2.loc)))[0] in ("param", "deref"))
        rep.ob("C18.SELECT", skey(w, "empty-none"), oke, emp[0].where() if emp else "-",
               "with no eligible resource None is returned before any selection" if oke else "selection can run on an empty candidate list")
        # the returned value comes from the candidate vector
        okr = False
        col_nodes = [("call", w.crate.name, w.def_, c.bb) for c in gw.calls() if c.name == "collect"]
        for wb in descendants(facts, w):
            for c in graph(wb).calls():
                if c.name == "get" and c.args:
                    recv = tr.expand(tr.operand(wb, c.args[0], c.loc), upvars=True)
                    if any(x in col_nodes for x in tr.walk(recv, limit=40)):
                        # and the function's result is built from that element / from the selection over the candidates
                        okr = True
        rep.ob("C18.SELECT", skey(w, "returns-candidate"), okr, "%s:%d" % (w.span["file"], w.span["line"]),
               "the returned resource is an element of the filtered candidate list" if okr else "the returned resource is not taken from the filtered candidate list")
    for nm, want in (("get_healthy", "eq-healthy"), ("get_usable", "is_usable")):
        gb = [x for x in facts.crates[CRATE].bodies if x.kind == "coroutine" and x.parent and x.parent.endswith("::" + nm)]
        if not gb:
            rep.anchor_missing("HealthCheckWrapper::" + nm)
            continue
        pb = gb[0]
        rep.saw(pb)
        closures = [x for x in facts.children.get(pb.def_, []) if x.kind == "closure"]
        ok = False
        for cl in closures:
            rep.saw(cl)
            cg = graph(cl)
            if want == "is_usable":
                ok = ok or any(c.name == "is_usable" for c in cg.calls())
            else:
                for c in cg.calls():
                    if c.name == "eq" and c.trait == "core::cmp::PartialEq":
                        rhs = peel(tr.expand(tr.operand(cl, c.args[1], c.loc)))
                        ok = ok or _is_variant(tr, rhs, "Healthy") or _is_variant(tr, peel(tr.expand(tr.operand(cl, c.args[0], c.loc))), "Healthy")
        if not ok:
            # the predicate handed over as a function item (`self.pick_where(HealthStatus::is_usable)`)
            for c in graph(pb).calls():
                for a_ in c.args:
                    nd_ = peel(tr.expand(tr.operand(pb, a_, c.loc)))        # (a function item coerced to a `fn` pointer)
                    fi = {"def": nd_[1], "name": nd_[1].split("::")[-1]} if nd_[0] == "fnconst" else None
                    if not fi:
                        continue
                    if want == "is_usable" and fi.get("name") == "is_usable":
                        ok = True
                    if want != "is_usable":
                        fb_ = facts.bodies.get(fi.get("def"))
                        if fb_ is not None and fb_.local_ty(0)["s"] == "bool":
                            rep.saw(fb_)
                            # true exactly for Healthy: every `true` answer sits under the Healthy edge of a match on self
                            gfb = graph(fb_)
                            trues = [(i, j) for (i, j, nd) in ret_assigns(tr, fb_) for lf in leaves(nd) if peel(lf)[0] == "const" and peel(lf)[1] == "true"]
                            eqs = [x for x in gfb.calls() if x.name == "eq" and x.trait == "core::cmp::PartialEq"]
                            if trues and all(any(e["kind"] == "enum" and e["label"] == "Healthy" for e in dominating_edges(tr, fb_, i)) for (i, j) in trues):
                                ok = True
                            for x in eqs:
                                if any(_is_variant(tr, peel(tr.expand(tr.operand(fb_, x.args[k], x.loc))), "Healthy") for k in (0, 1)):
                                    ok = True
        rep.ob("C18.SELECT", skey(pb, "predicate"), ok, "%s:%d" % (pb.span["file"], pb.span["line"]),
               "%s filters with %s" % (nm, "status == Healthy" if want != "is_usable" else "status.is_usable()") if ok else
               "%s does not filter with %s" % (nm, "status == Healthy" if want != "is_usable" else "is_usable()"))
    # is_usable table
    iu = facts.bodies.get(STATUS + "::is_usable")
    if iu is None:
        rep.anchor_missing(STATUS + "::is_usable")
    else:
        rep.saw(iu)
        gi = graph(iu)
        table = {}
        for bb in range(gi.n):
            sw = gi.switch(bb)
            if sw is not None and sw.kind == "enum":
                for v, tgt in sw.variants.items():
                    vals = set()
                    for x in gi.reach([tgt], kinds=(N,)):
                        for s in gi.stmts(x):
                            if s["k"] == "assign" and s["lhs"]["l"] == 0 and s["rv"]["k"] == "use" and "const" in s["rv"]["op"]:
                                vals.add(s["rv"]["op"]["const"].get("disp"))
                    table[v] = vals
                for v in getattr(sw, "rest", []):
                    vals = set()
                    for x in gi.reach([sw.otherwise], kinds=(N,)):
                        for s in gi.stmts(x):
                            if s["k"] == "assign" and s["lhs"]["l"] == 0 and s["rv"]["k"] == "use" and "const" in s["rv"]["op"]:
                                vals.add(s["rv"]["op"]["const"].get("disp"))
                    table.setdefault(v, vals)
        want = {"Healthy": {"true"}, "Degraded": {"true"}, "Unhealthy": {"false"}, "Unknown": {"false"}}
        ok = all(table.get(k) == v for k, v in want.items())
        rep.ob("C18.SELECT", "%s|is_usable-table" % CRATE, ok, "%s:%d" % (iu.span["file"], iu.span["line"]),
               "is_usable is true exactly for Healthy and Degraded" if ok else "is_usable table is %s" % {k: sorted(v) for k, v in table.items()})
    # ---------------------------------------------------------------- CURSOR
    selb = [x for x in facts.crates[CRATE].bodies if x.def_.endswith("SelectionStrategy::select")]
    if not selb:
        rep.anchor_missing("SelectionStrategy::select")
    else:
        sbody = selb[0]
        rep.saw(sbody)
        gs = graph(sbody)
        writes = [c for c in gs.calls() if atomic_method(c) and atomic_method(c) not in ("load", "new")]
        rmw = [c for c in writes if atomic_method(c).startswith("fetch_") or atomic_method(c) in ("swap", "compare_exchange", "compare_exchange_weak")]
        others = [c for c in writes if c not in rmw]
        twice = any(o.bb in gs.reach([c.target], kinds=(N,)) for c in writes for o in writes if c.target is not None and o is not c) if len(writes) > 1 else False
        ok = len(rmw) >= 1 and not others and not twice
        rep.ob("C18.CURSOR", skey(sbody, "cursor-writes"), ok, writes[0].where() if writes else "-",
               "each round-robin selection advances the shared cursor with exactly one atomic read-modify-write" if ok else
               "the round-robin cursor is written %s: selections no longer advance it by exactly one step (some resource is served twice per cycle)"
               % ("by a plain store / second write (%s)" % ", ".join(atomic_method(c) for c in writes)))
        rep.floor("C18.cursor-rmw-sites", len(rmw), 1)
        # index modulo the non-empty list
        idx_ok = False
        for c in rmw:
            V = ("call", sbody.crate.name, sbody.def_, c.bb)
            for i, blk in enumerate(sbody.blocks):
                for j, s in enumerate(blk["stmts"]):
                    if s["k"] == "assign" and s["rv"]["k"] == "binop" and s["rv"]["op"] == "Rem":
                        a = peel(tr.expand(tr.operand(sbody, s["rv"]["a"], (i, j))))
                        bnode = peel(tr.expand(tr.operand(sbody, s["rv"]["b"], (i, j))))
                        if a == V and bnode[0] == "call" and tr.call_of(bnode).name in ("len", "count"):
                            # guarded by !is_empty() / by count != 0
                            for e in dominating_edges(tr, sbody, i):
                                if e["kind"] == "bool" and e["label"] == "false" and e["node"][0] == "call" and tr.call_of(e["node"]).name == "is_empty":
                                    idx_ok = True
                                if e["kind"] == "bool":
                                    cm = cmp_on_edge(tr, e)
                                    if cm and ((cm[0] in ("Ne", "Gt") and peel(cm[1]) == bnode and peel(cm[2])[0] == "const" and peel(cm[2])[3] == "0") or
                                               (cm[0] in ("Ne", "Lt") and peel(cm[2]) == bnode and peel(cm[1])[0] == "const" and peel(cm[1])[3] == "0")):
                                        idx_ok = True
                                if e["kind"] == "int" and peel(e["node"]) == bnode and e["label"] == "otherwise":
                                    idx_ok = True          # `match n { 0 => None, n => .. }`
        rep.ob("C18.CURSOR", skey(sbody, "cursor-index"), idx_ok, rmw[0].where() if rmw else "-",
               "the eligible list is indexed by cursor % len under !is_empty()" if idx_ok else "the round-robin index is not cursor % len(eligible) under a non-empty guard")
    # ---------------------------------------------------------------- SHARE
    n = check_share(facts, tr, rep, "C18.SHARE", "tower_resilience_healthcheck::context::HealthCheckedContext")
    rep.floor("C18.share-fields", n, 1)


def _threshold_guard(tr, edges, counter, threshold):
    for e in edges:
        cm = cmp_on_edge(tr, e)
        if cm is None:
            continue
        op, x, y = cm
        cx = bool(calls_in(tr, x, lambda c: c.name == counter))
        ty = any(n[0] in ("upvar", "field", "param") for n in tr.walk(y, limit=30)) and _mentions_name(tr, y, threshold)
        if op == "Ge" and cx and ty:
            return True
        cy = bool(calls_in(tr, y, lambda c: c.name == counter))
        tx = _mentions_name(tr, x, threshold)
        if op == "Le" and cy and tx:
            return True
    return False


def _mentions_name(tr, node, name):
    node = tr.expand(node, upvars=True, params=True)
    for x in tr.walk(node, limit=60):
        if x[0] == "field" and str(x[2]) == name:
            return True
    return False


def _is_variant(tr, node, v):
    for lf in leaves(node):
        lf = peel(lf)
        if lf[0] == "agg" and tr.agg_of(lf)[1].get("variant") == v:
            return True
        if lf[0] == "const" and v in str(lf[1]):
            return True
    return False
