"""C08 — retry budget never grants more retries than it was funded."""
from ..core import graph, peel, leaves, show, N
from ..util import dominating_edges, cmp_on_edge
from ..atomic import atomic_fields, check_word, sites, atomic_method, word_of, loads_in, CAS

EXPLANATION = (
    "Decides the single-word atomicity discipline that makes concurrent deposits/withdrawals linearizable: for "
    "every atomic word reachable from a RetryBudget implementor (balance words and the AIMD ceiling) every write "
    "is one atomic read-modify-write (fetch_*, fetch_update, CAS whose expected and new value derive from the "
    "same observation); a `store` of a value computed from an earlier `load` of the same word is a lost-update "
    "site. Also: `true` is returned by try_withdraw only on the success edge of the subtracting CAS, which is "
    "guarded by balance >= amount, and every deposited value is capped by min(_, maximum). With these, each "
    "operation is one RMW whose new value is a function of the value it read, so operations are linearizable and "
    "each sequential step preserves granted*cost + balance <= initial + deposits*amount and balance <= max. "
    "Not decided: memory-ordering strength (single-word RMW atomicity does not depend on it)."
    " (INIT) the initial balance is bounded by the same configured maximum in every constructor; (CEILING-CONFIG) a nested controller receives the budget's own bounds, not defaults; a `store` under a condition on an earlier observation of the same word (check-then-act) is a lost-update site too."
    ' (GUARD, update closures) a withdrawal written as fetch_update answers Some(observed - cost) only under observed >= cost.')
RULE = "one obligation per atomic write site of each budget word, per try_withdraw return-true site, per deposit write"
TRUSTED = ["std atomics: fetch_update/compare_exchange are atomic on one word", "rustc MIR construction"]
ASSUMPTIONS = ["RetryBudget implementors are the public anchor for discovering budget state"]
CONFIG_CRATES = ["tower_resilience_retry"]
TECHNIQUE = "static analysis of built MIR: atomic read-modify-write discipline (value-flow from load to store/CAS), guard dominance"

BUDGET_TRAIT = "tower_resilience_retry::budget::RetryBudget"


def budget_words(facts):
    """atomic words of RetryBudget implementors, including nested workspace structs"""
    conserved, ceiling = [], []
    impls = []
    for c in facts.crates.values():
        for im in c.impls:
            if im.get("trait") == BUDGET_TRAIT:
                st = c.types[im["self_ty"]]
                if st.get("k") == "adt":
                    impls.append((c, im, st["def"]))
    for (c, im, adt_def) in impls:
        conserved += atomic_fields(facts, adt_def)
        adt = facts.adt(adt_def)
        for f in adt["variants"][0]["fields"]:
            t = c.types[f["ty"]]
            if t.get("k") == "adt" and facts.adt(t["def"]):
                ceiling += atomic_fields(facts, t["def"])
    return impls, sorted(set(conserved)), sorted(set(ceiling))


def run(facts, tr, rep):
    impls, conserved, ceiling = budget_words(facts)
    if not impls:
        rep.anchor_missing(BUDGET_TRAIT, "(no implementor found)")
        return
    rep.floor("C08.budget-impls", len(impls), 2)
    rep.floor("C08.conserved-words", len(conserved), 2)
    rep.floor("C08.ceiling-words", len(ceiling), 1)

    def keyfn(b, c, m):
        g = graph(b)
        same = sorted(x.bb for x in g.calls() if x.def_ == c.def_)
        return "%s|%s|%s#%d" % (b.crate.name, b.def_, m, same.index(c.bb))

    nw = 0
    for w in conserved:
        nw += check_word(facts, tr, rep, "C08.RMW", w, keyfn)
    for w in ceiling:
        nw += check_word(facts, tr, rep, "C08.RMW-CEILING", w, keyfn)
    rep.floor("C08.write-sites", nw, 4)       # distinct kinds of writes; identical update sites may be merged into one helper

    # try_withdraw: `true` only on the success edge of a subtracting CAS/fetch_update guarded by balance >= amount
    _f0, _t0 = facts, tr
    for (c, im, adt_def) in impls:
        facts, tr = _f0, _t0
        crate_ = c
        items = {it["name"]: it["def"] for it in im["items"]}
        # the path clauses (GRANT / GUARD / CAP) look at try_withdraw and deposit with their private helpers inlined
        # (helpers that take the atomic word by reference included); discovery, RMW discipline and the constructors
        # are judged on the program as written
        facts0, tr0 = facts, tr
        facts, tr = facts0.inl, tr0.inl
        tw = facts.bodies.get(items.get("try_withdraw"))
        dp = facts.bodies.get(items.get("deposit"))
        if tw is None or dp is None:
            rep.anchor_missing("RetryBudget::try_withdraw/deposit of " + adt_def)
            continue
        rep.saw(tw)
        rep.saw(dp)
        words = atomic_fields(facts, adt_def)
        # the function that performs the withdrawal: try_withdraw itself, or a local helper whose result it returns
        W = tw
        if not [1 for w in words for (b, cs, m) in sites(facts, tr, w) if b is tw and (m in CAS or m in ("fetch_update", "try_update"))]:
            hcalls = []
            for c in graph(tw).calls():
                for d in c.targets_def():
                    hb = facts.bodies.get(d)
                    if hb is not None and hb.kind == "fn" and hb.local_ty(0)["s"] == "bool" and hb.crate is tw.crate:
                        if [1 for w in words for (b2, cs2, m2) in sites(facts, tr, w) if b2 is hb and m2 in CAS]:
                            W = hb
                            hcalls.append(c)
            if W is not tw:
                rep.saw(W)
                rep.note("%s::try_withdraw delegates to %s" % (adt_def.split("::")[-1], W.def_))
                gt = graph(tw)
                # everything try_withdraw returns is the helper's verdict, `true` on its true edge, or a refusal
                okd = True
                for (i_, j_, node) in _ret_nodes(tr, tw):
                    for lf in leaves(node):
                        lf = peel(lf)
                        if lf[0] == "const" and lf[1] == "false":
                            continue
                        if tr.local_sync_callee(lf) is W:
                            continue
                        if lf[0] == "const" and lf[1] == "true":
                            dom = False
                            for e in dominating_edges(tr, tw, i_):
                                if e["kind"] == "bool" and e["label"] == "true" and tr.local_sync_callee(e["node"]) is W:
                                    dom = True
                            if dom:
                                continue
                        okd = False
                rep.ob("C08.GRANT", "%s|%s|delegates" % (tw.crate.name, tw.def_), okd, "%s:%d" % (tw.span["file"], tw.span["line"]),
                       "try_withdraw grants exactly when %s does" % W.def_.split("::")[-1] if okd else
                       "try_withdraw can grant without its withdrawal helper having granted")
        g = graph(W)
        cas_sites = [(b, cs, m) for w in words for (b, cs, m) in sites(facts, tr, w)
                     if b is W and (m in CAS or m in ("fetch_update", "try_update"))]
        # success edges: is_ok(&cas_result) true edge, or Ok variant of the CAS result
        succ_edges = set()
        for (_b, cs, m) in cas_sites:
            V = ("call", W.crate.name, W.def_, cs.bb)
            for bb in range(g.n):
                sw = g.switch(bb)
                if sw is None:
                    continue
                if sw.kind == "enum" and "Ok" in sw.variants:
                    node = peel(tr.place(W, sw.place, sw.defloc))
                    if node == V:
                        succ_edges.add((bb, sw.variants["Ok"]))
                elif sw.kind == "bool":
                    cond = peel(tr.operand(W, sw.cond, (bb, len(g.stmts(bb)))))
                    if cond[0] == "call":
                        cc = tr.call_of(cond)
                        if cc.name == "is_ok" and peel(tr.operand(cc.g.b, cc.args[0], cc.loc)) == V:
                            succ_edges.add((bb, sw.variants["true"]))
                        if cc.name == "is_err" and peel(tr.operand(cc.g.b, cc.args[0], cc.loc)) == V:
                            succ_edges.add((bb, sw.variants["false"]))
        n_true = 0
        from ..util import ret_assigns as _ra
        for (i, j, node0) in _ra(tr, W):
            for node in [peel(x) for x in leaves(node0)]:
                if True:
                    if node[0] == "const" and node[1] == "true":
                        n_true += 1
                        ok = bool(succ_edges) and g.edges_dominate(succ_edges, i)
                        rep.ob("C08.GRANT", "%s|%s|true#%d" % (W.crate.name, W.def_, n_true - 1), ok, g.where(i, j),
                               "`true` (retry granted) is returned only on the success edge of the subtracting compare-exchange" if ok else
                               "`true` (retry granted) is reachable without a successful compare-exchange on the balance")
                    elif node[0] not in ("const",):
                        # non-constant result (e.g. `cas.is_ok()` returned directly): must derive from a CAS result
                        ok = any(x[0] == "call" and tr.call_of(x).bb in [cs.bb for (_b, cs, _m) in cas_sites]
                                 for x in tr.walk(node))
                        n_true += 1
                        rep.ob("C08.GRANT", "%s|%s|ret#%d" % (W.crate.name, W.def_, n_true - 1), ok, g.where(i, j),
                               "returned grant derives from the compare-exchange result" if ok else "returned grant does not derive from a compare-exchange result")
        rep.floor("C08.grant-sites:" + adt_def.split("::")[-1], n_true, 1)
        # guard: CAS new = current - amount and CAS block dominated by !(current < amount)
        for (_b, cs, m) in cas_sites:
            if m not in CAS:
                continue
            new = peel(tr.operand(W, cs.args[2], cs.loc))
            ok = False
            detail = "new balance is not `observed - amount`"
            # idiom: match observed.checked_sub(amount) { Some(new) => CAS(observed, new), None => refuse }
            nn = new
            while nn[0] in ("field", "downcast"):
                if nn[0] == "downcast" and nn[2] != "Some":
                    break
                nn = peel(nn[1])
            if nn[0] == "call" and tr.call_of(nn).name == "checked_sub":
                cc = tr.call_of(nn)
                obs = peel(tr.operand(W, cc.args[0], cc.loc))
                exp = peel(tr.operand(W, cs.args[1], cs.loc))
                if obs == exp:
                    ok = True
                    detail = "subtracting CAS uses observed.checked_sub(amount): it exists only when observed >= amount (%s)" % cc.where()
            if new[0] == "binop" and new[1] in ("Sub", "SubWithOverflow", "SubUnchecked") or (new[0] == "field" and peel(new[1])[0] == "binop"):
                bn = new if new[0] == "binop" else peel(new[1])
                cur, amt = bn[2], bn[3]
                # find a switch on Lt(cur, amt) / Ge(cur, amt)
                for bb in range(g.n):
                    sw = g.switch(bb)
                    if sw is None or sw.kind != "bool":
                        continue
                    cond = peel(tr.operand(W, sw.cond, (bb, len(g.stmts(bb)))))
                    if cond[0] == "binop" and cond[1] in ("Lt", "Ge") and peel(cond[2]) == peel(cur) and _same_amount(cond[3], amt):
                        edge = (bb, sw.variants["false"]) if cond[1] == "Lt" else (bb, sw.variants["true"])
                        if g.edge_dominates(edge, cs.bb):
                            ok = True
                            detail = "subtracting CAS is dominated by the guard observed >= amount (%s)" % g.where(bb)
                # the observed value may come from several places (the first load, or the value a failed exchange handed
                # back): each of them passes its own `>= amount` test on every way to the exchange
                alts = [peel(x) for x in leaves(peel(cur))]
                if not ok and len(alts) > 1:
                    all_ok = True
                    for a in alts:
                        root = a
                        while root[0] in ("field", "downcast"):
                            root = peel(root[1])
                        if root[0] != "call":
                            all_ok = False
                            break
                        start = tr.call_of(root).target
                        passes = []
                        for bb in range(g.n):
                            sw = g.switch(bb)
                            if sw is None or sw.kind != "bool":
                                continue
                            cond = peel(tr.operand(W, sw.cond, (bb, len(g.stmts(bb)))))
                            if cond[0] == "binop" and cond[1] in ("Lt", "Ge") and peel(cond[2]) == a and _same_amount(cond[3], amt):
                                passes.append((bb, sw.variants["false"]) if cond[1] == "Lt" else (bb, sw.variants["true"]))
                        if start is None or not passes or cs.bb in g.reach([start], kinds=(N,), avoid_edges=passes):
                            all_ok = False
                            break
                    if all_ok:
                        ok = True
                        detail = "every value the exchange may start from (first load, value handed back by a failed exchange) passes its own `>= amount` test on the way"
            rep.ob("C08.GUARD", "%s|%s|cas" % (W.crate.name, W.def_), ok, cs.where(), detail)
        # ... the same for a withdrawal written as `fetch_update(|cur| ..)`: the closure answers Some(cur - amount) only
        # under cur >= amount (or hands back `cur.checked_sub(amount)`); `cur > 0` with a saturating subtraction grants a
        # full-price retry for a partial balance
        for (_b, cs, m) in cas_sites:
            if m not in ("fetch_update", "try_update"):
                continue
            clo = peel(tr.expand(tr.operand(W, cs.args[-1], cs.loc)))
            child = None
            if clo[0] == "agg":
                _cb, rvc = tr.agg_of(clo)
                child = facts.bodies.get(rvc.get("def")) if rvc.get("ak") == "closure" else None
            if child is None:
                rep.ob("C08.GUARD", "%s|%s|fetch_update" % (W.crate.name, W.def_), False, cs.where(), "the update function of the withdrawal is not a closure of this crate")
                continue
            rep.saw(child)
            gc = graph(child)
            okg, detail = True, "the update closure subtracts the cost only under observed >= cost"
            nsome = 0
            from ..util import ret_assigns as _ra2
            for (i, j, node0) in _ra2(tr, child):
                for node in [peel(x) for x in leaves(node0)]:
                    if node[0] == "call" and tr.call_of(node).name == "checked_sub":
                        nsome += 1
                        continue          # Some exactly when observed >= cost
                    if node[0] != "agg":
                        okg, detail = False, "the update closure returns %s" % show(node)[:60]
                        continue
                    b2, rv2 = tr.agg_of(node)
                    if rv2.get("variant") != "Some":
                        continue
                    nsome += 1
                    v = peel(tr.expand(tr.operand(b2, rv2["ops"][0], (node[3], node[4])), upvars=True))
                    vv = v
                    while vv[0] in ("field", "downcast"):
                        vv = peel(vv[1])
                    cur = amt = None
                    if vv[0] == "binop" and vv[1].startswith("Sub"):
                        cur, amt = peel(vv[2]), peel(vv[3])
                    elif vv[0] == "call" and tr.call_of(vv).name in ("saturating_sub", "wrapping_sub", "checked_sub", "sub") and len(tr.call_of(vv).args) == 2:
                        cc = tr.call_of(vv)
                        cur, amt = [peel(tr.expand(tr.operand(cc.g.b, a, cc.loc), upvars=True)) for a in cc.args]
                        if cc.name == "checked_sub" and v[0] == "field":
                            continue      # payload of checked_sub's Some: guarded by construction
                    if cur is None:
                        okg, detail = False, "the new balance %s is not `observed - cost`" % show(v)[:60]
                        continue
                    guarded = False
                    for e in dominating_edges(tr, child, node[3]):
                        if e["kind"] != "bool":
                            continue
                        cm = cmp_on_edge(tr, e)
                        if cm is None:
                            continue
                        op, x, y = cm[0], peel(tr.expand(cm[1], upvars=True)), peel(tr.expand(cm[2], upvars=True))
                        if (op == "Ge" and x == cur and y == amt) or (op == "Le" and y == cur and x == amt):
                            guarded = True
                    if not guarded:
                        okg, detail = False, ("the update closure answers Some(%s) without the guard observed >= cost: a balance below the cost still buys a retry"
                                              % show(v)[:50])
            rep.ob("C08.GUARD", "%s|%s|fetch_update" % (W.crate.name, W.def_), okg and nsome > 0, cs.where(), detail if nsome else "the update closure never answers Some")
        # deposit: written value is min(_, cap)
        gd = graph(dp)
        nd = 0
        cap_fields = set()      # fields of the budget the deposit caps the balance with (the configured maximum)
        for w in words:
            for (b, cs, m) in sites(facts, tr, w):
                if m == "load":
                    continue
                vals = []
                if b is dp and m == "store":
                    vals = [tr.expand(tr.operand(dp, cs.args[1], cs.loc))]
                elif b is dp and m in CAS:
                    vals = [tr.expand(tr.operand(dp, cs.args[2], cs.loc))]
                elif b.parent == dp.def_ or b is dp:
                    if m in ("fetch_update", "try_update") and b is dp:
                        clo = peel(tr.expand(tr.operand(dp, cs.args[-1], cs.loc)))
                        if clo[0] == "agg":
                            cb, rv = tr.agg_of(clo)
                            child = [x for x in facts.crates[cb.crate.name].bodies if x.def_ == rv["def"]]
                            if child:
                                vals = _returned_values(tr, child[0])
                if not vals:
                    continue
                nd += 1
                for v in vals:
                    for lf in leaves(v):
                        lf = peel(lf)
                        if lf[0] == "call" and tr.call_of(lf).def_ in ("core::cmp::Ord::min", "core::cmp::min"):
                            cm_ = tr.call_of(lf)
                            for a_ in cm_.args:
                                cap_fields |= {x[2] for x in tr.walk(tr.expand(tr.operand(cm_.g.b, a_, cm_.loc), upvars=True), limit=120)
                                               if x[0] == "field" and x[3] == adt_def and isinstance(x[2], str)}
                ok = all(_is_capped(tr, v) for v in vals)
                rep.ob("C08.CAP", "%s|%s|%s" % (dp.crate.name, dp.def_, m), ok, cs.where(),
                       "deposited balance is min(_, maximum)" if ok else "deposited balance is not capped by min(_, maximum)")
        rep.floor("C08.deposit-writes:" + adt_def.split("::")[-1], nd, 1)
        facts, tr = facts0, tr0
        # INIT: in every constructor the initial balance is bounded by the same configured maximum: either it is
        # computed from the very parameters the maximum is computed from, or it is min(_, that)
        from ..util import agg_sites
        ninit = 0
        for (ab, i, j, rv) in agg_sites(facts, adt_def):
            for w in words:
                if w[1] not in rv["fields"]:
                    continue
                ninit += 1
                rep.saw(ab)
                init = tr.expand(tr.operand(ab, rv["ops"][rv["fields"].index(w[1])], (i, j)))
                cap_params = set()
                for fn_, op_ in zip(rv["fields"], rv["ops"]):
                    if fn_ == w[1] or any(fn_ == w2[1] for w2 in words):
                        continue
                    if fn_ not in cap_fields:
                        continue
                    cap_params |= {x for x in tr.walk(tr.expand(tr.operand(ab, op_, (i, j))), limit=200) if x[0] == "param"}
                ok = _init_bounded(tr, init, cap_params)
                rep.ob("C08.INIT", "%s|%s|init.%s" % (ab.crate.name, ab.def_, w[1]), ok, "%s:%d" % (ab.span["file"], ab.blocks[i]["stmts"][j]["span"]["line"]),
                       "the initial balance is bounded by the configured maximum" if ok else
                       "the initial balance is computed from a different parameter than the maximum and is not capped by it: a budget "
                       "configured with initial > maximum starts above its maximum and grants retries that were never funded")
        rep.floor("C08.init-sites:" + adt_def.split("::")[-1], ninit, 1)
        # CEILING-CONFIG: a budget whose maximum lives in a nested controller must hand the controller bounds that
        # come from its own constructor parameters, not from a defaulted configuration
        from ..builders import _classify, _classify_call_field
        for (ab, i, j, rv) in agg_sites(facts, adt_def):
            for fn_, op_ in zip(rv["fields"], rv["ops"]):
                fty = crate_.types[next(f["ty"] for f in facts.adt(adt_def)["variants"][0]["fields"] if f["name"] == fn_)]
                if fty.get("k") != "adt" or not facts.adt(fty.get("def") or "") or not atomic_fields(facts, fty["def"]):
                    continue
                ctor = peel(tr.expand(tr.operand(ab, op_, (i, j))))
                if ctor[0] != "call":
                    continue
                cc = tr.call_of(ctor)
                for a_ in cc.args:
                    cfgv = peel(tr.expand(tr.operand(ab, a_, cc.loc)))
                    pl = a_.get("move") or a_.get("copy")
                    cty = ab.local_ty(pl["l"]) if pl and not pl["p"] else {}
                    cadt = facts.adt(cty.get("def") or "")
                    if cadt is None or cadt["kind"] != "struct":
                        continue
                    for f2 in cadt["variants"][0]["fields"]:
                        if not (f2["name"].startswith("max") or f2["name"].startswith("min")):
                            continue
                        if cfgv[0] == "call":
                            kinds = _classify_call_field(tr, ab, tr.call_of(cfgv), f2["name"], f2["name"], cty["def"], 0)
                        elif cfgv[0] == "agg":
                            b2, rv2 = tr.agg_of(cfgv)
                            if f2["name"] not in rv2.get("fields", []):
                                continue
                            kinds = _classify(tr, b2, tr.expand(tr.operand(b2, rv2["ops"][rv2["fields"].index(f2["name"])], (cfgv[3], cfgv[4]))), f2["name"], cty["def"])
                        else:
                            continue
                        bad = "default" in kinds and "param" not in kinds
                        rep.ob("C08.CEILING-CONFIG", "%s|%s|%s.%s" % (ab.crate.name, ab.def_, fn_, f2["name"]), not bad,
                               "%s:%d" % (ab.span["file"], ab.blocks[i]["stmts"][j]["span"]["line"]),
                               "%s of the %s handed to %s comes from the constructor's parameters" % (f2["name"], cty["def"].split("::")[-1], fn_) if not bad else
                               "%s of the %s handed to %s is the default value, not the budget's configured bound: the dynamic ceiling "
                               "ignores the configured maximum/minimum" % (f2["name"], cty["def"].split("::")[-1], fn_))


def _ret_nodes(tr, body):
    from ..util import ret_assigns
    return ret_assigns(tr, body)


def _same_amount(a, b):
    return peel(a) == peel(b)


def _returned_values(tr, body):
    """origins of the Some(x) payloads assigned to _0 of a closure body"""
    out = []
    for i, blk in enumerate(body.blocks):
        for j, s in enumerate(blk["stmts"]):
            if s["k"] == "assign" and s["lhs"]["l"] == 0 and not s["lhs"]["p"]:
                rv = s["rv"]
                if rv["k"] == "agg" and rv.get("variant") == "Some":
                    out.append(tr.expand(tr.operand(body, rv["ops"][0], (i, j))))
                elif rv["k"] == "use":
                    n = peel(tr.operand(body, rv["op"], (i, j)))
                    if n[0] == "agg":
                        b2, rv2 = tr.agg_of(n)
                        if rv2.get("variant") == "Some":
                            out.append(tr.expand(tr.operand(b2, rv2["ops"][0], (n[3], n[4]))))
                        else:
                            out.append(n)
                    else:
                        out.append(n)
    return out


def _init_bounded(tr, node, cap_params, depth=0):
    """every origin of the initial balance is a parameter the maximum is computed from, a zero, or min(_, such)"""
    if depth > 8:
        return False
    for lf in leaves(node):
        lf = peel(lf)
        while lf[0] == "cast" or (lf[0] == "field" and peel(lf[1])[0] == "binop"):
            lf = peel(lf[2] if lf[0] == "cast" else lf[1])
        if lf[0] == "param":
            if lf in cap_params:
                continue
            return False
        if lf[0] == "const":
            if str(lf[3] if len(lf) > 3 else lf[1]) in ("0",):
                continue
            return False
        if lf[0] == "binop" and lf[1].startswith("Mul"):
            # scaling by a constant
            a, b = peel(lf[2]), peel(lf[3])
            if b[0] == "const" and _init_bounded(tr, a, cap_params, depth + 1):
                continue
            if a[0] == "const" and _init_bounded(tr, b, cap_params, depth + 1):
                continue
            return False
        if lf[0] == "call":
            c = tr.call_of(lf)
            args = [tr.expand(tr.operand(c.g.b, a, c.loc)) for a in c.args]
            if c.def_ in ("core::cmp::Ord::min", "core::cmp::min") and len(args) == 2:
                if _init_bounded(tr, args[0], cap_params, depth + 1) or _init_bounded(tr, args[1], cap_params, depth + 1):
                    continue
                return False
            if atomic_method(c) == "new" and args:
                if _init_bounded(tr, args[0], cap_params, depth + 1):
                    continue
                return False
            if c.name in ("saturating_mul", "into", "from") and args and _init_bounded(tr, args[0], cap_params, depth + 1):
                continue
            return False
        return False
    return True


def _is_capped(tr, node):
    for lf in leaves(node):
        lf = peel(lf)
        if lf[0] != "call":
            return False
        c = tr.call_of(lf)
        if c.def_ not in ("core::cmp::Ord::min", "core::cmp::min"):
            return False
    return True
