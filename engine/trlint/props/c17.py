"""C17 — fallback never replaces a success and handles exactly the errors it should."""
from ..core import graph, Call, peel, leaves, show, N, U, D
from ..util import *
from ..pair import FN_TRAITS

EXPLANATION = (
    "Decides on the fallback call coroutine: (OK-PASS) on the Ok edge of the awaited inner result the returned "
    "Ok payload is that payload, through moves only; (LAZY) every call of user-supplied strategy code — value "
    "function, error mappers, backup service, handle predicate, i.e. every call through a boxed Fn — is "
    "edge-dominated by the Err edge of the inner result, so nothing of the fallback runs for a success or before "
    "the inner call; (GATE) the strategy dispatch is dominated by the `true` value of "
    "handle_predicate.map(|p| p(&error)).unwrap_or(true) — default constant true, predicate applied to the "
    "current error — and its `false` edge returns Inner(error) with the current error; (ARMS) each of the six "
    "strategy arms builds its result from a call of that arm's own payload with the prescribed arguments "
    "(none / &error / &request-clone,&error / request-clone for the backup, whose Ok passes unchanged and whose "
    "Err becomes FallbackFailed / the transformed error inside Inner; value is a clone of the configured value), "
    "where the request clone is a clone of the request forwarded to the inner service; (CONFIG) builder methods "
    "keep the predicate and strategy that were configured. Closures themselves are opaque by definition."
    ' (CLONE-FAITHFUL) the hand-written Clone of the fallback error maps every variant to itself.'
    ' (GATE-ONCE) the handle predicate is applied once per inner error.')
RULE = "one obligation per Ok-return, per user-code call site, per strategy arm, per builder method field"
TRUSTED = ["rustc MIR construction", "Option::map / unwrap_or semantics"]
ASSUMPTIONS = []
CONFIG_CRATES = ["tower_resilience_fallback"]
TECHNIQUE = "static analysis of built MIR: value-flow of returned payloads, edge dominance of user-code calls, per-arm argument origin table, builder field preservation"

CRATE = "tower_resilience_fallback"
ARMS = {
    # variant: (result variant, number of arguments, error wrapper)
    "Value": "clone", "ValueFn": 0, "FromError": 1, "FromRequestError": 2, "Service": "svc", "Exception": "exc",
}


def _user_calls(tr, b):
    """calls through Fn traits on trait objects / type parameters (user-supplied closures)"""
    out = []
    g = graph(b)
    for c in g.calls():
        if c.def_ in FN_TRAITS and c.self_kind in ("dyn", "param", "ref_dyn", "ref_param"):
            out.append(c)
    return out


def run(facts, tr, rep):
    # shallow view: a strategy arm moved into a private (async) helper function is analysed in place
    facts, tr = facts.inl, tr.inl
    _n_cl = check_clone_variants(facts, tr, rep, "C17.CLONE-FAITHFUL", crate_names=["tower_resilience_fallback"])
    rep.note("hand-written enum Clone arms examined: %d" % _n_cl)
    sbs = service_call_bodies(facts, crate=CRATE)
    sites = [(b, c) for sb in sbs for (b, c) in inner_calls(facts, sb)]
    rep.floor("C17.inner-call-sites", len(sites), 1)
    if not sites:
        return
    b, c = sites[0]
    rep.saw(b)
    g = graph(b)
    V0 = ("call", b.crate.name, b.def_, c.bb)
    ia = None
    for a in g.awaits():
        if a.poll_bb is not None and peel(tr.expand(tr.operand(b, a.awaitee, (a.into_bb, len(g.stmts(a.into_bb)))))) == V0:
            ia = a
    if ia is None:
        rep.ob("C17.OK-PASS", skey(b, "await"), False, c.where(), "the inner future is not awaited")
        return
    R = await_node(b, ia)
    err_edges, ok_edges = set(), set()
    for bb in range(g.n):
        sw = g.switch(bb)
        if sw is None or sw.kind != "enum" or "Err" not in sw.variants:
            continue
        node = peel(tr.expand(tr.place(b, sw.place, sw.defloc)))
        if node == R or (node[0] == "downcast" and node[2] == "Ready" and peel(node[1]) == R) or derives(tr, node, R, variants=("Ready",)):
            if node[0] == "field" and str(node[2]) != "0":
                continue
            err_edges.add((bb, sw.variants["Err"]))
            ok_edges.add((bb, sw.variants["Ok"]))
    rep.floor("C17.result-matches", len(err_edges), 1)
    # ---------------------------------------------------------------- OK-PASS
    nok = 0
    for (i, j, node) in ret_assigns(tr, b):
        if node[0] != "agg":
            continue
        _b2, rv = tr.agg_of(node)
        if rv.get("variant") != "Ok":
            continue
        if not any(g.edge_dominates(e, i) for e in ok_edges):
            continue
        nok += 1
        payload = peel(tr.expand(tr.operand(b, rv["ops"][0], (i, j))))
        ok = derives(tr, payload, R, variants=("Ready", "Ok")) and not _through_call(tr, payload)
        rep.ob("C17.OK-PASS", skey(b, "ok-return#%d" % (nok - 1)), ok, g.where(i, j),
               "a successful inner response is returned unchanged" if ok else "on success the returned payload is %s, not the inner response" % show(payload))
    rep.floor("C17.ok-returns", nok, 1)
    # ---------------------------------------------------------------- LAZY
    ucalls = [(b, x) for x in _user_calls(tr, b)]
    for ch in descendants(facts, b):
        if ch is b:
            continue
        for x in _user_calls(tr, ch):
            ucalls.append((ch, x))
    for sb0 in sbs:
        for x in _user_calls(tr, sb0):
            ucalls.append((sb0, x))
    # user code reached through a private synchronous helper (e.g. `config.should_handle(&error)`) runs at the helper's call site
    for c0 in g.calls():
        hb0 = tr.local_sync_callee(("call", b.crate.name, b.def_, c0.bb))
        if hb0 is not None and hb0.crate.name == CRATE:
            for hd in descendants(facts, hb0):
                for x in _user_calls(tr, hd):
                    ucalls.append((b, _Via(x, c0.bb)))
                    rep.saw(hd)
    rep.floor("C17.user-code-call-sites", len(ucalls), 6)
    for n, (ub, uc) in enumerate(ucalls):
        rep.saw(ub)
        if ub is b:
            site = uc.bb
        elif ub in sbs:
            site = None      # user code called synchronously in Service::call, before the inner call exists
        else:
            # closure nested in the coroutine: where is it created / used
            sites2 = tr.aggsites((ub.crate.name, ub.def_))
            site = sites2[0][1] if sites2 and sites2[0][0] is b else None
        ok = site is not None and g.edges_dominate(err_edges, site)
        rep.ob("C17.LAZY", skey(ub, "user-call#%d" % n), ok, uc.where(),
               "user-supplied fallback code runs only on the Err edge of the inner result" if ok else
               "user-supplied fallback code (%s) can run although the inner call succeeded or has not been made yet" % uc.path[:70])
    # ---------------------------------------------------------------- GATE
    strat_sw, strat_size = None, -1
    for bb in range(g.n):
        sw = g.switch(bb)
        if sw is None or sw.kind != "enum" or not ({"Value", "Exception", "Service"} <= set(sw.variants)) or not g.live(bb):
            continue
        # the dispatch is the match on the strategy whose arms hold the work (a `strategy.label()` helper inlined next to
        # it matches on the same enum with one-block arms)
        size = len({x for t_ in set(sw.variants.values()) if t_ is not None for x in g.reach([t_], kinds=(N,)) if g.edge_dominates((bb, t_), x)})
        if strat_sw is None or size > strat_size:
            strat_sw, strat_size = sw, size
    if strat_sw is None:
        rep.anchor_missing("dispatch on FallbackStrategy in the fallback call future")
        return
    gate_ok = False
    gate_where = g.where(strat_sw.bb)
    false_tgt = None

    def is_err(n):
        return derives(tr, peel(n), R, variants=("Ready", "Err"))

    def pred_field(n):
        """n mentions a config field whose type is an optional `dyn Fn(&E) -> bool` (the handle predicate, by type)"""
        for x in tr.walk(n, limit=60):
            if x[0] == "field" and x[3] and facts.adt(x[3]) is not None:
                crate_ = [c_ for c_ in facts.crates.values() if x[3] in c_.adts][0]
                for f in facts.adt(x[3])["variants"][0]["fields"]:
                    if f["name"] == x[2]:
                        t = crate_.types[f["ty"]]["s"]
                        if "Option<" in t and "Fn(&" in t and "-> bool" in t:
                            return True
                        # ... or a private enum shaped like that Option (`enum ErrorFilter { Any, Matching(predicate) }`)
                        fd = crate_.types[f["ty"]].get("def")
                        fa = facts.adt(fd) if fd else None
                        if fa is not None and len(fa.get("variants", [])) == 2:
                            crf = [c_ for c_ in facts.crates.values() if fd in c_.adts][0]
                            pays = [v for v in fa["variants"] if len(v["fields"]) == 1]
                            units = [v for v in fa["variants"] if not v["fields"]]
                            if len(pays) == 1 and len(units) == 1:
                                pt = crf.types[pays[0]["fields"][0]["ty"]]["s"]
                                if "Fn(&" in pt and "-> bool" in pt:
                                    return True
        return False

    def verdict_leaves(node, depth=0):
        """(all leaves acceptable?, saw a predicate application on the current error?)"""
        ok_all, saw = True, False
        for lf in leaves(node):
            lf = peel(lf)
            if lf[0] == "const":
                if lf[1] != "true":
                    ok_all = False
                continue
            if lf[0] != "call":
                ok_all = False
                continue
            cc = tr.call_of(lf)
            if cc.name == "unwrap_or" and len(cc.args) == 2:
                dflt = peel(tr.expand(tr.operand(cc.g.b, cc.args[1], cc.loc), upvars=True))
                src = tr.expand(tr.operand(cc.g.b, cc.args[0], cc.loc), upvars=True)
                cur = False
                for mc in calls_in(tr, src, lambda x: x.name == "map"):
                    cl = peel(tr.expand(tr.operand(mc.g.b, mc.args[1], mc.loc), upvars=True))
                    if cl[0] == "agg":
                        for chn in tr.children(cl):
                            if is_err(tr.expand(chn, upvars=True)):
                                cur = True
                if dflt[0] == "const" and dflt[1] == "true" and pred_field(src) and cur:
                    saw = True
                else:
                    ok_all = False
                continue
            if cc.def_ in FN_TRAITS and len(cc.args) == 2:
                callee = tr.expand(tr.operand(cc.g.b, cc.args[0], cc.loc), upvars=True)
                args = peel(tr.expand(tr.operand(cc.g.b, cc.args[1], cc.loc), upvars=True))
                parts = [peel(tr.expand(x, upvars=True)) for x in tr.children(args)] if args[0] == "agg" else []
                if pred_field(callee) and len(parts) == 1 and is_err(parts[0]):
                    saw = True
                else:
                    ok_all = False
                continue
            hb_ = tr.local_sync_callee(lf)
            if hb_ is not None and hb_.local_ty(0)["s"] == "bool" and depth < 2:
                with tr.bound(hb_, lf):
                    for r_ in tr.helper_returns(hb_):
                        o2, s2 = verdict_leaves(r_, depth + 1)
                        ok_all = ok_all and o2
                        saw = saw or s2
                continue
            ok_all = False
        return ok_all, saw

    for e in dominating_edges(tr, b, strat_sw.bb):
        if e["kind"] != "bool" or "via" in e:
            continue
        nd = e["node"]
        neg = False
        while nd[0] == "unop" and nd[1] == "Not":
            neg = not neg
            nd = peel(nd[2])
        ok_all, saw = verdict_leaves(nd)
        if saw and ok_all:
            # a constant `true` among the verdict's origins is the "no predicate configured" default only: its site is
            # reached only through the None edge of a test on the predicate field (not, say, for one particular strategy)
            from ..util import _value_sites
            vs = _value_sites(tr, b, e["sw"].cond, (e["bb"], len(g.stmts(e["bb"])))) or []
            for (bb_, _ix, nd_) in vs:
                nd_ = peel(nd_)
                if nd_[0] == "const" and nd_[1] == "true" and len(vs) > 1:
                    des = dominating_edges(tr, b, bb_)
                    if not any(optionlike_role(facts, b, x) == "none" and pred_field(x["node"]) for x in des):
                        ok_all = False
        if saw:
            holds = (e["label"] == "true") != neg
            gate_ok = ok_all and holds
            false_tgt = e["sw"].variants["true" if neg else "false"]
            gate_pass = (e["bb"], e["sw"].variants["false" if neg else "true"])
            gate_where = g.where(e["bb"])
    rep.ob("C17.GATE", skey(b, "predicate-gate"), gate_ok, gate_where,
           "the strategy runs only when handle_predicate.map(|p| p(&error)).unwrap_or(true) is true for the current error" if gate_ok else
           "the strategy dispatch is not gated by handle_predicate applied to the current error with default `true`")
    # GATE-ONCE: one error, one decision.  The predicate is user code and need not be pure (a budget, a sampler): applied
    # twice to the same error its answers may differ, and then the error is announced as handled but returned unhandled
    papps = []
    for c_ in g.calls():
        if c_.def_ in FN_TRAITS and len(c_.args) == 2 and g.live(c_.bb):
            callee = tr.expand(tr.operand(b, c_.args[0], c_.loc), upvars=True)
            if pred_field(callee):
                papps.append(c_)
    again = [(x, y) for x in papps for y in papps if x is not y and x.target is not None and y.bb in g.reach([x.target], kinds=(N,))]
    rep.ob("C17.GATE-ONCE", skey(b, "predicate-applications"), bool(papps) and not again, again[0][1].where() if again else (papps[0].where() if papps else "-"),
           "the handle predicate is applied once per inner error" if papps and not again else
           ("the handle predicate is applied again at %s to an error it has already judged at %s: with a predicate that is not pure the two "
            "answers can differ (announced as handled, returned unhandled)" % (again[0][1].where(), again[0][0].where()) if again else
            "no application of the handle predicate found in the call future"))
    if false_tgt is not None:
        okf = False
        for (i, j, node) in ret_assigns(tr, b):
            if i in g.reach([false_tgt], kinds=(N,), stop=lambda x: x == strat_sw.bb) and node[0] == "agg":
                _b2, rv = tr.agg_of(node)
                if rv.get("variant") == "Err":
                    inner = peel(tr.expand(tr.operand(b, rv["ops"][0], (i, j))))
                    if inner[0] == "agg" and tr.agg_of(inner)[1].get("variant") == "Inner":
                        pl = peel(tr.expand(tr.operand(b, tr.agg_of(inner)[1]["ops"][0], (inner[3], inner[4]))))
                        okf = derives(tr, pl, R, variants=("Ready", "Err")) and not _through_call(tr, pl)
        rep.ob("C17.GATE", skey(b, "refused-error-unchanged"), okf, g.where(false_tgt),
               "an error the predicate refuses is returned unchanged as Inner(error)" if okf else
               "an error the predicate refuses is not returned as Inner(that error)")
    # ---------------------------------------------------------------- ARMS
    req_clone_ok = None
    narm = 0
    # The strategy is immutable configuration; a second `match` on it ahead of the dispatch (`let error = match strategy {
    # Exception(t) => t(error), _ => error }`) decides the same way as the dispatch does.  What such a match did under
    # the edges of *other* variants cannot have happened on the way into the arm of variant v.
    def _norm(n_, depth=0):
        """the place read, with `Arc::deref` calls looked through (two reads of `config.strategy` deref the Arc twice)"""
        n_ = peel(n_)
        if depth > 8:
            return n_
        if n_[0] == "field":
            return ("field", _norm(n_[1], depth + 1), n_[2], n_[3])
        if n_[0] in ("deref", "ref"):
            return _norm(n_[1], depth + 1)
        if n_[0] == "call" and tr.call_of(n_).def_ in ("core::ops::deref::Deref::deref", "core::convert::AsRef::as_ref", "core::borrow::Borrow::borrow") and tr.call_of(n_).args:
            cc_ = tr.call_of(n_)
            return _norm(tr.expand(tr.operand(cc_.g.b, cc_.args[0], cc_.loc), upvars=True), depth + 1)
        return n_
    strat_node = _norm(tr.expand(tr.place(b, strat_sw.place, strat_sw.defloc)))
    others_sw = []
    for bb_ in range(g.n):
        sw_ = g.switch(bb_)
        if sw_ is None or sw_.kind != "enum" or bb_ == strat_sw.bb or not g.live(bb_):
            continue
        if _norm(tr.expand(tr.place(b, sw_.place, sw_.defloc))) == strat_node:
            others_sw.append(sw_)

    def labels_at(bb_):
        """per other strategy switch that decides bb_: the variants under which bb_ is reached"""
        out = []
        for sw_ in others_sw:
            labs = set()
            tgts_ = set(sw_.variants.values()) | {sw_.otherwise}
            for t_ in tgts_:
                if t_ is not None and t_ >= 0 and g.edge_dominates((sw_.bb, t_), bb_):
                    labs |= {nm for nm, tb in sw_.variants.items() if tb == t_}
                    if t_ == sw_.otherwise:
                        labs |= set(getattr(sw_, "rest", []))
            if labs:
                out.append(labs)
        return out

    def feasible_in(bb_, v_):
        return all(v_ in labs for labs in labels_at(bb_))
    gate_pass_ = locals().get("gate_pass")
    for v, spec in ARMS.items():
        tgt = strat_sw.variants.get(v)
        if tgt is None:
            rep.ob("C17.ARMS", skey(b, "arm." + v), False, g.where(strat_sw.bb), "strategy %s has no arm" % v)
            continue
        narm += 1
        arm = g.reach([tgt], kinds=(N,), stop=lambda x: g.term(x)["k"] == "return")
        payload_node = ("downcast", peel(tr.expand(tr.place(b, strat_sw.place, strat_sw.defloc))), v)
        calls_here = [x for x in _user_calls(tr, b) if x.bb in arm and g.edge_dominates((strat_sw.bb, tgt), x.bb)]
        ok = False
        detail = ""
        if spec == "clone":
            rets = [(i, j, n) for (i, j, n) in ret_assigns(tr, b) if g.edge_dominates((strat_sw.bb, tgt), i)]
            cl = [x for x in graph(b).calls() if x.def_ == CLONE and x.bb in arm and g.edge_dominates((strat_sw.bb, tgt), x.bb)
                  and derives(tr, peel(tr.expand(tr.operand(b, x.args[0], x.loc))), payload_node[1], variants=None)]
            ok = bool(cl) and not calls_here
            detail = "returns a clone of the configured value"
        else:
            pre = False
            if not calls_here and others_sw:
                # the arm's one user call made ahead of the dispatch, under this very variant of another match on the strategy
                # (and behind the predicate gate like the dispatch itself)
                cand = [x for x in _user_calls(tr, b) if labels_at(x.bb) and all(labs == {v} for labs in labels_at(x.bb))
                        and strat_sw.bb in g.reach([x.bb], kinds=(N,)) and (gate_pass_ is None or g.edge_dominates(gate_pass_, x.bb))]
                if len(cand) == 1:
                    calls_here, pre = cand, True
            if len(calls_here) != 1:
                rep.ob("C17.ARMS", skey(b, "arm." + v), False, g.where(tgt), "arm %s calls user code %d times (expected exactly once)" % (v, len(calls_here)))
                continue
            uc = calls_here[0]
            callee = peel(tr.expand(tr.operand(b, uc.args[0], uc.loc)))
            callee_ok = derives(tr, callee, payload_node[1], variants=None) and any(x[0] == "downcast" and x[2] == v for x in tr.walk(callee, limit=30))
            if pre and not callee_ok:
                callee_ok = any(x[0] == "downcast" and x[2] == v and _norm(x[1]) == strat_node for x in tr.walk(callee, limit=30))
            args = peel(tr.expand(tr.operand(b, uc.args[1], uc.loc)))
            parts = []
            if args[0] == "agg":
                parts = [peel(tr.expand(x)) for x in tr.children(args)]
            def is_err(n, v_=v):
                alts = [peel(x) for x in leaves(n)]
                live_ = [x for x in alts if not (x[0] == "call" and not feasible_in(tr.call_of(x).bb, v_))]
                return bool(live_) and all(derives(tr, x, R, variants=("Ready", "Err")) for x in live_)
            is_reqclone = lambda n: n[0] == "call" and tr.call_of(n).def_ == CLONE or (n[0] in ("upvar", "param"))
            def reqclone(n):
                n = peel(tr.expand(n, upvars=True, params=False))
                if n[0] == "call" and tr.call_of(n).def_ == CLONE:
                    cc = tr.call_of(n)
                    src = peel(tr.expand(tr.operand(cc.g.b, cc.args[0], cc.loc)))
                    return src[0] == "param" and src[3] == 2
                return False
            if spec == 0:
                ok = callee_ok and len(parts) == 0
                detail = "calls the value function with no arguments"
            elif spec == 1:
                ok = callee_ok and len(parts) == 1 and is_err(parts[0])
                detail = "calls the mapper with the current error"
            elif spec == 2:
                ok = callee_ok and len(parts) == 2 and reqclone(parts[0]) and is_err(parts[1])
                detail = "calls the mapper with (clone of the request, current error)"
            elif spec == "svc":
                ok = callee_ok and len(parts) == 1 and reqclone(parts[0])
                detail = "calls the backup service with a clone of the request"
                # Ok unchanged / Err -> FallbackFailed
                ff = [(i, j) for i, blk in enumerate(b.blocks) for j, s in enumerate(blk["stmts"])
                      if s["k"] == "assign" and s["rv"]["k"] == "agg" and s["rv"].get("variant") == "FallbackFailed" and i in arm]
                ok = ok and bool(ff)
            elif spec == "exc":
                ok = callee_ok and len(parts) == 1 and is_err(parts[0])
                detail = "transforms the current error"
                ucn = ("call", b.crate.name, b.def_, uc.bb)

                def _is_transformed(op_, loc_):
                    if peel(tr.expand(tr.operand(b, op_, loc_))) == ucn:
                        return True
                    pl_ = op_.get("move") or op_.get("copy")
                    if not pre or pl_ is None or pl_["p"]:
                        return False
                    # resolved ahead of the dispatch: of the definitions that reach the arm, those made under this variant
                    l_, at_ = pl_["l"], loc_
                    for _hop in range(6):
                        ds_ = g.reaching(l_, at_)
                        if len(ds_) == 1 and ds_[0][3] == "assign" and not ds_[0][4] and ds_[0][5]["k"] == "use":
                            src_ = ds_[0][5]["op"].get("move") or ds_[0][5]["op"].get("copy")
                            if src_ is not None and not src_["p"]:
                                l_, at_ = src_["l"], (ds_[0][1], ds_[0][2])
                                continue
                        break
                    ds_ = [d_ for d_ in g.reaching(l_, at_) if feasible_in(d_[1], v)]
                    return bool(ds_) and all(peel(tr.expand(tr._defnode(b, g, d_, 0))) == ucn for d_ in ds_)
                inn = [(i, j) for i, blk in enumerate(b.blocks) for j, s in enumerate(blk["stmts"])
                       if s["k"] == "assign" and s["rv"]["k"] == "agg" and s["rv"].get("variant") == "Inner" and i in arm
                       and _is_transformed(s["rv"]["ops"][0], (i, j))]
                ok = ok and bool(inn)
        rep.ob("C17.ARMS", skey(b, "arm." + v), ok, g.where(tgt),
               "strategy %s %s, using its own payload" % (v, detail) if ok else
               "strategy %s does not %s with its own payload and the prescribed arguments" % (v, detail.replace("calls", "call").replace("returns", "return").replace("transforms", "transform")))
    rep.floor("C17.strategy-arms", narm, 6)


class _Via:
    """a user-code call inside a helper, attributed to the block of the helper's call site"""
    def __init__(self, c, bb):
        self.c, self.bb, self.path, self.def_, self.self_kind = c, bb, c.path, c.def_, c.self_kind

    def where(self):
        return self.c.where()


def _through_call(tr, node):
    """payload passes through a (non-trivial) call on its way"""
    n = peel(node)
    while n[0] in ("field", "downcast", "ref", "deref", "cast"):
        n = peel(n[2] if n[0] == "cast" else n[1])
    return False
