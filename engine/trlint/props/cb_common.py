"""Discovery shared by the circuit-breaker properties (C03, C04, C09)."""
from ..core import graph, Call, peel, leaves, show, N
from ..util import *

CRATE = "tower_resilience_circuitbreaker"
STATE_ENUM = "tower_resilience_circuitbreaker::circuit::CircuitState"


class CB:
    def __init__(self, facts, tr, rep):
        self.facts, self.tr, self.rep = facts, tr, rep
        self.ok = False
        self.services = [b for b in service_call_bodies(facts, crate=CRATE)]
        rep.floor("CB.service-call-impls", len(self.services), 2)
        self.sites = []            # (service_body, coroutine_body, inner Call, admission edge dict)
        self.admission = None      # body of the admission function
        for sb in self.services:
            for (b, c) in inner_calls(facts, sb):
                rep.saw(b)
                adm = None
                for e in dominating_edges(tr, b, c.bb):
                    if e["kind"] == "bool" and e["label"] == "true" and e["node"][0] == "call":
                        cc = tr.call_of(e["node"])
                        for d in cc.targets_def():
                            fb = facts.bodies.get(d)
                            if fb is not None and fb.crate.name == CRATE and fb.local_ty(0)["s"] == "bool":
                                adm = (e, cc, fb)
                self.sites.append((sb, b, c, adm))
                if adm and self.admission is None:
                    self.admission = adm[2]
        if self.admission is None:
            return
        a = self.admission
        st = a.local_ty(1)
        # self type of the admission fn: &mut Circuit
        t = st
        while t.get("k") == "ref":
            t = a.types[t["args"][0]]
        self.circuit_adt = t.get("def")
        adt = facts.adt(self.circuit_adt) if self.circuit_adt else None
        if adt is None:
            return
        self.circuit = adt
        crate = facts.crates[CRATE]
        self.state_field = None
        for f in adt["variants"][0]["fields"]:
            if crate.types[f["ty"]].get("def") == STATE_ENUM:
                self.state_field = f["name"]
        self.atomic_field = None
        for f in adt["variants"][0]["fields"]:
            if "core::sync::atomic::Atomic<u8>" in crate.types[f["ty"]]["s"]:
                self.atomic_field = f["name"]
        # transition function: the function that writes the state field
        ws = field_writes(facts, self.circuit_adt, self.state_field) if self.state_field else []
        self.state_writes = ws
        self.transition = ws[0][0] if ws and all(w[0] is ws[0][0] for w in ws) else None
        self.ok = self.state_field is not None
        self.roles = {}
        if self.ok:
            self._discover_roles()

    # ---------------------------------------------------------------- roles (robust to renaming private fns)
    def _is_circuit_method(self, fb):
        if fb is None or fb.crate.name != CRATE or fb.arg_count < 1:
            return False
        t = fb.local_ty(1)
        while t.get("k") == "ref":
            t = fb.types[t["args"][0]]
        return t.get("def") == self.circuit_adt

    def _discover_roles(self):
        """Name the circuit's methods by what they do rather than by what they are called:
        try_acquire  = the bool function whose true edge admits the wrapped call;
        record_failure / record_success = the circuit methods the service futures call on the true / false edge of
                       FailureClassifier::classify (public trait method);
        force_open / force_closed / reset = the circuit methods called by the public service methods of those names;
        evaluate     = any other circuit method that calls the transition function and is called only by recorders."""
        facts, tr = self.facts, self.tr
        roles = self.roles
        roles[self.admission.def_] = "try_acquire"
        for sb in self.services:
            for ch in descendants(facts, sb):
                g = graph(ch)
                for c in g.calls():
                    tg = [facts.bodies.get(d) for d in c.targets_def()]
                    tg = [t for t in tg if self._is_circuit_method(t) and t.def_ not in roles]
                    if not tg:
                        continue
                    for e in dominating_edges(tr, ch, c.bb):
                        if e["kind"] == "bool" and e["node"][0] == "call" and tr.call_of(e["node"]).name == "classify" and "via" not in e:
                            for t in tg:
                                roles.setdefault(t.def_, "record_failure" if e["label"] == "true" else "record_success")
        svc_adts = {sb.types[sb.impl["self_ty"]].get("def") for sb in self.services if sb.impl}
        for b in facts.crates[CRATE].bodies:
            root = facts.bodies.get(b.root) if getattr(b, "root", None) else b
            root = root or b
            nm = root.def_.split("::")[-1]
            if nm not in ("force_open", "force_closed", "reset") or root.j.get("vis") != "pub" or not root.impl:
                continue
            if root.types[root.impl["self_ty"]].get("def") not in svc_adts:
                continue
            for c in graph(b).calls():
                for d in c.targets_def():
                    t = facts.bodies.get(d)
                    if self._is_circuit_method(t):
                        roles.setdefault(t.def_, nm)
        self._lift_transition()
        if self.transition is not None:
            recs = {d for d, r in roles.items() if r.startswith("record_")}
            for cs in tr.callers(self.transition.def_):
                b = cs.g.b
                if b.def_ in roles or not self._is_circuit_method(b):
                    continue
                callers = {c.g.b.def_ for c in tr.callers(b.def_)}
                # the window evaluation trips the breaker (-> Open); a helper of a recorder that makes another
                # transition (e.g. an extracted half-open closing step) is part of that recorder
                tgts = {tgt for (b_, _cs, tgt) in self.transition_calls() if b_ is b}
                # ... and it *evaluates*: its transition is decided by a comparison with a configured threshold; a helper that
                # re-opens unconditionally (`reopen_after_failed_probe`) is a step of the recorder that calls it
                decides = any(e["kind"] == "bool" and any(mentions_field(tr, e["node"], fld_) for fld_ in
                                                          ("failure_rate_threshold", "slow_call_rate_threshold", "minimum_number_of_calls"))
                              for (b_, cs_, _t) in self.transition_calls() if b_ is b for e in dominating_edges(tr, b, cs_.bb))
                if callers and callers <= recs and tgts == {"Open"} and decides:
                    roles[b.def_] = "evaluate"

    def _lift_transition(self):
        """the transition function is the outermost circuit method through which every write of the state goes: a
        state-writing helper with a single calling function (`enter_state` called only by `transition_to`, or one
        helper per target state) is part of that caller"""
        facts, tr = self.facts, self.tr
        S = {w[0].def_ for w in self.state_writes}
        for _round in range(4):
            changed = False
            for d in sorted(S):
                callers = {c.g.b.def_ for c in tr.callers(d)}
                if len(callers) != 1:
                    continue
                q = next(iter(callers))
                qb = facts.bodies.get(q)
                if q == d or q in self.roles or not self._is_circuit_method(qb) or qb.kind != "fn":
                    continue
                S.discard(d)
                S.add(q)
                changed = True
            if not changed:
                break
        if len(S) == 1:
            self.transition = facts.bodies.get(next(iter(S)))

    def role(self, body):
        return self.roles.get(body.def_) or body.def_.split("::")[-1]

    def by_role(self, role):
        for d, r in self.roles.items():
            if r == role:
                return self.facts.bodies.get(d)
        return self.facts.bodies.get(self.circuit_adt + "::" + role)

    def state_arms(self, body):
        """variant -> entry block of the match arm on self.<state> in `body` (first such switch)"""
        g = graph(body)
        for bb in range(g.n):
            sw = g.switch(bb)
            if sw is None or sw.kind != "enum":
                continue
            node = peel(self.tr.place(body, sw.place, sw.defloc))
            if node[0] == "field" and node[2] == self.state_field and node[3] == self.circuit_adt:
                return bb, sw
        return None, None

    def in_arm(self, body, sw_bb, sw, variant, site_bb):
        g = graph(body)
        tgt = sw.variants.get(variant)
        if tgt is None:
            return False
        return g.edge_dominates((sw_bb, tgt), site_bb)

    def arm_of(self, body, site_bb):
        """(variant, defining edge) of the circuit-state arm that dominates site_bb: a `match self.state` arm, or the
        true edge of `self.state == Variant` / false edge of `!=`; ('*', None) when no state test dominates it"""
        best = ("*", None)
        for e in dominating_edges(self.tr, body, site_bb):
            if e["kind"] == "enum" and e["label"] in ("Closed", "Open", "HalfOpen"):
                n = e["node"]
                if n[0] == "field" and n[2] == self.state_field and n[3] == self.circuit_adt:
                    best = (e["label"], e)
            elif e["kind"] == "bool":
                c = cmp_on_edge(self.tr, e)
                if c and c[0] == "Eq":
                    for (x, y) in ((c[1], c[2]), (c[2], c[1])):
                        if x[0] == "field" and x[2] == self.state_field and x[3] == self.circuit_adt:
                            v = None
                            for z in self.tr.walk(y, limit=12):
                                if z[0] == "agg":
                                    v = self.tr.agg_of(z)[1].get("variant")
                                elif z[0] == "const" and isinstance(z[1], str):
                                    for nm in ("HalfOpen", "Closed", "Open"):
                                        if nm in z[1]:
                                            v = v or nm
                            if v:
                                best = (v, e)
        return best

    def inner_guards(self, body, site_bb, arm_edge):
        """bool edges dominating site_bb that lie inside the arm (after its defining edge)"""
        if arm_edge is None:
            return []
        g = graph(body)
        tgt = arm_edge["sw"].variants.get(arm_edge["label"])
        out = []
        for e in dominating_edges(self.tr, body, site_bb):
            if e["kind"] != "bool" or e is arm_edge or (e["bb"] == arm_edge["bb"]):
                continue
            if "via" in e:
                continue
            if g.edge_dominates((arm_edge["bb"], tgt), e["bb"]):
                out.append(e)
        return out

    def transition_calls(self):
        """[(caller body, Call, target variant name or None)] for every call of the transition fn"""
        out = []
        if self.transition is None:
            return out
        for cs in self.tr.callers(self.transition.def_):
            b = cs.g.b
            tgt = None
            if len(cs.args) > 1:
                n = peel(self.tr.operand(b, cs.args[1], cs.loc))
                if n[0] == "agg":
                    _b, rv = self.tr.agg_of(n)
                    tgt = rv.get("variant")
                elif n[0] == "const":
                    tgt = n[1]
            out.append((b, cs, tgt))
        return out


class _Quiet:
    def __getattr__(self, _n):
        return lambda *a, **k: None


def cb_view(facts, tr, rep):
    """(cb, facts, tr) on the view the breaker's rules run on: the circuit's role functions (admission, recorders,
    force_*/reset, evaluation, transition — found by what they do on the program as written) stay calls, every other
    private helper is inlined into them and into the services, so it does not matter how the steps of a role are
    factored into helper methods"""
    from ..inline import view_of
    cb0 = CB(facts.shallow, tr.shallow, _Quiet())
    if not cb0.ok or cb0.admission is None:
        f, t = facts.shallow, tr.shallow
        return CB(f, t, rep), f, t
    keep = set(cb0.roles)
    if cb0.transition is not None:
        keep.add(cb0.transition.def_)
    f, t = view_of(facts, keep)
    return CB(f, t, rep), f, t


def all_integer_struct(facts, adt_def):
    """a workspace struct all of whose fields are unsigned integers (counts grouped into one value)"""
    adt = facts.adt(adt_def)
    if adt is None or not adt_def.startswith(CRATE) or len(adt.get("variants", [])) != 1 or not adt["variants"][0]["fields"]:
        return False
    crate = [c_ for c_ in facts.crates.values() if adt_def in c_.adts]
    return bool(crate) and all(crate[0].types[f["ty"]]["s"] in ("usize", "u64", "u32", "u16", "u8") for f in adt["variants"][0]["fields"])


def _is_counter_field(facts, adt_def, name):
    adt = facts.adt(adt_def)
    if adt is None:
        return False
    crate = [c_ for c_ in facts.crates.values() if adt_def in c_.adts]
    for f in adt["variants"][0]["fields"]:
        if f["name"] == name and crate:
            return crate[0].types[f["ty"]]["s"] in ("usize", "u64", "u32", "u16", "u8")
    return False


def _state_variants(cb):
    adt = cb.facts.adt(cb.circuit_adt)
    crate = [c_ for c_ in cb.facts.crates.values() if cb.circuit_adt in c_.adts]
    for f in (adt["variants"][0]["fields"] if adt else []):
        if f["name"] == cb.state_field and crate:
            d = crate[0].types[f["ty"]].get("def")
            sa = cb.facts.adt(d) if d else None
            if sa is not None:
                return {v["name"] for v in sa["variants"]}
    return {"Closed", "Open", "HalfOpen"}


def states_possible(cb, body, bb):
    """the states the breaker can be in at block bb, from the tests of the state field on the dominating edges:
    `state == V` / a `match` arm V (only V), `state != V` (not V; `s != Open && s != HalfOpen` leaves Closed)"""
    tr = cb.tr
    poss = set(_state_variants(cb))

    def variant_of(side):
        for x in tr.walk(side, limit=20):
            if x[0] == "agg" and tr.agg_of(x)[1].get("variant"):
                return tr.agg_of(x)[1].get("variant")
            if x[0] == "const":
                for v in poss | {"Closed", "Open", "HalfOpen"}:
                    if str(x[1]).endswith(v) or ("::" + v) in str(x[1]):
                        return v
        return None
    allv = set(poss)
    for e in dominating_edges(tr, body, bb):
        if e["kind"] == "bool":
            cm = cmp_on_edge(tr, e)
            if cm and cm[0] in ("Eq", "Ne") and (mentions_field(tr, cm[1], cb.state_field) or mentions_field(tr, cm[2], cb.state_field)):
                v = variant_of(cm[2]) if mentions_field(tr, cm[1], cb.state_field) else variant_of(cm[1])
                if v in allv:
                    poss = poss & {v} if cm[0] == "Eq" else poss - {v}
        elif e["kind"] == "enum" and e["label"] in allv and mentions_field(tr, e["node"], cb.state_field):
            poss &= {e["label"]}
    return poss


def check_no_evict_in_half_open(cb, rep, rule):
    """the counter the half-open closing decision reads must not be decremented while half-open"""
    facts, tr = cb.facts, cb.tr
    # ---- the counter the closing decision reads must not be decremented while half-open
    rs = cb.by_role("record_success")
    close_fields = set()
    if rs is not None:
        for (b_, cs, tgt) in cb.transition_calls():
            if b_ is rs and tgt == "Closed":
                for e in dominating_edges(tr, rs, cs.bb):
                    if e["kind"] == "bool" and mentions_field(tr, e["node"], "permitted_calls_in_half_open"):
                        # counters of the circuit, or of a struct the circuit groups them in (`self.tally.successes`)
                        close_fields |= {(x[3], x[2]) for x in tr.walk(e["node"], limit=80) if x[0] == "field" and x[3] and isinstance(x[2], str)
                                         and (x[3] == cb.circuit_adt or x[3].startswith(CRATE)) and _is_counter_field(facts, x[3], x[2])}
    rep.note("closing decision reads %s" % sorted(f_ for (_a, f_) in close_fields))
    # ... and where the closing decision counts the trial successes itself (`records.iter().filter(|r| ..).count()` instead
    # of the statistics function), it counts the records that are not failures - all of them: a success that is also slow
    # is still a success, and a breaker that does not count it stays half-open
    if rs is not None:
        nk = 0
        for (b_, cs, tgt) in cb.transition_calls():
            if b_ is not rs or tgt != "Closed":
                continue
            for e in dominating_edges(tr, rs, cs.bb):
                if e["kind"] != "bool" or not mentions_field(tr, e["node"], "permitted_calls_in_half_open"):
                    continue
                cm_ = cmp_on_edge(tr, e)
                if cm_ is None:
                    continue
                side_ = cm_[2] if mentions_field(tr, cm_[1], "permitted_calls_in_half_open") else cm_[1]
                # the compared value itself (an alternative of it), not a count inside `total - failures`
                for x in [peel(y) for y in leaves(peel(side_))]:
                    if x[0] != "call" or tr.call_of(x).name != "count" or not tr.call_of(x).args:
                        continue
                    cc = tr.call_of(x)
                    src = peel(tr.expand(tr.operand(cc.g.b, cc.args[0], cc.loc)))
                    if src[0] != "call" or tr.call_of(src).name != "filter" or len(tr.call_of(src).args) < 2:
                        continue
                    fc = tr.call_of(src)
                    gs = _closure_flag_guards(tr, peel(tr.expand(tr.operand(fc.g.b, fc.args[1], fc.loc))))
                    if gs is None:
                        continue
                    nk += 1
                    fails = sorted(f_ for (f_, lab_) in gs if "fail" in f_)
                    okk = len(gs) == 1 and bool(fails) and all(lab_ == "false" for (_f, lab_) in gs)
                    rep.ob(rule, skey(rs, "closing-count#%d" % (nk - 1)), okk, cc.where(),
                           "the closing decision counts every record that is not a failure" if okk else
                           "the trial successes the closing decision counts are restricted by %s: successes that are also slow are not "
                           "counted, so the breaker stays half-open where it must close" % sorted(gs))
    ndec = 0
    for (adt_, f) in sorted(close_fields):
        for (b_, i, j, s_) in field_writes(facts, adt_, f):
            val = peel(tr.stmt_value(b_, i, j))
            dec = (val[0] == "call" and tr.call_of(val).name in ("saturating_sub", "wrapping_sub", "checked_sub")) or \
                  (val[0] == "field" and peel(val[1])[0] == "binop" and peel(val[1])[1].startswith("Sub")) or (val[0] == "binop" and val[1].startswith("Sub"))
            if not dec:
                continue
            ndec += 1
            rep.saw(b_)
            okc = states_possible(cb, b_, i) == {"Closed"}
            rep.ob(rule, skey(b_, "decrement.%s" % f), okc, where(b_, i, j),
                   "%s (read by the closing decision) is decremented only while the breaker is Closed" % f if okc else
                   "%s, which the half-open closing decision compares with permitted_calls_in_half_open, can be decremented while half-open "
                   "(window eviction): with a window smaller than the permitted trials the breaker never decides and keeps admitting trial calls" % f)
    return ndec


def check_window_dispatch(cb, rep, rule):
    """both recorders choose the window (count-based counters vs time-based records) by the configured
    sliding_window_type — the selector every reader (threshold evaluation, half-open decisions) uses.  A recorder
    that dispatches on anything else files outcomes where the readers do not look.  Decided on the fully inlined
    body of each recorder, so it does not matter into which private helpers the updates are factored."""
    from ..inline import view_of
    ffacts, ftr = view_of(cb.facts, "full")
    n = 0
    for role in ("record_success", "record_failure"):
        R0 = cb.by_role(role)
        if R0 is None:
            rep.anchor_missing("circuit method with role " + role)
            continue
        R = ffacts.bodies.get(R0.def_)
        rep.saw(R)
        g = graph(R)
        sites = []
        for c in g.calls():
            # time-based: push onto a container of the circuit
            if c.name in ("push_back", "push", "push_front") and c.args:
                recv = peel(ftr.expand(ftr.operand(R, c.args[0], c.loc)))
                if recv[0] == "field" and recv[3] == cb.circuit_adt:
                    sites.append(("time-based record", "TimeBased", c.bb, c.where()))
        # count-based: increments of integer counters of the circuit
        for i, blk in enumerate(R.blocks):
            for j, s_ in enumerate(blk["stmts"]):
                if s_["k"] == "assign" and s_["lhs"]["p"]:
                    last = s_["lhs"]["p"][-1]
                    if isinstance(last, dict) and last.get("adt") == cb.circuit_adt:
                        v = peel(ftr.stmt_value(R, i, j))
                        if v[0] == "field" and peel(v[1])[0] == "binop":
                            v = peel(v[1])
                        if v[0] == "binop" and v[1].startswith("Add"):
                            sites.append(("count-based counters", "CountBased", i, g.where(i, j)))
        sites = [x for x in sites if g.live(x[2])]      # arms made dead by the recorder's constant arguments do not count
        arms_seen = {}
        for k, (what, want, bb, wh) in enumerate(sites):
            n += 1
            arm = None
            for e in dominating_edges(ftr, R, bb):
                if e["kind"] == "enum" and e["label"] in ("CountBased", "TimeBased") and mentions_field(ftr, e["node"], "sliding_window_type"):
                    arm = e["label"]
            # counters are the count-based window; a container may belong to either window (the count-based one keeps
            # a record queue too): it only has to sit on *an* arm of the selector
            ok = (arm == want) if what.startswith("count") else (arm is not None)
            rep.ob(rule, skey(R, "%s#%d" % (what.split()[0], k)), ok, wh,
                   "%s are updated on the %s arm of config.sliding_window_type" % (what, want) if ok else
                   "%s updates the %s %s: the threshold evaluation and the half-open decisions select the window by "
                   "config.sliding_window_type, so outcomes recorded here are not seen by them"
                   % (role, what, "without dispatching on config.sliding_window_type" if arm is None else "on the %s arm" % arm))
    rep.floor(rule + ".sites", n, 4)
    return n


def check_stats_partition(cb, rep, rule):
    """the time-based statistics function partitions the records: where one counter counts the records with a flag
    set, the counter counting the records with that flag clear is not restricted any further (a success that is also
    slow is still a success: the half-open closing decision and the failure rate are computed from these counts)"""
    facts, tr = cb.facts, cb.tr
    n = 0
    for F in facts.crates[CRATE].bodies:
        if F.kind != "fn" or not cb._is_circuit_method(F):
            continue
        rty = F.local_ty(0)
        if not (rty["s"].startswith("(usize") or (rty.get("def") and all_integer_struct(facts, rty["def"]))):
            continue        # the statistics come back as a tuple of counts, or as a private struct of counts
        g = graph(F)
        if not any(c.name in ("next", "count", "fold", "sum") for c in g.calls()):
            continue
        rep.saw(F)
        guards = {}
        # counters written as `records.iter().filter(|r| <flags>).count()`: the guard set is what the closure demands
        totals = set()
        for c in g.calls():
            if c.name == "len" and c.args and not c.dest["p"]:
                totals.add(c.dest["l"])
            if c.name != "count" or not c.args or c.dest["p"]:
                continue
            src = peel(tr.expand(tr.operand(F, c.args[0], c.loc)))
            if src[0] != "call" or tr.call_of(src).name != "filter" or len(tr.call_of(src).args) < 2:
                continue
            fc = tr.call_of(src)
            clo = peel(tr.expand(tr.operand(F, fc.args[1], fc.loc)))
            gs = _closure_flag_guards(tr, clo)
            if gs is not None:
                guards.setdefault(c.dest["l"], []).append((gs, c.where()))
        for i, blk in enumerate(F.blocks):
            for j, s_ in enumerate(blk["stmts"]):
                if s_["k"] != "assign" or not F.locals[s_["lhs"]["l"]].get("user"):
                    continue        # (the checked-add temporaries of `x += 1` are not counters)
                ckey = s_["lhs"]["l"]
                if s_["lhs"]["p"]:
                    # a field of a local struct of counts (`stats.failures += 1`)
                    pr = s_["lhs"]["p"]
                    if len(pr) == 1 and isinstance(pr[0], dict) and pr[0].get("n") and pr[0].get("adt") and all_integer_struct(facts, pr[0]["adt"]):
                        ckey = (s_["lhs"]["l"], pr[0]["n"])
                    else:
                        continue
                v = peel(tr.stmt_value(F, i, j))
                if v[0] == "field" and peel(v[1])[0] == "binop":
                    v = peel(v[1])
                if not (v[0] == "binop" and v[1].startswith("Add") and peel(v[3])[0] == "const" and peel(v[3])[3] == "1"):
                    continue
                gs = set()
                for e in dominating_edges(tr, F, i):
                    if e["kind"] == "bool" and e["node"][0] == "field" and isinstance(e["node"][2], str) and "via" not in e:
                        gs.add((e["node"][2], e["label"]))
                guards.setdefault(ckey, []).append((gs, g.where(i, j)))
        # a four-armed `match (is_failure, is_slow)` says the same as two `if`s: {C+(k,true), C+(k,false)} == {C}
        fams = {l: _simplify_family({frozenset(gs) for (gs, _w) in lst}) for l, lst in guards.items()}
        guards = {l: [(set(gs), lst[0][1]) for gs in fams[l]] for l, lst in guards.items()}
        for l, lst in guards.items():
            for (gs, wh) in lst:
                for (f, lab) in gs:
                    if lab != "false":
                        continue
                    # this counter counts records with flag f clear: does a sibling count the records with it set?
                    if any((f, "true") in gs2 and len(gs2) == 1 for l2, lst2 in guards.items() if l2 != l for (gs2, _w) in lst2):
                        n += 1
                        extra = gs - {(f, "false")}
                        rep.ob(rule, skey(F, "complement-of.%s" % f), not extra, wh,
                               "the counter of records without `%s` counts all of them" % f if not extra else
                               "the counter of records without `%s` is further restricted by %s: records that are neither counted as "
                               "`%s` nor here vanish from the statistics (e.g. slow successes no longer close a half-open breaker)"
                               % (f, sorted(extra), f))
        # ... or the complement is obtained by subtraction: `total - failures` with total = records.len()
        for i, blk in enumerate(F.blocks):
            for j, s_ in enumerate(blk["stmts"]):
                if s_["k"] != "assign" or s_["lhs"]["p"]:
                    continue
                rv = s_["rv"]
                if rv["k"] != "binop" or not rv["op"].startswith("Sub"):
                    continue
                la = (rv["a"].get("copy") or rv["a"].get("move") or {})
                lb = (rv["b"].get("copy") or rv["b"].get("move") or {})
                if la.get("p") or lb.get("p") or la.get("l") is None or lb.get("l") is None:
                    continue
                a_src = {d[1] for d in g.reaching(la["l"], (i, j))}
                is_total = any(not d[4] and d[3] == "call" and Call(g, d[1], g.term(d[1])).name == "len" for d in g.reaching(la["l"], (i, j))) or la["l"] in totals
                # follow one copy
                for d in g.reaching(la["l"], (i, j)):
                    if d[3] == "assign" and d[5]["k"] == "use":
                        s2 = d[5]["op"].get("copy") or d[5]["op"].get("move")
                        if s2 and not s2["p"] and s2["l"] in totals:
                            is_total = True
                cnt = lb["l"]
                for d in g.reaching(lb["l"], (i, j)):
                    if d[3] == "assign" and d[5]["k"] == "use":
                        s2 = d[5]["op"].get("copy") or d[5]["op"].get("move")
                        if s2 and not s2["p"] and s2["l"] in guards:
                            cnt = s2["l"]
                if is_total and cnt in guards and all(len(gs2) == 1 and next(iter(gs2))[1] == "true" for (gs2, _w) in guards[cnt]):
                    f = next(iter(guards[cnt][0][0]))[0]
                    n += 1
                    rep.ob(rule, skey(F, "complement-of.%s" % f), True, g.where(i, j),
                           "the counter of records without `%s` is the number of records minus those with it: it counts all of them" % f)
    rep.floor(rule + ".complements", n, 1)
    return n


def _simplify_family(fam):
    fam = set(fam)
    changed = True
    while changed:
        changed = False
        for a_ in list(fam):
            for (k_, lab_) in a_:
                twin = frozenset((a_ - {(k_, lab_)}) | {(k_, "false" if lab_ == "true" else "true")})
                if twin in fam and twin != a_:
                    fam -= {a_, twin}
                    fam.add(frozenset(a_ - {(k_, lab_)}))
                    changed = True
                    break
            if changed:
                break
    return fam


def _closure_flag_guards(tr, clo):
    """{(flag field, 'true'|'false')} a record must satisfy for the filter closure `clo` to keep it; None when the
    closure is not a conjunction of flag tests"""
    if clo[0] != "agg":
        return None
    _b, rv = tr.agg_of(clo)
    if rv.get("ak") != "closure":
        return None
    cb_ = tr.facts.bodies.get(rv["def"])
    if cb_ is None:
        return None
    keep = []
    from ..util import _value_sites
    for (i, j, node) in ret_assigns(tr, cb_):
        # `!(a || b)`: the negated value is a join of `true` (under a) and `b` (under !a); judge each side where it is made
        alts = None
        st_ = cb_.blocks[i]["stmts"][j] if j is not None and j < len(cb_.blocks[i]["stmts"]) else None
        if st_ is not None and st_["k"] == "assign" and st_["rv"]["k"] == "unop" and st_["rv"]["op"] == "Not":
            vs_ = _value_sites(tr, cb_, st_["rv"]["a"], (i, j))
            if vs_ and len(vs_) > 1:
                alts = [(bb_, ("unop", "Not", nd_)) for (bb_, _ix, nd_) in vs_]
        for (at_, lf) in (alts if alts is not None else [(i, x) for x in leaves(node)]):
            lf = peel(lf)
            neg0 = False
            while lf[0] == "unop" and lf[1] == "Not":
                neg0 = not neg0
                lf = peel(lf[2])
            if lf[0] == "const" and lf[1] == ("true" if neg0 else "false"):
                continue
            if neg0:
                lf = ("unop", "Not", lf)
            gs = set()
            for e in dominating_edges(tr, cb_, at_):
                if e["kind"] == "bool" and e["node"][0] == "field" and isinstance(e["node"][2], str) and "via" not in e:
                    gs.add((e["node"][2], e["label"]))
            neg = False
            while lf[0] == "unop" and lf[1] == "Not":
                neg = not neg
                lf = peel(lf[2])
            if lf[0] == "field" and isinstance(lf[2], str):
                gs.add((lf[2], "false" if neg else "true"))
            elif not (lf[0] == "const" and lf[1] == "true"):
                return None
            keep.append(gs)
    return keep[0] if len(keep) == 1 else None


def check_slide_symmetry(cb, rep, rule):
    """the count-based window keeps running counters next to the queue of outcomes: what recording an outcome adds to a
    counter, evicting that outcome must take away again.  In the function that both pushes the new outcome tuple and pops
    the old one (fully inlined: `tally.add(..)` / `tally.remove(..)` helpers do not matter), every counter is incremented
    under the same flags of the pushed tuple as it is decremented under of the popped tuple; a counter that is bumped for
    every slow call but taken back only for slow *successes* drifts upwards until the next transition"""
    from ..inline import view_of
    facts = cb.facts
    ffacts, ftr = view_of(facts, "full")
    n = 0
    orig = getattr(facts, "orig", facts)
    for F0 in orig.crates[CRATE].bodies:
        if F0.kind != "fn" or not cb._is_circuit_method(F0):
            continue
        g0 = graph(F0)
        if not any(c.name in ("pop_front", "pop_back") for c in g0.calls()) or not any(c.name in ("push_back", "push_front") for c in g0.calls()):
            continue
        F = ffacts.bodies.get(F0.def_) or F0
        g = graph(F)
        pushes = [c for c in g.calls() if c.name in ("push_back", "push_front") and len(c.args) > 1]
        pops = [c for c in g.calls() if c.name in ("pop_front", "pop_back")]
        pushed = {}          # position (tuple index / field name, as a string) -> node of the flag recorded there
        pushed_whole = []    # the outcome is handed in as one value (a private `CallOutcome { failed, slow }` parameter)
        for c in pushes:
            v = peel(ftr.expand(ftr.operand(F, c.args[1], c.loc)))
            if v[0] == "agg":
                b2, rv = ftr.agg_of(v)
                if rv.get("ak") == "tuple" or (rv.get("ak") == "adt" and rv.get("fields")):
                    for k, o in enumerate(rv["ops"]):
                        pushed[str(k) if rv.get("ak") == "tuple" else rv["fields"][k]] = peel(ftr.expand(ftr.operand(b2, o, (v[3], v[4]))))
            else:
                pushed_whole.append(v)
        if not (pushed or pushed_whole) or not pops:
            continue
        rep.saw(F)
        popnodes = [("call", F.crate.name, F.def_, c.bb) for c in pops]

        def popped_pos(node):
            """k when node is field k of the tuple a pop returned"""
            node = peel(node)
            if node[0] != "field":
                return None
            k = node[2]
            base = peel(node[1])
            while base[0] in ("field", "downcast"):
                base = peel(base[1])
            if base in popnodes:
                return str(k)
            return None

        def pushed_pos(node):
            node = peel(node)
            for k, pn in pushed.items():
                if node == pn:
                    return k
            if node[0] == "field" and peel(node[1]) in pushed_whole:
                return str(node[2])
            return None
        incs, decs = {}, {}
        for i, blk in enumerate(F.blocks):
            if not g.live(i):
                continue
            for j, s_ in enumerate(blk["stmts"]):
                if s_["k"] != "assign" or not s_["lhs"]["p"]:
                    continue
                last = s_["lhs"]["p"][-1]
                if not (isinstance(last, dict) and last.get("adt") and last.get("n") and _is_counter_field(facts, last["adt"], last["n"])):
                    continue
                v = peel(ftr.stmt_value(F, i, j))
                if v[0] == "field" and peel(v[1])[0] == "binop":
                    v = peel(v[1])
                kind = None
                if v[0] == "binop" and v[1].startswith("Add"):
                    kind = "inc"
                elif (v[0] == "binop" and v[1].startswith("Sub")) or (v[0] == "call" and ftr.call_of(v).name in ("saturating_sub", "wrapping_sub", "checked_sub")):
                    kind = "dec"
                if kind is None:
                    continue
                gs = set()
                for e in dominating_edges(ftr, F, i):
                    if e["kind"] != "bool" or "via" in e:
                        continue
                    nd = peel(e["node"])
                    if kind == "inc":
                        k = pushed_pos(nd)
                        if k is not None:
                            gs.add((k, e["label"]))
                    else:
                        k = popped_pos(nd)
                        if k is not None:
                            gs.add((k, e["label"]))
                (incs if kind == "inc" else decs).setdefault(last["n"], set()).add(frozenset(gs))
        simplify = _simplify_family
        for f in sorted(set(incs) | set(decs)):
            if f not in incs or f not in decs:
                continue
            n += 1
            incs[f], decs[f] = simplify(incs[f]), simplify(decs[f])
            ok = incs[f] == decs[f]
            rep.ob(rule, skey(F, "symmetric.%s" % f), ok, "%s:%d" % (F.span["file"], F.span["line"]),
                   "%s is incremented and decremented under the same flags of the recorded / evicted outcome" % f if ok else
                   "%s is incremented under %s of the recorded outcome but decremented under %s of the evicted one: the counter no longer "
                   "equals the number of such outcomes in the window" % (f, sorted(map(sorted, incs[f])), sorted(map(sorted, decs[f]))))
    return n
