"""Discovery shared by the circuit-breaker properties (C03, C04, C09)."""
from ..core import graph, Call, peel, leaves, show, N
from ..util import *

CRATE = "tower_resilience_circuitbreaker"
STATE_ENUM = "tower_resilience_circuitbreaker::circuit::CircuitState"


class CB:
    def __init__(self, facts, tr, rep):
        self.facts, self.tr, self.rep = facts, tr, rep
        self.ok = False
        self.services = [b for b in service_call_bodies(facts, crate=CRATE)]
        rep.floor("CB.service-call-impls", len(self.services), 2)
        self.sites = []            # (service_body, coroutine_body, inner Call, admission edge dict)
        self.admission = None      # body of the admission function
        for sb in self.services:
            for (b, c) in inner_calls(facts, sb):
                rep.saw(b)
                adm = None
                for e in dominating_edges(tr, b, c.bb):
                    if e["kind"] == "bool" and e["label"] == "true" and e["node"][0] == "call":
                        cc = tr.call_of(e["node"])
                        for d in cc.targets_def():
                            fb = facts.bodies.get(d)
                            if fb is not None and fb.crate.name == CRATE and fb.local_ty(0)["s"] == "bool":
                                adm = (e, cc, fb)
                self.sites.append((sb, b, c, adm))
                if adm and self.admission is None:
                    self.admission = adm[2]
        if self.admission is None:
            return
        a = self.admission
        st = a.local_ty(1)
        # self type of the admission fn: &mut Circuit
        t = st
        while t.get("k") == "ref":
            t = a.types[t["args"][0]]
        self.circuit_adt = t.get("def")
        adt = facts.adt(self.circuit_adt) if self.circuit_adt else None
        if adt is None:
            return
        self.circuit = adt
        crate = facts.crates[CRATE]
        self.state_field = None
        for f in adt["variants"][0]["fields"]:
            if crate.types[f["ty"]].get("def") == STATE_ENUM:
                self.state_field = f["name"]
        self.atomic_field = None
        for f in adt["variants"][0]["fields"]:
            if "core::sync::atomic::Atomic<u8>" in crate.types[f["ty"]]["s"]:
                self.atomic_field = f["name"]
        # transition function: the function that writes the state field
        ws = field_writes(facts, self.circuit_adt, self.state_field) if self.state_field else []
        self.state_writes = ws
        self.transition = ws[0][0] if ws and all(w[0] is ws[0][0] for w in ws) else None
        self.ok = self.state_field is not None

    def state_arms(self, body):
        """variant -> entry block of the match arm on self.<state> in `body` (first such switch)"""
        g = graph(body)
        for bb in range(g.n):
            sw = g.switch(bb)
            if sw is None or sw.kind != "enum":
                continue
            node = peel(self.tr.place(body, sw.place, sw.defloc))
            if node[0] == "field" and node[2] == self.state_field and node[3] == self.circuit_adt:
                return bb, sw
        return None, None

    def in_arm(self, body, sw_bb, sw, variant, site_bb):
        g = graph(body)
        tgt = sw.variants.get(variant)
        if tgt is None:
            return False
        return g.edge_dominates((sw_bb, tgt), site_bb)

    def arm_of(self, body, site_bb):
        """(variant, defining edge) of the circuit-state arm that dominates site_bb: a `match self.state` arm, or the
        true edge of `self.state == Variant` / false edge of `!=`; ('*', None) when no state test dominates it"""
        best = ("*", None)
        for e in dominating_edges(self.tr, body, site_bb):
            if e["kind"] == "enum" and e["label"] in ("Closed", "Open", "HalfOpen"):
                n = e["node"]
                if n[0] == "field" and n[2] == self.state_field and n[3] == self.circuit_adt:
                    best = (e["label"], e)
            elif e["kind"] == "bool":
                c = cmp_on_edge(self.tr, e)
                if c and c[0] == "Eq":
                    for (x, y) in ((c[1], c[2]), (c[2], c[1])):
                        if x[0] == "field" and x[2] == self.state_field and x[3] == self.circuit_adt:
                            v = None
                            for z in self.tr.walk(y, limit=12):
                                if z[0] == "agg":
                                    v = self.tr.agg_of(z)[1].get("variant")
                                elif z[0] == "const" and isinstance(z[1], str):
                                    for nm in ("HalfOpen", "Closed", "Open"):
                                        if nm in z[1]:
                                            v = v or nm
                            if v:
                                best = (v, e)
        return best

    def inner_guards(self, body, site_bb, arm_edge):
        """bool edges dominating site_bb that lie inside the arm (after its defining edge)"""
        if arm_edge is None:
            return []
        g = graph(body)
        tgt = arm_edge["sw"].variants.get(arm_edge["label"])
        out = []
        for e in dominating_edges(self.tr, body, site_bb):
            if e["kind"] != "bool" or e is arm_edge or (e["bb"] == arm_edge["bb"]):
                continue
            if "via" in e:
                continue
            if g.edge_dominates((arm_edge["bb"], tgt), e["bb"]):
                out.append(e)
        return out

    def transition_calls(self):
        """[(caller body, Call, target variant name or None)] for every call of the transition fn"""
        out = []
        if self.transition is None:
            return out
        for cs in self.tr.callers(self.transition.def_):
            b = cs.g.b
            tgt = None
            if len(cs.args) > 1:
                n = peel(self.tr.operand(b, cs.args[1], cs.loc))
                if n[0] == "agg":
                    _b, rv = self.tr.agg_of(n)
                    tgt = rv.get("variant")
                elif n[0] == "const":
                    tgt = n[1]
            out.append((b, cs, tgt))
        return out
