"""C20 — layers are transparent, honour Tower readiness; listeners only observe."""
from ..core import graph, Call, peel, leaves, show, N
from ..ready import Ready, is_inner_call, SERVICE_CALL, POLL_READY, CLONE
from ..util import check_no_panicking_time_arith, check_clone_variants

EXPLANATION = (
    "Decides structural clauses of C20 on the built MIR of every library crate: (READY) every "
    "<S as Service>::call site is reached only with readiness observed on that same instance since its "
    "previous call (backward search over normal/unwind/coroutine-drop edges, through captures and helper "
    "parameters); (FWD) every wrapping Service impl forwards poll_ready to the wrapped field with the "
    "caller's context and returns its result, errors mapped only by the pass-through constructor; (REQ) the "
    "request handed to the inner call is the caller's request (moved or cloned); (LISTEN) on_event is "
    "invoked only inside the catch_unwind closure of EventListeners::emit, the listener loop continues "
    "after a caught panic, and the listener list is private. Not decided: equality of payload values "
    "beyond identity of value flow; behaviour of tokio/tower primitives."
    ' Over every crate: (NO-PANIC-ARITH) no panicking Instant/Duration operator on a value not bounded by a constant; (CLONE-FAITHFUL) hand-written Clone impls of error enums preserve the variant. (LISTEN-NOLOCK) no std::sync lock guard is live where a layer notifies its listeners.')
RULE = ("one obligation per (rule, site): READY per inner call site, FWD per Service impl, REQ per inner call "
        "site, LISTEN per on_event site / emit body; non-trivial = distinct site keys")
TRUSTED = ["rustc MIR construction (nightly)", "tower Service contract", "std::panic::catch_unwind", "std::mem::replace"]
ASSUMPTIONS = ["a clone of a service is a distinct instance with no readiness observed",
               "self.<inner> is ready at entry of Service::call (caller obeys the contract)"]

ON_EVENT = "tower_resilience_core::events::EventListener::on_event"
CATCH_UNWIND = "std::panic::catch_unwind"


def wrapping_service_impls(facts):
    """(crate, impl, adt, [param-typed field names]) for Service impls whose self type has a
    type-parameter field"""
    out = []
    for c in facts.crates.values():
        for im in c.impls:
            if im.get("trait") != "tower_service::Service":
                continue
            st = c.types[im["self_ty"]]
            if st.get("k") != "adt":
                continue
            adt = c.adts.get(st["def"])
            if not adt:
                continue
            pf = [f["name"] for f in adt["variants"][0]["fields"] if c.types[f["ty"]].get("k") == "param"]
            if pf:
                out.append((c, im, adt, pf))
    return out


def site_key(body, extra):
    return "%s|%s|%s" % (body.crate.name, body.def_, extra)


def run(facts, tr, rep):
    _n_cl = check_clone_variants(facts, tr, rep, "C20.CLONE-FAITHFUL")
    rep.note("hand-written enum Clone arms examined: %d" % _n_cl)
    _n_ops = check_no_panicking_time_arith(facts, tr, rep, "C20.NO-PANIC-ARITH", [b_ for c_ in facts.crates.values() for b_ in c_.bodies])
    rep.note("panicking Instant/Duration operators examined: %d" % _n_ops)
    R = Ready(facts, tr)
    impls = wrapping_service_impls(facts)
    rep.floor("C20.service-impls", len(impls), 14)

    # ---------------------------------------------------------------- FWD
    fwd_field = {}
    for (c, im, adt, pf) in impls:
        items = {it["name"]: it["def"] for it in im["items"]}
        pr = facts.bodies.get(items.get("poll_ready"))
        if pr is None:
            rep.anchor_missing("Service::poll_ready of " + adt["def"])
            continue
        rep.saw(pr)
        g = graph(pr)
        hits = []
        for cs in g.calls():
            if cs.def_ == POLL_READY and cs.self_kind in ("param", "ref_param"):
                key = R.key_of(pr, cs.args[0], cs.loc)
                cx = peel(tr.operand(pr, cs.args[1], cs.loc))
                hits.append((cs, key, cx))
        k = "%s|%s" % (c.name, adt["def"])
        if not hits:
            rep.ob("C20.FWD", k, False, "%s:%d" % (pr.span["file"], pr.span["line"]),
                   "poll_ready of %s never polls the wrapped service" % adt["def"])
            continue
        ok = True
        why = []
        for (cs, key, cx) in hits:
            good_recv = key[0] == "field" and peel(key[1])[0] == "param" and peel(key[1])[3] == 1 and key[2] in pf
            good_cx = cx[0] == "param" and cx[3] == 2
            if not good_recv:
                ok = False
                why.append("polls %s, not a wrapped-service field of self" % show(key))
            if not good_cx:
                ok = False
                why.append("passes a context that is not the caller's")
            if good_recv:
                fwd_field[(c.name, adt["def"])] = key[2]
        # every Ready(Ok) the function returns must come from the inner poll: every return of the
        # constant/aggregate Poll::Ready(Ok(())) must be dominated by the inner poll_ready call
        inner_bbs = [cs.bb for (cs, _k, _c) in hits]
        for i, blk in enumerate(pr.blocks):
            for j, s in enumerate(blk["stmts"]):
                if s["k"] == "assign" and s["lhs"]["l"] == 0 and not s["lhs"]["p"]:
                    node = tr.place(pr, {"l": 0, "p": []}, (i, j + 1))
                    for lf in leaves(node):
                        lf = peel(lf)
                        derived = lf[0] == "call" and (lf[3] in inner_bbs or _derives_from_calls(tr, lf, pr, inner_bbs))
                        if lf[0] == "agg":
                            b2, rv = tr.agg_of(lf)
                            if rv.get("variant") == "Pending":
                                continue    # a gate of the layer's own (checked by C13 / T-WAKE)
                            if rv.get("variant") == "Ready":
                                # Ready(x): x must derive from the inner poll (error mapping) unless dominated
                                if not any(g.node_dominates(ib, i) for ib in inner_bbs):
                                    ok = False
                                    why.append("returns Ready without the wrapped service having been polled (L%d)" % g.line(i, j))
                                continue
                        if not derived and lf[0] not in ("agg",):
                            if not any(g.node_dominates(ib, i) for ib in inner_bbs):
                                ok = False
                                why.append("returns a value not derived from the wrapped poll_ready (L%d)" % g.line(i, j))
        rep.ob("C20.FWD", k, ok, "%s:%d" % (pr.span["file"], pr.span["line"]),
               "poll_ready forwards to self.%s with the caller's context" % fwd_field.get((c.name, adt["def"]), "?")
               if ok else "; ".join(why))

    # ---------------------------------------------------------------- READY + REQ
    # (on the inlined view: a private helper that takes the ready instance, or an async helper that performs the
    # call, is analysed where it is used)
    n_inner = 0
    R_orig, tr_orig, facts_orig = R, tr, facts
    facts, tr = facts.inl, tr.inl
    R = Ready(facts, tr)
    for b in facts.all_bodies():
        if facts.absorbed(b):
            continue
        g = graph(b)
        for cs in g.calls():
            if not is_inner_call(cs):
                continue
            n_inner += 1
            rep.saw(b)
            probs, key, how = R.check_call(b, cs)
            kinds = sorted({p[0] for p in probs})
            sk = site_key(b, "inner-call#%d" % _ordinal(g, cs))
            rep.ob("C20.READY", sk, not probs, cs.where(),
                   ("inner call on instance %s: readiness observed on every path%s" % (show(key), " (" + how + ")" if how else ""))
                   if not probs else
                   "inner call on instance %s: %s" % (show(key), "; ".join(p[2] for p in probs)))
            # the field used at entry must be the one poll_ready forwards to
            root = key
            while root[0] in ("deref", "ref"):
                root = root[1]
            if root[0] == "field" and peel(root[1])[0] == "param" and b.impl and b.impl.get("trait") == "tower_service::Service":
                st = b.types[b.impl["self_ty"]]
                ff = fwd_field.get((b.crate.name, st.get("def")))
                rep.ob("C20.READY-FIELD", sk, ff == root[2], cs.where(),
                       "inner call goes to self.%s; poll_ready forwards to self.%s" % (root[2], ff))
            # REQ: request argument originates from the request parameter of Service::call
            req = tr.expand(tr.operand(b, cs.args[1], cs.loc), upvars=True, params=True)
            ok, desc = _request_origin(tr, req)
            rep.ob("C20.REQ", sk, ok, cs.where(), "request argument of the inner call: " + desc)
    rep.floor("C20.inner-call-sites", n_inner, 14)

    # mem::replace births must take from the field poll_ready forwards to
    for b in facts.all_bodies():
        if not (b.name == "call" and b.impl and b.impl.get("trait") == "tower_service::Service"):
            continue
        g = graph(b)
        st = b.types[b.impl["self_ty"]]
        ff = fwd_field.get((b.crate.name, st.get("def")))
        if ff is None:
            continue
        for cs in g.calls():
            if cs.def_ in ("core::mem::replace", "core::mem::take"):
                key = R.key_of(b, cs.args[0], cs.loc)
                if key[0] == "field" and peel(key[1])[0] == "param":
                    fty = None
                    rep.ob("C20.READY-FIELD", site_key(b, "replace#%d" % _ordinal(g, cs)), key[2] == ff or not _is_service_field(facts, b, key[2]),
                           cs.where(), "mem::replace takes self.%s; poll_ready forwards to self.%s" % (key[2], ff))

    # ---------------------------------------------------------------- RESP: the inner outcome reaches the caller, wrapped only by the pass-through constructor
    from ..flow import Flow
    from ..util import descendants, ret_assigns
    FL = Flow(facts, tr)
    nresp = 0
    for (c, im, adt, pf) in impls:
        c = facts.crates[c.name]
        items = {it["name"]: it["def"] for it in im["items"]}
        cb = facts.bodies.get(items.get("call"))
        pr = facts.bodies.get(items.get("poll_ready"))
        if cb is None or pr is None:
            continue
        # pass-through constructor = the function handed to map_err in poll_ready (None: errors pass unchanged)
        P = None
        for cs in graph(pr).calls():
            if cs.name == "map_err" and len(cs.args) > 1:
                a = peel(tr.operand(pr, cs.args[1], cs.loc))
                if a[0] == "fnconst":
                    P = a[1]
        # sources: the polled future of the wrapped call, wherever it is awaited / polled
        bodies = descendants(facts, cb)
        seen_defs = {b.def_ for b in bodies}
        work = list(bodies)
        while work:            # helper async fns reached from the call future (hedge)
            b0 = work.pop()
            for cs in graph(b0).calls():
                for d in cs.targets_def():
                    b2 = facts.bodies.get(d)
                    if b2 is not None and b2.crate is c and b2.def_ not in seen_defs and b2.j.get("is_async"):
                        for dd in descendants(facts, b2):
                            if dd.def_ not in seen_defs:
                                seen_defs.add(dd.def_)
                                bodies.append(dd)
                                work.append(dd)
        # futures returned by `call` that are hand-written: their poll impls
        rt = cb.local_ty(0)
        for im2 in c.impls:
            if im2.get("trait") == "core::future::future::Future" and c.types[im2["self_ty"]].get("def") == rt.get("def"):
                for it in im2["items"]:
                    b2 = facts.bodies.get(it["def"])
                    if b2 is not None and b2.def_ not in seen_defs:
                        seen_defs.add(b2.def_)
                        bodies.append(b2)
        sources = set()
        for b0 in bodies:
            g0 = graph(b0)
            for a in g0.awaits():
                if a.poll_bb is None:
                    continue
                src = peel(tr.expand(tr.operand(b0, a.awaitee, (a.into_bb, len(g0.stmts(a.into_bb)))), upvars=True, params=False))
                if _is_inner_future(tr, src):
                    sources.add(("call", b0.crate.name, b0.def_, a.poll_bb))
            for cs in g0.calls():
                if cs.def_ == "core::future::future::Future::poll" and cs.exp != "desugar:Await" and cs.self_kind in ("alias", "param"):
                    st = cs.self_ty()
                    if st and st.get("def", "").endswith("Service::Future"):
                        sources.add(("call", b0.crate.name, b0.def_, cs.bb))
        k = "%s|%s" % (c.name, adt["def"])
        if not sources:
            rep.ob("C20.RESP", k, False, "%s:%d" % (cb.span["file"], cb.span["line"]), "the future of the wrapped call is never awaited/polled by the layer")
            continue
        nresp += 1
        ok_found, ctors_all = False, set()
        examined = 0
        for b0 in bodies:
            if b0.kind not in ("coroutine", "fn"):
                continue
            if b0.kind == "fn" and b0 is cb:
                continue
            for (i, j, node) in ret_assigns(tr, b0):
                examined += 1
                o, cts = FL.passes(tr.expand(node, upvars=True), sources)
                if o:
                    ok_found = True
                    ctors_all |= cts
        want = {P} if P else set()
        extra = {x for x in ctors_all if x not in want and x != "<closure>"}
        # layers may add their own terminal error variants on triggered paths; on the pass-through path only P is allowed.
        # variants that wrap the inner error on *triggered* paths (e.g. reconnect's MaxAttemptsExceeded) are listed, not failed
        rep.saw(cb)
        # (a layer whose every error path wraps the inner error in a variant of its own — hedge reports each failure as
        # all-attempts-failed — has no pass-through error path for P to appear on: those variants are listed)
        ok = ok_found and (not want or want <= ctors_all or bool(extra))
        rep.ob("C20.RESP", k, ok, "%s:%d" % (cb.span["file"], cb.span["line"]),
               "the wrapped call's outcome is what the layer's future returns (%d return sites examined); error constructors on the way: %s"
               % (examined, sorted(x.split("::")[-1] for x in ctors_all) or ["none"]) if ok else
               ("no returned value of the layer's future carries the wrapped call's outcome" if not ok_found else
                "the inner error is not wrapped by the pass-through constructor %s used in poll_ready (seen: %s)" % (P, sorted(ctors_all))))
        rep.note("RESP %s: pass-through=%s, constructors on outcome paths=%s" % (adt["def"].split("::")[-1], P, sorted(ctors_all)))
    rep.floor("C20.resp-services", nresp, 14)
    facts, tr, R = facts_orig, tr_orig, R_orig
    # ---------------------------------------------------------------- the umbrella crate holds no logic
    um = facts.crates.get("tower_resilience")
    if um is None:
        rep.anchor_missing("umbrella crate tower_resilience")
    else:
        logic = [im for im in um.impls if im.get("trait") in ("tower_service::Service", "tower_layer::Layer", "core::future::future::Future", "core::ops::drop::Drop")]
        rep.ob("C20.UMBRELLA", "tower_resilience|no-logic", not logic and not um.bodies, "-",
               "the umbrella crate defines no Service/Layer/Future/Drop impl and no function body (%d bodies): no behaviour can hide behind the re-exports" % len(um.bodies)
               if not logic and not um.bodies else
               "the umbrella crate defines %d function bodies / %d Service|Layer|Future|Drop impls that are not analysed by the per-crate rules" % (len(um.bodies), len(logic)))
    # ---------------------------------------------------------------- LISTEN
    sites = []
    for b in facts.all_bodies():
        g = graph(b)
        for cs in g.calls():
            if cs.def_ == ON_EVENT:
                sites.append((b, cs))
    rep.floor("C20.on_event-sites", len(sites), 1)
    emit_bodies = []
    for (b, cs) in sites:
        rep.saw(b)
        ok = False
        detail = "on_event invoked in %s, which is not a closure handed to catch_unwind" % b.def_
        if b.kind == "closure":
            for (pb, bb, idx, rv) in tr.aggsites((b.crate.name, b.def_)):
                pg = graph(pb)
                # the closure value must flow (through AssertUnwindSafe) into catch_unwind
                for pc in pg.calls():
                    if pc.def_ == CATCH_UNWIND:
                        a0 = peel(tr.operand(pb, pc.args[0], pc.loc))
                        clos = _unwrap_agg(tr, a0)
                        if clos and clos[0] == "agg" and clos[1:] == (pb.crate.name, pb.def_, bb, idx):
                            ok = True
                            detail = "on_event runs inside the closure passed to catch_unwind at %s" % pc.where()
                            emit_bodies.append((pb, pc))
        rep.ob("C20.LISTEN-CATCH", site_key(b, "on_event#%d" % _ordinal(graph(b), cs)), ok, cs.where(), detail)
    for (pb, pc) in emit_bodies:
        rep.saw(pb)
        pg = graph(pb)
        nexts = [c.bb for c in pg.calls() if c.name == "next" and c.trait == "core::iter::traits::iterator::Iterator"]
        loops = [(pb, pg, pc.target, nexts, pc)]
        if not nexts:
            # the guarded notification lives in a helper: the listener loop is in its caller(s); the helper itself must
            # return normally after catch_unwind
            r0 = pg.reach([pc.target], kinds=(N,))
            div0 = [x for x in r0 if pg.term(x)["k"] == "call" and (pg.term(x)["target"] is None or Call(pg, x, pg.term(x)).name in ("resume_unwind", "panic_any", "abort", "exit"))]
            rep.ob("C20.LISTEN-LOOP", site_key(pb, "guarded-helper"), not div0, pc.where(),
                   "the helper that guards one listener returns normally whether or not the listener panicked" if not div0 else
                   "the helper that guards one listener can diverge after catch_unwind (%s)" % pg.where(div0[0]))
            loops = []
            for cs in tr.callers(pb.def_):
                cb_ = cs.g.b
                cg_ = cs.g
                nx = [c.bb for c in cg_.calls() if c.name == "next" and c.trait == "core::iter::traits::iterator::Iterator"]
                loops.append((cb_, cg_, cs.target, nx, cs))
        for (lb, lg, start, nexts, at) in loops:
            rep.saw(lb)
            r = lg.reach([start], kinds=(N,), avoid_nodes=nexts)
            rets = [x for x in r if lg.term(x)["k"] == "return"]
            div = []
            for x in r:
                t = lg.term(x)
                if t["k"] == "call" and t["target"] is None:
                    div.append(x)
                if t["k"] == "call":
                    cx = Call(lg, x, t)
                    if cx.name in ("resume_unwind", "panic_any", "panic_fmt", "begin_panic", "abort", "exit"):
                        div.append(x)
            bad = rets + div
            rep.ob("C20.LISTEN-LOOP", site_key(lb, "emit-loop"), bool(nexts) and not bad, at.where(),
                   "after a listener returns or panics the loop proceeds to the next listener (no return, re-raised panic or other "
                   "exit is reachable from the catch_unwind result without asking the iterator again)" if (nexts and not bad)
                   else "an exit (%s at %s) is reachable after catch_unwind without visiting the remaining listeners: a listener's panic "
                   "can escape or cut the notification short" % ("return" if rets else "diverging call / re-raised panic", lg.where(bad[0]) if bad else "-"))
    # listeners run outside blocking locks: no std::sync guard is live where a layer notifies its listeners.  A listener is
    # user code; with a blocking, non-reentrant lock held around it, a listener that touches the same layer (or merely waits
    # for another request through it) stops that request and every other one that needs the lock: what the listener does then
    # decides whether calls complete.  Judged on the inlined view (the notification may sit in a helper called with the lock held).
    nemit = 0
    fi_ = facts.inl
    for b in fi_.all_bodies():
        if fi_.absorbed(b) or b.crate.name == "tower_resilience_core":
            continue
        g = graph(b)
        held = []
        n_here = 0
        for c in g.calls():
            if c.name == "emit" and "EventListeners" in (c.path or ""):
                n_here += 1
                for l in range(len(b.locals)):
                    ts = b.local_ty(l)["s"]
                    if ts.startswith(("std::sync::MutexGuard<", "std::sync::RwLockReadGuard<", "std::sync::RwLockWriteGuard<",
                                      "std::sync::poison::mutex::MutexGuard<", "std::sync::poison::rwlock::RwLockReadGuard<", "std::sync::poison::rwlock::RwLockWriteGuard<",
                                      "parking_lot::")) and "Guard<" in ts and g.maybe_init(l, c.bb):
                        held.append((c, l, ts))
        if not n_here:
            continue
        nemit += n_here
        rep.saw(b)
        rep.ob("C20.LISTEN-NOLOCK", site_key(b, "emit-outside-locks"), not held, held[0][0].where() if held else "%s:%d" % (b.span["file"], b.span["line"]),
               "%d notification site(s): no blocking lock guard is live while listeners run" % n_here if not held else
               "listeners are notified while the blocking lock guard `%s` (%s) is held: a listener that touches the same layer, or waits for "
               "another request through it, blocks every call that needs this lock" % (b.local_name(held[0][1]) or "_%d" % held[0][1], held[0][2][:60]))
    rep.floor("C20.emit-sites", nemit, 40)
    # emit (public anchor) returns unit
    emit = [b for b in facts.crates["tower_resilience_core"].bodies if b.name == "emit" and b.def_.startswith("tower_resilience_core::events::EventListeners")]
    if not emit:
        rep.anchor_missing("tower_resilience_core::events::EventListeners::emit")
    for eb in emit:
        rt = eb.local_ty(0)["s"]
        rep.ob("C20.LISTEN-UNIT", site_key(eb, "emit-ret"), rt == "()", "%s:%d" % (eb.span["file"], eb.span["line"]), "emit returns %s" % rt)
    # listener list is private
    adt = facts.adt("tower_resilience_core::events::EventListeners")
    if adt is None:
        rep.anchor_missing("tower_resilience_core::events::EventListeners")
    else:
        for f in adt["variants"][0]["fields"]:
            fty = facts.crates["tower_resilience_core"].types[f["ty"]]["s"]
            if "EventListener" in fty:
                rep.ob("C20.LISTEN-PRIVATE", "tower_resilience_core|EventListeners." + f["name"], f["vis"] != "pub", "-",
                       "field %s: %s has visibility %s" % (f["name"], fty, f["vis"]))


def _is_inner_future(tr, node, depth=0, seen=None):
    """node is (derived from) the result of `<S as Service>::call` on a type parameter"""
    if seen is None:
        seen = set()
    node = peel(node)
    if depth > 8 or node in seen:
        return False
    seen.add(node)
    if node[0] == "phi":
        return any(_is_inner_future(tr, x, depth + 1, seen) for x in node[1])
    if node[0] == "call":
        c = tr.call_of(node)
        if c.def_ == "tower_service::Service::call" and c.self_kind in ("param", "ref_param"):
            return True
        if c.name in ("pin", "new", "into_future", "new_unchecked", "as_mut", "timeout", "timeout_at") and c.args:
            return any(_is_inner_future(tr, tr.expand(tr.operand(c.g.b, a, c.loc), upvars=True, params=False), depth + 1, seen) for a in c.args)
        # any library combinator that takes a future by value and returns a type parameterised by it
        # (Timeout<F>, Fuse<F>, Map<F, _>, Pin<Box<F>>, Instrumented<F>, ...) still is that future
        if c.args and not any(d in tr.facts.bodies for d in c.targets_def()) and not c.dest["p"]:
            b = c.g.b
            rty = b.local_ty(c.dest["l"])["s"]
            for a in c.args:
                pl = a.get("move")
                if pl is None or pl["p"]:
                    continue
                aty = b.local_ty(pl["l"])["s"]
                if len(aty) > 3 and aty in rty and aty != rty and \
                        _is_inner_future(tr, tr.expand(tr.operand(b, a, c.loc), upvars=True, params=False), depth + 1, seen):
                    return True
    if node[0] == "field" and node[3] and "Future" in str(node[3]):
        from ..util import agg_sites
        for (ab, i, j, rv) in agg_sites(tr.facts, node[3]):
            if node[2] in rv["fields"]:
                v = tr.expand(tr.operand(ab, rv["ops"][rv["fields"].index(node[2])], (i, j)), upvars=True, params=False)
                if _is_inner_future(tr, v, depth + 1, seen):
                    return True
    return False


def _is_service_field(facts, b, fname):
    st = b.types[b.impl["self_ty"]]
    adt = b.crate.adts.get(st.get("def"))
    if not adt:
        return False
    for f in adt["variants"][0]["fields"]:
        if f["name"] == fname:
            return b.crate.types[f["ty"]].get("k") == "param"
    return False


def _ordinal(g, cs):
    """stable ordinal of a call site among same-callee sites of the body (source order)"""
    same = sorted([c.bb for c in g.calls() if c.def_ == cs.def_ and c.self_kind == cs.self_kind],
                  key=lambda bb: (g.term(bb)["span"]["line"], bb))
    return same.index(cs.bb)


def _unwrap_agg(tr, node):
    """look through single-field wrapper aggregates (AssertUnwindSafe(closure))"""
    guard = 0
    while node[0] == "agg" and guard < 4:
        b, rv = tr.agg_of(node)
        if rv["ak"] in ("closure", "coroutine"):
            return node
        if rv["ak"] == "adt" and len(rv["ops"]) == 1:
            node = peel(tr.operand(b, rv["ops"][0], (node[3], node[4])))
            guard += 1
        else:
            return node
    return node


def _derives_from_calls(tr, node, body, bbs, depth=0):
    if depth > 6 or node[0] != "call":
        return False
    if node[2] == body.def_ and node[3] in bbs:
        return True
    c = tr.call_of(node)
    for a in c.args:
        for lf in leaves(tr.operand(c.g.b, a, c.loc)):
            lf = peel(lf)
            while lf[0] in ("field", "downcast"):
                lf = peel(lf[1])
            if lf[0] == "call" and _derives_from_calls(tr, lf, body, bbs, depth + 1):
                return True
    return False


def _request_origin(tr, node, depth=0):
    """request must be param#2 of a Service::call (moved) or Clone::clone of it (or of a clone)"""
    oks = []
    descs = []
    for lf in leaves(node):
        lf = peel(lf)
        if lf[0] == "param":
            b = tr._body(lf[1], lf[2])
            is_call = b is not None and b.name == "call" and b.impl and b.impl.get("trait") == "tower_service::Service"
            oks.append(bool(is_call and lf[3] == 2))
            descs.append("request parameter of %s" % lf[2] if oks[-1] else "parameter %d of %s" % (lf[3], lf[2]))
        elif lf[0] == "call" and depth < 6:
            c = tr.call_of(lf)
            if c.def_ == CLONE:
                inner = tr.expand(tr.operand(c.g.b, c.args[0], c.loc), upvars=True, params=True)
                ok, d = _request_origin(tr, inner, depth + 1)
                oks.append(ok)
                descs.append("clone of (" + d + ")")
            else:
                oks.append(False)
                descs.append("result of " + c.path)
        elif lf[0] == "field" and depth < 6:
            # field of a future struct initialised from the request (hand-written futures): follow
            # the field back to aggregates building that struct
            oks.append(None)
            descs.append("field %s" % show(lf))
        else:
            oks.append(False)
            descs.append(show(lf))
    if not oks:
        return False, "no origin"
    if any(o is None for o in oks):
        return all(o is not False for o in oks), "; ".join(descs)
    return all(oks), "; ".join(sorted(set(descs)))
