"""C19 — chaos injection is reproducible and bounded; injected errors skip the inner call."""
from ..core import graph, Call, peel, leaves, show, N, U, D
from ..util import *

EXPLANATION = (
    "The concrete decision sequence for a seed (rand's algorithm), the statistical rates and min > max behaviour are "
    "NOT decided. Decided: (DETERMINISM) every random draw that feeds an inject/pass decision or a latency value is "
    "made on the generator behind the service's own mutex; no thread-local / OS generator, clock or other source "
    "is sampled in the service; that generator is StdRng::seed_from_u64(seed) on the Some edge of config.seed "
    "(OS entropy only when no seed is given); clones share it; (ONE-REGION) all draws of one request happen "
    "inside one lock region with no suspension point in between, so concurrent requests cannot interleave their "
    "draws; (SKIP) the wrapped service is called only on the None edge of inject_error and is unreachable from "
    "the Some edge; (GUARDS) the error roll is drawn only under error_rate() > 0 and the latency roll only under "
    "latency_rate > 0 — with both rates 0 nothing is drawn, slept or injected; the injector decides by "
    "roll < rate; (LATENCY) the sleep lasts from_millis(x) with x = random_range(min_ms..=max_ms) under "
    "max_ms > min_ms, else min_ms, where min_ms/max_ms are as_millis() of the configured bounds; (CONFIG) "
    "builder methods carry the seed, rates and bounds through."
    ' (NO-PANIC-ARITH) no panicking Instant/Duration operator on configured latencies.')
RULE = "one obligation per random-draw site, per generator construction, per wrapped-call site, per guard, per builder field"
TRUSTED = ["rand::StdRng (deterministic for a seed)", "std::sync::Mutex", "tokio::time::sleep"]
ASSUMPTIONS = ["min_latency <= max_latency for the range clause"]
CONFIG_CRATES = ["tower_resilience_chaos"]
TECHNIQUE = "static analysis of built MIR: nondeterminism taint (who-calls on random sources, receiver origin), lock-region rule, edge dominance / no-reach, value-flow of the latency value, builder field preservation"

CRATE = "tower_resilience_chaos"
DRAWS = ("random", "random_range", "random_bool", "random_ratio", "gen", "gen_range", "gen_bool", "sample", "next_u32", "next_u64", "fill", "fill_bytes")
AMBIENT = ("rand::rngs::thread::rng", "rand::random", "rand::random_range", "rand::random_bool", "rand::thread_rng", "rand::rngs::thread::thread_rng",
           "rand::random_iter", "rand::random_ratio")


def run(facts, tr, rep):
    # judged on the fully inlined program: the call future may be built in a private function, the draws may sit in a
    # closure handed to a lock helper of a private generator newtype, the injection step in a helper that returns Err
    facts, tr = facts.inl, tr.inl
    _n_ops = check_no_panicking_time_arith(facts, tr, rep, "C19.NO-PANIC-ARITH", facts.crates[CRATE].bodies)
    rep.note("panicking Instant/Duration operators examined in the crate: %d" % _n_ops)
    sbs = service_call_bodies(facts, crate=CRATE)
    if not sbs:
        rep.anchor_missing("Service::call of the chaos service")
        return
    sb = sbs[0]
    bodies = descendants(facts, sb)
    cor = [d for d in bodies if d.kind == "coroutine"]
    if not cor:
        rep.anchor_missing("call future of the chaos service")
        return
    b = cor[0]
    rep.saw(b)
    g = graph(b)
    # private synchronous helpers called from the call future are part of the decision code (e.g. an extracted
    # `sample_latency`); each is remembered with the call node it is entered from
    helper_of = {}
    for c in g.calls():
        node = ("call", b.crate.name, b.def_, c.bb)
        hb = tr.local_sync_callee(node)
        if hb is not None and hb.crate.name == CRATE and hb not in bodies:
            bodies.append(hb)
            helper_of[hb.def_] = (node, c)
    # ---------------------------------------------------------------- DETERMINISM
    draws = []
    for bd in bodies:
        for c in graph(bd).calls():
            if c.name in DRAWS and ("rand" in (c.def_ or "")):
                draws.append((bd, c))
    rep.floor("C19.draw-sites", len(draws), 3)
    locks = [c for c in g.calls() if c.name in ("lock", "try_lock") and "utex" in (c.path or "")]
    for n, (bd, c) in enumerate(draws):
        rep.saw(bd)
        if bd.def_ in helper_of:
            with tr.bound(bd, helper_of[bd.def_][0]):
                recv = tr.expand(tr.operand(bd, c.args[0], c.loc), upvars=True)
        else:
            recv = tr.expand(tr.operand(bd, c.args[0], c.loc), upvars=True)
        lk = calls_in(tr, recv, lambda x: x.name == "lock" and "utex" in (x.path or ""))
        from_field = False
        for l in lk:
            mx = tr.expand(tr.operand(l.g.b, l.args[0], l.loc), upvars=True)
            # the mutex is the service's own generator field (identified by its type, not its name)
            for x in tr.walk(mx, limit=40):
                if x[0] == "field" and x[3] and _is_rng_field(facts, x):
                    from_field = True
        rep.ob("C19.DETERMINISM", skey(bd, "draw#%d" % n), bool(lk) and from_field, c.where(),
               "the draw is made on the service's own generator, under its mutex" if lk and from_field else
               "a random draw (%s) is not made on the service's seeded generator: the decision sequence is not a function of the seed" % c.path[:60])
    amb = []
    for bd in facts.crates[CRATE].bodies:
        for c in graph(bd).calls():
            if c.def_ in AMBIENT or (c.def_ or "").startswith("rand::rngs::thread"):
                amb.append((bd, c))
    rep.ob("C19.DETERMINISM", "%s|ambient-sources" % CRATE, not amb, amb[0][1].where() if amb else "-",
           "no thread-local / global random source is used in the chaos crate" if not amb else
           "ambient random source %s used in %s" % (amb[0][1].path[:60], amb[0][0].def_))
    # generator construction
    cr = [x for x in facts.crates[CRATE].bodies if x.name == "create_rng"]
    ctor_calls = []
    CTORS = ("seed_from_u64", "from_seed", "from_os_rng", "from_rng", "from_entropy", "try_from_os_rng")
    for bd in facts.crates[CRATE].bodies:
        for c in graph(bd).calls():
            if c.name in CTORS:
                ctor_calls.append((bd, c))
    # ... and constructors handed to an Option combinator as function items:
    #     config.seed.map_or_else(StdRng::from_os_rng, StdRng::seed_from_u64), .map(seed_from_u64).unwrap_or_else(from_os_rng)
    ROLE_OF = {("map_or_else", 1): "None", ("map_or_else", 2): "Some", ("map", 1): "Some", ("and_then", 1): "Some",
               ("map_or", 2): "Some", ("unwrap_or_else", 1): "None", ("or_else", 1): "None"}
    item_uses = []
    for bd in facts.crates[CRATE].bodies:
        for c in graph(bd).calls():
            for k, a in enumerate(c.args):
                fi = (a.get("const") or {}).get("fn") if isinstance(a, dict) else None
                if fi and fi.get("name") in CTORS:
                    item_uses.append((bd, c, k, fi["name"]))
    rep.floor("C19.generator-constructions", len(ctor_calls) + len(item_uses), 2)
    for n, (bd, c, k, nm) in enumerate(item_uses):
        rep.saw(bd)
        role = ROLE_OF.get((c.name, k)) if (c.def_ or "").startswith("core::option::Option") else None
        recv = tr.expand(tr.operand(bd, c.args[0], c.loc), upvars=True)
        on_seed = mentions_field(tr, recv, "seed")
        if nm in ("seed_from_u64", "from_seed"):
            ok = role == "Some" and on_seed
            rep.ob("C19.SEED", skey(bd, "%s-item#%d" % (nm, n)), ok, c.where(),
                   "with a seed the generator is StdRng::seed_from_u64 applied to config.seed's payload (%s)" % c.name if ok else
                   "seeded construction (passed to %s) is not applied to the payload of config.seed" % c.name)
        else:
            ok = role == "None" and on_seed
            rep.ob("C19.SEED", skey(bd, "%s-item#%d" % (nm, n)), ok, c.where(),
                   "OS entropy is used only when no seed is configured (%s on config.seed)" % c.name if ok else
                   "an entropy-seeded generator can be constructed (via %s) although a seed may be configured" % c.name)
    for n, (bd, c) in enumerate(ctor_calls):
        rep.saw(bd)
        edges = dominating_edges(tr, bd, c.bb)
        seed_edge = [e for e in edges if e["kind"] == "enum" and mentions_field(tr, e["node"], "seed")]
        if c.name in ("seed_from_u64", "from_seed"):
            arg = peel(tr.expand(tr.operand(bd, c.args[0], c.loc)))
            ok = any(e["label"] == "Some" for e in seed_edge) and mentions_field(tr, arg, "seed")
            rep.ob("C19.SEED", skey(bd, "%s#%d" % (c.name, n)), ok, c.where(),
                   "with a seed the generator is StdRng::seed_from_u64(config.seed)" if ok else "seeded construction does not use config.seed on its Some edge")
        else:
            ok = any(e["label"] == "None" for e in seed_edge)
            rep.ob("C19.SEED", skey(bd, "%s#%d" % (c.name, n)), ok, c.where(),
                   "OS entropy is used only when no seed is configured" if ok else "an entropy-seeded generator is constructed although a seed may be configured")
    st = sb.types[sb.impl["self_ty"]]
    nsh = check_share(facts, tr, rep, "C19.SHARE", st["def"])
    rep.floor("C19.share-fields", nsh, 1)      # the generator must be shared by the clones (alone or in one shared state struct)
    # the service's generator is the one create_rng built
    # ---------------------------------------------------------------- ONE-REGION
    own = [c for (bd, c) in draws if bd is b] + [helper_of[bd.def_][1] for (bd, c) in draws if bd.def_ in helper_of]
    own = list({c.bb: c for c in own}.values())
    if own and locks:
        lk = locks[0]
        # one acquisition per request: every draw lies behind an acquisition, and no acquisition lies between two draws
        # (`match m.try_lock() { Ok(g) => g, Err(_) => m.lock().unwrap() }` is one acquisition reached two ways)
        lbs = [x.bb for x in locks]
        nolock = g.reach([0], kinds=(N,), avoid_nodes=lbs)
        region_ok = all(c.bb not in nolock for c in own) and \
            not any(x.target is not None and c2.bb in g.reach([x.target], kinds=(N,)) and x.bb in g.reach([c1.bb], kinds=(N,))
                    for x in locks for c1 in own for c2 in own)
        ys = []
        for c in own:
            back = [x for x in range(g.n) if g.term(x)["k"] == "yield" and x in g.reach([lk.bb], kinds=(N,)) and c.bb in g.reach([x], kinds=(N,))]
            ys += back
        rep.ob("C19.ONE-REGION", skey(b, "draws"), region_ok and not ys, lk.where(),
               "all draws of a request happen under one lock acquisition with no suspension point in between" if region_ok and not ys else
               "draws are spread over %d lock region(s) / separated by a suspension point: concurrent requests can interleave their draws" % len(locks))
    # ---------------------------------------------------------------- SKIP
    sites = inner_calls(facts, sb)
    rep.floor("C19.inner-call-sites", len(sites), 1)
    for (bb_, c) in sites:
        gg = graph(bb_)
        edges = dominating_edges(tr, bb_, c.bb)
        ok = False
        some_tgt = None
        for e in edges:
            if e["kind"] == "enum" and e["label"] == "None" and e["node"][0] == "call" and tr.call_of(e["node"]).name == "inject_error":
                ok = True
                some_tgt = e["sw"].variants.get("Some")
        reach = False
        if some_tgt is not None:
            reach = c.bb in gg.reach([some_tgt], kinds=(N,))
        if not (ok and not reach):
            # path form on the fully inlined program: an extracted `fail_if_injected(..)?` returns Err(e) / Ok(()) and the
            # caller branches on that; the outcome is carried over the join by the feasibility tags
            fi_, tri_ = facts, tr          # (this module already runs on the fully inlined view)
            for sbi in service_call_bodies(fi_, crate=CRATE)[:1]:
                for (bi, ci) in inner_calls(fi_, sbi):
                    gi_ = graph(bi)
                    is_inj = lambda nd: nd[0] == "call" and tri_.call_of(nd).name == "inject_error"
                    ee = enum_edges(tri_, bi, is_inj)
                    none_e = [(a, t) for (a, t, nm) in ee if nm == "None"]
                    some_t = [t for (a, t, nm) in ee if nm == "Some"]
                    if none_e and some_t and only_via(gi_, ci.bb, none_e) and ci.bb not in gi_.reach(some_t, kinds=(N,), avoid_edges=none_e):
                        ok, reach = True, False
        rep.ob("C19.SKIP", skey(bb_, "inner-call#%d" % ordinal(gg, c)), ok and not reach and not gg.in_cycle(c.bb), c.where(),
               "the wrapped service is called only when no error was injected, once" if ok and not reach else
               "the wrapped service can be called although an error was injected (or without asking the injector)")
    # ---------------------------------------------------------------- GUARDS
    for n, c in enumerate(own):
        edges = dominating_edges(tr, b, c.bb)
        gd = None
        for e in edges:
            if e["kind"] != "bool":
                continue
            cm = cmp_on_edge(tr, e)
            if cm and cm[0] == "Gt" and _is_zero_f(cm[2]) and (mentions_field(tr, cm[1], "latency_rate") or calls_in(tr, cm[1], lambda x: x.name == "error_rate")):
                gd = cm
        rep.ob("C19.GUARDS", skey(b, "draw-guard#%d" % n), gd is not None, c.where(),
               "the draw happens only under a positive rate (%s > 0)" % show(gd[1]) if gd else
               "a draw happens although the corresponding rate may be 0: with zero rates the layer would still consume random numbers")
    # injectors decide by roll < rate
    ninj = 0
    for c0 in facts.crates.values():
        for im in c0.impls:
            if im.get("trait") != "tower_resilience_chaos::config::ErrorInjector":
                continue
            for it in im["items"]:
                if it["name"] != "inject_error":
                    continue
                ib = facts.bodies.get(it["def"])
                if ib is None:
                    continue
                rep.saw(ib)
                ig = graph(ib)
                somes = [(i, j) for (i, j, node) in ret_assigns(tr, ib) if node[0] == "agg" and tr.agg_of(node)[1].get("variant") == "Some"]
                # the rate the injector compares with is the one its public error_rate() reports
                rate_fields = set()
                for it2 in im["items"]:
                    if it2["name"] == "error_rate" and facts.bodies.get(it2["def"]) is not None:
                        for (_i, _j, nd) in ret_assigns(tr, facts.bodies[it2["def"]]):
                            rate_fields |= {x[2] for x in tr.walk(nd, limit=30) if x[0] == "field" and isinstance(x[2], str)}
                for (i, j) in somes:
                    ninj += 1
                    ok = False
                    for e in dominating_edges(tr, ib, i):
                        if e["kind"] == "bool":
                            cm = cmp_on_edge(tr, e)
                            if cm and cm[0] == "Lt" and peel(cm[1])[0] == "param" and any(mentions_field(tr, cm[2], rf) for rf in (rate_fields or {"rate"})):
                                ok = True
                    rep.ob("C19.GUARDS", skey(ib, "inject-some"), ok, ig.where(i, j),
                           "an error is injected only when roll < rate" if ok else "an error is injected on a condition other than roll < rate")
    rep.floor("C19.injector-some-sites", ninj, 1)
    # ---------------------------------------------------------------- LATENCY
    sleeps = [c for c in g.calls() if c.def_ and c.def_.startswith("tokio::time::sleep::sleep")]
    rep.floor("C19.sleep-sites", len(sleeps), 1)
    for n, c in enumerate(sleeps):
        d = tr.expand(tr.operand(b, c.args[0], c.loc))
        ctx_ = None
        for lf in leaves(d):
            hb2 = tr.local_sync_callee(peel(lf))
            if hb2 is not None and hb2.def_ in helper_of:
                ctx_ = (hb2, peel(lf))
        if ctx_ is not None:
            with tr.bound(ctx_[0], ctx_[1]):
                rets_ = tr.helper_returns(ctx_[0])
                from ..core import phi as _phi
                d = _phi(rets_) if rets_ else d
                ok, detail = _latency_ok(tr, ctx_[0], d)
            rep.ob("C19.LATENCY", skey(b, "sleep#%d" % n), ok, c.where(),
                   "the injected latency is from_millis(x), x drawn from as_millis(min_latency) ..= as_millis(max_latency) (or min when the range is empty)" if ok else detail)
            edges = dominating_edges(tr, b, c.bb)
            rep.ob("C19.LATENCY", skey(b, "sleep#%d|decided" % n), any((e["kind"] == "bool" and e["label"] == "true") or (e["kind"] == "enum" and e["label"] == "Some") for e in edges), c.where(),
                   "the sleep happens only when latency injection was decided")
            continue
        fm = calls_in(tr, d, lambda x: x.name == "from_millis")
        ok = False
        detail = "the injected latency is not from_millis(random_range(min_ms..=max_ms) | min_ms)"
        if fm:
            x = tr.expand(tr.operand(b, fm[0].args[0], fm[0].loc))
            lv = [peel(y) for y in leaves(x)]
            rr = [y for y in lv if y[0] == "call" and tr.call_of(y).name == "random_range"]
            others = [y for y in lv if y not in rr]
            def ms_of(node, which):
                node = peel(node)
                while node[0] == "cast":
                    node = peel(node[2])
                if node[0] != "call":
                    return False
                cc = tr.call_of(node)
                return cc.name == "as_millis" and mentions_field(tr, tr.expand(tr.operand(cc.g.b, cc.args[0], cc.loc)), which)
            ok_other = all(ms_of(y, "min_latency") for y in others) and len(others) == 1
            ok_rr = False
            for y in rr:
                rc = tr.call_of(y)
                rng = peel(tr.expand(tr.operand(b, rc.args[1], rc.loc)))
                if rng[0] == "call" and "RangeInclusive" in (tr.call_of(rng).path or ""):
                    r2 = tr.call_of(rng)
                    lo = tr.expand(tr.operand(b, r2.args[0], r2.loc))
                    hi = tr.expand(tr.operand(b, r2.args[1], r2.loc))
                    guarded = False
                    for e in dominating_edges(tr, b, rc.bb):
                        if e["kind"] == "bool":
                            cm = cmp_on_edge(tr, e)
                            if cm and cm[0] == "Gt" and ms_of(cm[1], "max_latency") and ms_of(cm[2], "min_latency"):
                                guarded = True
                            if cm and cm[0] == "Lt" and ms_of(cm[1], "min_latency") and ms_of(cm[2], "max_latency"):
                                guarded = True
                    ok_rr = ms_of(lo, "min_latency") and ms_of(hi, "max_latency") and guarded
            ok = ok_other and ok_rr and len(rr) == 1
            if not ok:
                detail = "latency bounds: range ok=%s, fallback ok=%s (bounds must be as_millis() of min_latency / max_latency, range inclusive and guarded by max_ms > min_ms)" % (ok_rr, ok_other)
        rep.ob("C19.LATENCY", skey(b, "sleep#%d" % n), ok, c.where(),
               "the injected latency is from_millis(x), x drawn from as_millis(min_latency) ..= as_millis(max_latency) (or min when the range is empty)" if ok else detail)
        # only when latency was decided
        edges = dominating_edges(tr, b, c.bb)
        rep.ob("C19.LATENCY", skey(b, "sleep#%d|decided" % n), any((e["kind"] == "bool" and e["label"] == "true") or (e["kind"] == "enum" and e["label"] == "Some") for e in edges), c.where(),
               "the sleep happens only when latency injection was decided")


def _is_rng_field(facts, node):
    adt = facts.adt(node[3])
    if adt is None:
        return False
    crate = [c for c in facts.crates.values() if node[3] in c.adts][0]
    for v in adt["variants"]:
        for f in v["fields"]:
            if f["name"] == node[2]:
                t = crate.types[f["ty"]]["s"]
                return "Mutex<" in t and "Rng" in t
    return False


def _latency_ok(tr, b, d):
    """d = from_millis(x) with x = random_range(as_millis(min)..=as_millis(max)) guarded by max_ms > min_ms, else as_millis(min)"""
    fm = calls_in(tr, d, lambda x: x.name == "from_millis")
    if not fm:
        return False, "the injected latency is not from_millis(random_range(min_ms..=max_ms) | min_ms)"
    bb_ = fm[0].g.b
    x = tr.expand(tr.operand(bb_, fm[0].args[0], fm[0].loc), upvars=True)
    lv = [peel(y) for y in leaves(x)]
    rr = [y for y in lv if y[0] == "call" and tr.call_of(y).name == "random_range"]
    others = [y for y in lv if y not in rr]

    def ms_of(node, which):
        node = peel(node)
        while node[0] == "cast":
            node = peel(node[2])
        if node[0] != "call":
            return False
        cc = tr.call_of(node)
        return cc.name == "as_millis" and mentions_field(tr, tr.expand(tr.operand(cc.g.b, cc.args[0], cc.loc), upvars=True), which)
    ok_other = all(ms_of(y, "min_latency") for y in others) and len(others) == 1
    ok_rr = False
    for y in rr:
        rc = tr.call_of(y)
        rb = rc.g.b
        rng = peel(tr.expand(tr.operand(rb, rc.args[1], rc.loc), upvars=True))
        if rng[0] == "call" and "RangeInclusive" in (tr.call_of(rng).path or ""):
            r2 = tr.call_of(rng)
            lo = tr.expand(tr.operand(rb, r2.args[0], r2.loc), upvars=True)
            hi = tr.expand(tr.operand(rb, r2.args[1], r2.loc), upvars=True)
            guarded = False
            for e in dominating_edges(tr, rb, rc.bb):
                if e["kind"] == "bool":
                    cm = cmp_on_edge(tr, e)
                    if cm:
                        cm = (cm[0], tr.expand(cm[1], upvars=True), tr.expand(cm[2], upvars=True))
                    if cm and cm[0] == "Gt" and ms_of(cm[1], "max_latency") and ms_of(cm[2], "min_latency"):
                        guarded = True
                    if cm and cm[0] == "Lt" and ms_of(cm[1], "min_latency") and ms_of(cm[2], "max_latency"):
                        guarded = True
            ok_rr = ms_of(lo, "min_latency") and ms_of(hi, "max_latency") and guarded
    ok = ok_other and ok_rr and len(rr) == 1
    return ok, ("latency bounds: range ok=%s, fallback ok=%s (bounds must be as_millis() of min_latency / max_latency, range inclusive and guarded "
                "by max_ms > min_ms)" % (ok_rr, ok_other))


def _is_zero_f(n):
    n = peel(n)
    return n[0] == "const" and (n[1] or "").startswith("0")
