"""Inlined view of the facts: private helper extraction must not matter to path rules.

`inlined(facts)` returns a second Facts-like object in which, inside every body,

  * a call of a workspace function of the same crate whose body is available (sync helper, method, constructor) is
    replaced by the callee's blocks (parameters assigned from the arguments, `return` continuing at the call's
    target with the destination assigned, unwinding out of the callee continuing at the call's unwind target);
  * `helper(args).await` on a local `async fn` is replaced by the helper's coroutine body: its yields become yields
    of the caller (dropping the caller at such a yield continues on the drop path of the original await), its
    `return` produces `Poll::Ready(value)` into the original poll result and continues on the Ready arm.

Function boundaries stay available in the *original* facts, which every rule still receives: discovery by role
(which function is the admission test, which functions are the window states, ...) is done there, path questions
(dominance, pairing, await inventory, site counting) are asked of the inlined body with the same def path.
Inlining is bounded (depth 3, callee size, no recursion) and only ever adds paths that exist in the program.
"""
import copy
from .facts import Body
from .core import graph, Call

MAX_DEPTH = 3
MAX_BLOCKS = 700
MAX_TOTAL = 4500


def _is_place(x):
    return isinstance(x, dict) and "l" in x and "p" in x and isinstance(x["l"], int) and isinstance(x["p"], list)


def _remap(x, lmap, bmap_fields=None):
    """deep copy of a JSON fragment with locals remapped through lmap (function int->int)"""
    if _is_place(x):
        out = {"l": lmap(x["l"]), "p": []}
        for e in x["p"]:
            if isinstance(e, dict) and "index" in e:
                e2 = dict(e)
                e2["index"] = lmap(e["index"])
                out["p"].append(e2)
            else:
                out["p"].append(e)
        for k, v in x.items():
            if k not in ("l", "p"):
                out[k] = v
        return out
    if isinstance(x, dict):
        if x.get("k") in ("live", "dead") and isinstance(x.get("l"), int):
            return dict(x, l=lmap(x["l"]))          # StorageLive / StorageDead name a bare local
        return {k: _remap(v, lmap) for k, v in x.items()}
    if isinstance(x, list):
        return [_remap(v, lmap) for v in x]
    return x


_BB_FIELDS = ("target", "otherwise", "resume", "drop", "imaginary")


def _remap_term_blocks(t, bmap, unwind_to):
    """block indices of a (deep-copied) callee terminator -> caller indices; `unwind: continue` -> unwind_to"""
    for f in _BB_FIELDS:
        if isinstance(t.get(f), int):
            t[f] = bmap(t[f])
    if "targets" in t:
        t["targets"] = [[v, bmap(b)] for v, b in t["targets"]]
    if "unwind" in t:
        u = t["unwind"]
        if isinstance(u, int):
            t["unwind"] = bmap(u)
        elif u == "continue":
            t["unwind"] = unwind_to
    return t


def _goto(target, span):
    return {"k": "goto", "target": target, "span": span}


class _Work:
    """mutable copy of one body being expanded"""

    def __init__(self, body):
        self.body = body
        self.blocks = copy.deepcopy(body.blocks)
        self.locals = list(body.locals)
        self.debug = list(body.debug)
        self.changed = False

    def new_local(self, ty, name=None):
        d = {"ty": ty}
        if name:
            d["name"] = name
        self.locals.append(d)
        return len(self.locals) - 1

    def append_callee(self, cb, lmap_fixed, unwind_to, on_return, on_resume_exit=None, on_coroutine_drop=None):
        """append deep copies of callee body cb's blocks; returns index of its entry block.
        lmap_fixed: callee local -> caller local for pre-bound locals (others get fresh locals)
        on_return(block_dict): rewrites a copied block whose terminator is `return`
        """
        base = len(self.blocks)
        lm = dict(lmap_fixed)
        for i, l in enumerate(cb.locals):
            if i not in lm:
                self.locals.append(dict(l))          # keep every attribute of the local (name, user-declared, ...)
                lm[i] = len(self.locals) - 1

        def lmap(i):
            return lm[i]

        def bmap(i):
            return base + i
        for blk in cb.blocks:
            nb = _remap(blk, lmap)
            nb.setdefault("from", cb.def_)        # the body this block was written in (innermost helper)
            t = nb["term"]
            k = t["k"]
            _remap_term_blocks(t, bmap, unwind_to)
            self.blocks.append(nb)
        for off, blk in enumerate(cb.blocks):
            nb = self.blocks[base + off]
            k = nb["term"]["k"]
            if k == "return":
                on_return(nb)
            elif k == "resume":
                # unwinding out of the callee
                if isinstance(unwind_to, int):
                    nb["term"] = _goto(unwind_to, nb["term"]["span"])
                elif unwind_to == "terminate":
                    nb["term"] = {"k": "terminate", "span": nb["term"]["span"]}
            elif k == "coroutine_drop" and on_coroutine_drop is not None:
                on_coroutine_drop(nb)
        for d in cb.debug:
            self.debug.append(_remap(d, lmap))
        return base, lm


def _service_like_adts(facts):
    """ADTs that are services, layers or hand-written futures: their inherent methods are glue, not state machines"""
    cache = getattr(facts, "_svc_adts", None)
    if cache is None:
        cache = set()
        for c in facts.crates.values():
            for im in c.impls:
                if im.get("trait") in ("tower_service::Service", "tower_layer::Layer", "core::future::future::Future", "core::ops::drop::Drop"):
                    d = c.types[im["self_ty"]].get("def")
                    if d:
                        cache.add(d)
        facts._svc_adts = cache
    return cache


def _shallow_keep(facts, cb):
    """shallow policy: methods of state structs (anything that is not a service / layer / future type) and trait
    impl methods stay calls - they are the functions rules know by role; free functions and glue methods are inlined"""
    if cb.impl is None:
        return False
    if cb.impl.get("trait"):
        return True
    if cb.arg_count < 1 or cb.locals[1].get("name") != "self":
        return False          # an associated function without a receiver is a plain helper
    d = cb.types[cb.impl["self_ty"]].get("def")
    if d in _bookkeeping_adts(facts):
        return False          # a private struct that only ever lives in a local variable (`Attempts { retried, limit }`): glue
    return d not in _service_like_adts(facts)


def _bookkeeping_adts(facts):
    """private ADTs of the workspace that no other ADT stores in a field: values of such a type live in local variables
    of one function (loop counters grouped into a struct, a ledger of one call) — their methods are helpers of that
    function, not state machines known by role"""
    cache = getattr(facts, "_bk_adts", None)
    if cache is None:
        cache = set()
        for c in facts.crates.values():
            ftys = []
            for d, adt in c.adts.items():
                for v in adt.get("variants", []):
                    for fl in v.get("fields", []):
                        ftys.append(c.types[fl["ty"]]["s"])
            for d, adt in c.adts.items():
                if not d.startswith(c.name) or adt.get("vis") == "pub":
                    continue
                if not any(d in t for t in ftys):
                    cache.add(d)
        facts._bk_adts = cache
    return cache


def _callee_of(facts, body, c, stack, policy="full"):
    """the unique local body a call resolves to, when it may be inlined"""
    tg = [d for d in c.targets_def() if facts.bodies.get(d) is not None]
    if not tg:
        return None
    cb = facts.bodies.get(tg[-1])        # the resolved impl method when there is one
    if cb is None or cb.crate is not body.crate or cb.kind != "fn" or cb.def_ in stack or cb is body:
        return None
    if len(cb.blocks) > MAX_BLOCKS:
        return None
    # derive-generated impls (Clone, Default, PartialEq, ...) stay calls: they are library-like, and keeping them
    # opaque keeps `x.clone()` recognisable as a clone
    if cb.impl and cb.impl.get("trait") and any(((blk["term"].get("span") or {}).get("exp") or "").startswith("macro:") for blk in cb.blocks[:1]):
        if cb.impl["trait"].split("::")[-1] in ("Clone", "Default", "PartialEq", "Eq", "Debug", "Hash", "PartialOrd", "Ord", "Copy"):
            return None
    if c.dest["p"]:
        return None
    if len(c.args) != cb.arg_count:
        return None
    if policy == "shallow" and _shallow_keep(facts, cb):
        return None
    if isinstance(policy, tuple) and policy[0] == "keep" and cb.def_ in policy[1]:
        return None          # role functions named by the rule stay calls, every other helper is inlined
    return cb


def _expand_sync(facts, w, stack, depth, budget, policy="full"):
    """one pass: inline every eligible sync call in w; returns True if anything changed"""
    body = w.body
    changed = False
    nblocks = len(w.blocks)
    for bb in range(nblocks):
        t = w.blocks[bb]["term"]
        if t["k"] != "call" or t.get("inl"):
            continue
        f = t["func"]
        fn = f["const"]["fn"] if "const" in f and "fn" in f["const"] else None
        if fn is None:
            continue
        c = _PseudoCall(t, fn)
        cb = _callee_of(facts, body, c, stack, policy)
        if cb is None:
            continue
        if len(w.blocks) + len(cb.blocks) > budget:
            continue
        span = t["span"]
        ret_local = w.new_local(cb.locals[0]["ty"])
        target, unwind = t["target"], t["unwind"]
        dest = t["dest"]

        def on_return(nb, ret_local=ret_local, target=target, dest=dest, span=span):
            if target is None:
                nb["term"] = {"k": "unreachable", "span": span}
                return
            nb["stmts"] = nb["stmts"] + [{"k": "assign", "lhs": dest, "rv": {"k": "use", "op": {"move": {"l": ret_local, "p": []}}}, "span": span}]
            nb["term"] = _goto(target, span)
            nb["term"]["inl_ret"] = {"fn": fn, "ret": ret_local}
        fixed = {0: ret_local}
        base, lm = w.append_callee(cb, fixed, unwind, on_return)
        # parameters := arguments, in the call block
        pre = []
        for i, a in enumerate(t["args"]):
            pre.append({"k": "assign", "lhs": {"l": lm[i + 1], "p": []}, "rv": {"k": "use", "op": a}, "span": span})
        w.blocks[bb]["stmts"] = w.blocks[bb]["stmts"] + pre
        w.blocks[bb]["term"] = _goto(base, span)
        w.blocks[bb]["term"]["inl_call"] = {"fn": fn, "args": t["args"], "dest": dest, "callee": cb.def_}
        changed = True
    return changed


_FN_CALLS = ("core::ops::function::FnOnce::call_once", "core::ops::function::FnMut::call_mut", "core::ops::function::Fn::call")


def _closure_of_local(w, l, depth=0):
    """def path of the workspace closure the local `l` holds (or refers to), found through its type or through the
    single assignment chain that leads to the closure expression; None when it is not unique"""
    types = w.body.types
    ty = types[w.locals[l]["ty"]]
    if ty.get("k") == "closure":
        return ty.get("def")
    if ty.get("k") == "ref" and ty.get("args") and isinstance(ty["args"][0], int) and types[ty["args"][0]].get("k") == "closure":
        return types[ty["args"][0]].get("def")
    if depth > 6:
        return None
    defs = []
    for blk in w.blocks:
        for s_ in blk["stmts"]:
            if s_["k"] == "assign" and s_["lhs"]["l"] == l and not s_["lhs"]["p"]:
                defs.append(s_["rv"])
        t = blk["term"]
        if t["k"] == "call" and t["dest"]["l"] == l and not t["dest"]["p"] and not t.get("inl"):
            defs.append(None)
    if len(defs) != 1 or defs[0] is None:
        return None
    rv = defs[0]
    if rv["k"] == "agg" and rv.get("ak") == "closure":
        return rv.get("def")
    src = None
    if rv["k"] == "use":
        src = rv["op"].get("move") or rv["op"].get("copy")
    elif rv["k"] in ("ref", "rawptr"):
        src = rv["place"]
    if src is None or src["p"] not in ([], ["*"]):
        return None
    return _closure_of_local(w, src["l"], depth + 1)


def _fnitem_of_local(w, l, depth=0):
    """the function item (`{"def":..}` record of a zero-sized fn constant) the local holds on every path, else None"""
    if depth > 6:
        return None
    defs = []
    for blk in w.blocks:
        for s_ in blk["stmts"]:
            if s_["k"] == "assign" and s_["lhs"]["l"] == l and not s_["lhs"]["p"]:
                defs.append(s_["rv"])
        t = blk["term"]
        if t["k"] == "call" and t["dest"]["l"] == l and not t["dest"]["p"] and not t.get("inl"):
            defs.append(None)
    if len(defs) != 1 or defs[0] is None or defs[0]["k"] != "use":
        return None
    op = defs[0]["op"]
    if "const" in op:
        return op["const"].get("fn")
    src = op.get("move") or op.get("copy")
    if src is None or src["p"]:
        return None
    return _fnitem_of_local(w, src["l"], depth + 1)


def _expand_fnitem_calls(facts, w):
    """`f(a, b)` where `f` is a function item handed down as a generic `impl FnOnce(..)` (after the helper that takes it
    was inlined): the indirect call becomes a direct call of that function, which the next pass may inline"""
    changed = False
    for bb in range(len(w.blocks)):
        t = w.blocks[bb]["term"]
        if t["k"] != "call" or t.get("inl"):
            continue
        f = t["func"]
        fn = f["const"]["fn"] if "const" in f and "fn" in f["const"] else None
        if fn is None or fn.get("def") not in _FN_CALLS or len(t["args"]) != 2 or t["dest"]["p"]:
            continue
        a0 = t["args"][0]
        pl = a0.get("move") or a0.get("copy")
        item = None
        if "const" in a0:
            item = a0["const"].get("fn")
        elif pl is not None and not pl["p"]:
            item = _fnitem_of_local(w, pl["l"])
        if not item:
            continue
        cb = facts.bodies.get(item.get("resolved") or item.get("def")) or facts.bodies.get(item.get("def"))
        if cb is None or cb.kind != "fn" or cb.crate is not w.body.crate:
            continue
        a1 = t["args"][1]
        tpl = a1.get("move") or a1.get("copy")
        if cb.arg_count > 0 and (tpl is None or tpl["p"]):
            continue
        t["func"] = {"const": {"ty": f["const"].get("ty"), "fn": item}}
        t["args"] = [{"move": {"l": tpl["l"], "p": [{"f": k, "adt": "<tuple>", "t": cb.locals[k + 1]["ty"]}]}} for k in range(cb.arg_count)]
        t["via_fn_item"] = True
        changed = True
    return changed


def _inlinable_closure(facts, w, stack, budget, op):
    """(closure body, place) when operand `op` is a local holding (or referring to) one closure of this crate that may be
    inlined into w; else None"""
    pl = op.get("move") or op.get("copy") if isinstance(op, dict) else None
    if pl is None or pl["p"]:
        return None
    body = w.body
    cdef = _closure_of_local(w, pl["l"])
    cb = facts.bodies.get(cdef) if cdef else None
    if cb is None or cb.kind != "closure" or cb.crate is not body.crate or cb.def_ in stack or cb is body:
        return None
    if len(cb.blocks) > MAX_BLOCKS or len(w.blocks) + len(cb.blocks) > budget:
        return None
    types = body.types
    wants_ref = types[cb.locals[1]["ty"]].get("k") == "ref"
    passes_ref = types[w.locals[pl["l"]]["ty"]].get("k") == "ref"
    if passes_ref and not wants_ref:
        return None
    return cb, pl


def _inline_closure(w, cb, a0, arg_ops, dest, target, unwind, span, fn):
    """append the closure body cb; returns (entry block, statements that bind its parameters).  a0 = operand holding the
    closure (by value or by reference), arg_ops = operands of its declared parameters"""
    types = w.body.types
    pl = a0.get("move") or a0.get("copy")
    wants = types[cb.locals[1]["ty"]]
    wants_ref = wants.get("k") == "ref"
    passes_ref = types[w.locals[pl["l"]]["ty"]].get("k") == "ref"
    ret_local = w.new_local(cb.locals[0]["ty"])

    def on_return(nb):
        if target is None:
            nb["term"] = {"k": "unreachable", "span": span}
            return
        nb["stmts"] = nb["stmts"] + [{"k": "assign", "lhs": dest, "rv": {"k": "use", "op": {"move": {"l": ret_local, "p": []}}}, "span": span}]
        nb["term"] = _goto(target, span)
        nb["term"]["inl_ret"] = {"fn": fn, "ret": ret_local}
    base, lm = w.append_callee(cb, {0: ret_local}, unwind, on_return)
    pre = []
    if wants_ref and not passes_ref:
        tmp = w.new_local(wants["args"][0])
        pre.append({"k": "assign", "lhs": {"l": tmp, "p": []}, "rv": {"k": "use", "op": a0}, "span": span})
        pre.append({"k": "assign", "lhs": {"l": lm[1], "p": []},
                    "rv": {"k": "ref", "bk": "mut" if wants.get("mut") else "shared", "place": {"l": tmp, "p": []}}, "span": span})
    else:
        pre.append({"k": "assign", "lhs": {"l": lm[1], "p": []}, "rv": {"k": "use", "op": a0}, "span": span})
    for k, o in enumerate(arg_ops):
        pre.append({"k": "assign", "lhs": {"l": lm[k + 2], "p": []}, "rv": {"k": "use", "op": o}, "span": span})
    return base, pre


def _expand_closure_calls(facts, w, stack, budget):
    """inline `f()` / `f(a, b)` (FnOnce::call_once / FnMut::call_mut / Fn::call) when `f` is, on every path, one closure
    written in this crate — typically after a closure-taking helper (`with_lock(|st| ..)`, `emit_with(|..| ..)`) has
    itself been inlined: the closure's parameters are assigned from the argument tuple, its upvars are read through the
    closure value"""
    changed = False
    for bb in range(len(w.blocks)):
        t = w.blocks[bb]["term"]
        if t["k"] != "call" or t.get("inl"):
            continue
        f = t["func"]
        fn = f["const"]["fn"] if "const" in f and "fn" in f["const"] else None
        if fn is None or fn.get("def") not in _FN_CALLS or len(t["args"]) != 2 or t["dest"]["p"]:
            continue
        r = _inlinable_closure(facts, w, stack, budget, t["args"][0])
        if r is None:
            continue
        cb, pl = r
        a1 = t["args"][1]
        tpl = a1.get("move") or a1.get("copy")
        if cb.arg_count > 1 and (tpl is None or tpl["p"]):
            continue
        span = t["span"]
        arg_ops = [{"move": {"l": tpl["l"], "p": [{"f": k - 2, "adt": "<tuple>", "t": cb.locals[k]["ty"]}]}} for k in range(2, cb.arg_count + 1)]
        base, pre = _inline_closure(w, cb, t["args"][0], arg_ops, t["dest"], t["target"], t["unwind"], span, fn)
        w.blocks[bb]["stmts"] = w.blocks[bb]["stmts"] + pre
        w.blocks[bb]["term"] = _goto(base, span)
        w.blocks[bb]["term"]["inl_call"] = {"fn": fn, "args": t["args"], "dest": t["dest"], "callee": cb.def_}
        changed = True
    return changed


# Option / Result combinators: what each variant's arm computes.
#   ("payload",) the variant's payload | ("arg", i) the i-th argument | ("call", i, with_payload) the function passed as
#   i-th argument (a closure of this crate, or a tuple-variant / tuple-struct constructor) applied to the payload / to
#   nothing | ("const", "true" | "false") | ("wrap", V, action) V(<action>) of the result type | ("unit", V)
_OPT, _RES = "core::option::Option::<T>::", "core::result::Result::<T, E>::"
_COMBINATORS = {
    _OPT + "unwrap_or": {"Some": ("payload",), "None": ("arg", 1)},
    _OPT + "unwrap_or_else": {"Some": ("payload",), "None": ("call", 1, False)},
    _OPT + "map_or": {"Some": ("call", 2, True), "None": ("arg", 1)},
    _OPT + "map_or_else": {"Some": ("call", 2, True), "None": ("call", 1, False)},
    _OPT + "is_some_and": {"Some": ("call", 1, True), "None": ("const", "false")},
    _OPT + "is_none_or": {"Some": ("call", 1, True), "None": ("const", "true")},
    _OPT + "map": {"Some": ("wrap", "Some", ("call", 1, True)), "None": ("unit", "None")},
    _OPT + "and_then": {"Some": ("call", 1, True), "None": ("unit", "None")},
    _OPT + "or_else": {"Some": ("wrap", "Some", ("payload",)), "None": ("call", 1, False)},
    _OPT + "ok_or_else": {"Some": ("wrap", "Ok", ("payload",)), "None": ("wrap", "Err", ("call", 1, False))},
    _RES + "unwrap_or": {"Ok": ("payload",), "Err": ("arg", 1)},
    _RES + "unwrap_or_else": {"Ok": ("payload",), "Err": ("call", 1, True)},
    _RES + "map_or": {"Ok": ("call", 2, True), "Err": ("arg", 1)},
    _RES + "map_or_else": {"Ok": ("call", 2, True), "Err": ("call", 1, True)},
    _RES + "is_ok_and": {"Ok": ("call", 1, True), "Err": ("const", "false")},
    _RES + "is_err_and": {"Ok": ("const", "false"), "Err": ("call", 1, True)},
    _RES + "map": {"Ok": ("wrap", "Ok", ("call", 1, True)), "Err": ("wrap", "Err", ("payload",))},
    _RES + "map_err": {"Ok": ("wrap", "Ok", ("payload",)), "Err": ("wrap", "Err", ("call", 1, True))},
    _RES + "and_then": {"Ok": ("call", 1, True), "Err": ("wrap", "Err", ("payload",))},
    _RES + "or_else": {"Ok": ("wrap", "Ok", ("payload",)), "Err": ("call", 1, True)},
}
_COMBINATORS[_RES + "ok"] = {"Ok": ("wrap", "Some", ("payload",)), "Err": ("unit", "None")}
_COMBINATORS[_RES + "err"] = {"Ok": ("unit", "None"), "Err": ("wrap", "Some", ("payload",))}
_COMBINATORS[_OPT + "ok_or"] = {"Some": ("wrap", "Ok", ("payload",)), "None": ("wrap", "Err", ("arg", 1))}
_COMBINATORS[_OPT + "filter"] = {"Some": ("filter", 1), "None": ("unit", "None")}
_COMBINATORS["core::task::poll::Poll::<T>::map"] = {"Ready": ("wrap", "Ready", ("call", 1, True)), "Pending": ("unit", "Pending")}
_COMBINATORS["core::bool::<impl bool>::then"] = {"false": ("unit", "None"), "true": ("wrap", "Some", ("call", 1, False))}
_COMBINATORS["core::bool::<impl bool>::then_some"] = {"false": ("unit", "None"), "true": ("wrap", "Some", ("arg", 1))}
_VARIANTS = {"core::option::Option": [("None", "0", None), ("Some", "1", 0)], "core::result::Result": [("Ok", "0", 0), ("Err", "1", 1)],
             "bool": [("false", "0", None), ("true", "1", None)], "core::task::poll::Poll": [("Ready", "0", 0), ("Pending", "1", None)]}
_WRAP = {"Ready": ("core::task::poll::Poll", 0, 0), "Pending": ("core::task::poll::Poll", 1, None),
         "Some": ("core::option::Option", 1, 0), "None": ("core::option::Option", 0, None),
         "Ok": ("core::result::Result", 0, 0), "Err": ("core::result::Result", 1, 1)}


def _ctor_of(facts, item):
    """(adt def, variant name, variant index) when the function item is a tuple-variant / tuple-struct constructor with
    one field"""
    d = item.get("def") or ""
    for adt_def, vname in ((d.rsplit("::", 1) + [None])[:2],) if "::" in d else ():
        adt = facts.adt(adt_def)
        if adt is None:
            continue
        for vi, v in enumerate(adt.get("variants", [])):
            if v.get("name") == vname and len(v.get("fields", [])) == 1:
                return (adt_def, vname, vi, v["fields"][0].get("name", "0"))
    adt = facts.adt(d)
    if adt is not None and len(adt.get("variants", [])) == 1 and len(adt["variants"][0].get("fields", [])) == 1:
        v = adt["variants"][0]
        return (d, v.get("name"), 0, v["fields"][0].get("name", "0"))
    return None


def _actions(act):
    yield act
    if act[0] == "wrap":
        for x in _actions(act[2]):
            yield x


def _expand_combinators(facts, w, stack, budget):
    """`opt.map_or(d, |v| ..)`, `res.unwrap_or_else(|e| ..)`, `res.map_err(Error::Inner)`, ...  whose function arguments
    are closures written in this crate or plain constructors are replaced by the `match` they stand for (closure
    bodies inlined in the arms), so that rules see the same control flow whichever way the decision is spelled"""
    body = w.body
    types = body.types
    changed = False
    for bb in range(len(w.blocks)):
        t = w.blocks[bb]["term"]
        if t["k"] != "call" or t.get("inl") or t["dest"]["p"] or t["target"] is None:
            continue
        f = t["func"]
        fn = f["const"]["fn"] if "const" in f and "fn" in f["const"] else None
        spec = _COMBINATORS.get(fn.get("def")) if fn else None
        if spec is None:
            continue
        rpl = t["args"][0].get("move") or t["args"][0].get("copy")
        if rpl is None or rpl["p"]:
            continue
        rty_i = w.locals[rpl["l"]]["ty"]
        rty = types[rty_i]
        is_bool = rty.get("s") == "bool"
        vs = _VARIANTS.get("bool" if is_bool else rty.get("def"))
        if vs is None or (rty.get("k") != "adt" and not is_bool):
            continue
        dty = types[w.locals[t["dest"]["l"]]["ty"]]
        fns = {}          # arg index -> ("closure", body) | ("ctor", info)
        ok = True
        extra = 0
        for (vn, _val, _pi) in vs:
            for act in _actions(spec[vn]):
                if act[0] == "wrap" and (dty.get("k") != "adt" or dty.get("def") != _WRAP[act[1]][0]):
                    ok = False
                if act[0] == "unit" and (dty.get("k") != "adt" or dty.get("def") != _WRAP[act[1]][0]):
                    ok = False
                if act[0] == "filter":
                    act = ("call", act[1], True, "byref")
                if act[0] != "call" or act[1] in fns:
                    continue
                if act[1] >= len(t["args"]):
                    ok = False
                    break
                a = t["args"][act[1]]
                item = a["const"].get("fn") if "const" in a else None
                if item is None and (a.get("move") or a.get("copy")) and not (a.get("move") or a.get("copy"))["p"]:
                    item = _fnitem_of_local(w, (a.get("move") or a.get("copy"))["l"])
                if item is not None:
                    ct = _ctor_of(facts, item)
                    if ct is not None and act[2]:
                        fns[act[1]] = ("ctor", ct)
                        continue
                    # a function of this crate passed by name (`.unwrap_or_else(far_future)`): a plain call in the arm
                    hb_ = facts.bodies.get(item.get("def") or "")
                    if len(act) > 3 and ct is None:
                        # the predicate of `filter`, any function passed by name (`Duration::is_zero`): a plain call on `&payload`
                        fty_ = a["const"]["ty"] if "const" in a else w.locals[(a.get("move") or a.get("copy"))["l"]]["ty"]
                        fns[act[1]] = ("fnitem", (item, fty_))
                        continue
                    if ct is None and hb_ is not None and hb_.crate is body.crate and hb_.kind == "fn" and hb_.arg_count == (1 if act[2] else 0):
                        fty_ = a["const"]["ty"] if "const" in a else w.locals[(a.get("move") or a.get("copy"))["l"]]["ty"]
                        fns[act[1]] = ("fnitem", (item, fty_))
                        continue
                    ok = False
                    break
                r = _inlinable_closure(facts, w, stack, budget - extra, a)
                if r is None or r[0].arg_count != (2 if act[2] else 1):
                    ok = False
                    break
                extra += len(r[0].blocks)
                fns[act[1]] = ("closure", r[0])
        if not ok:
            continue
        span = t["span"]
        isize = next((i for i, ty_ in enumerate(types) if ty_.get("s") == "isize"), rty_i)
        disc = w.new_local(isize)
        dest, target, unwind = t["dest"], t["target"], t["unwind"]
        frm = w.blocks[bb].get("from")

        def new_block():
            nb = {"stmts": [], "term": _goto(target, span)}
            if frm is not None:
                nb["from"] = frm
            w.blocks.append(nb)
            return len(w.blocks) - 1

        def emit(cur, act, out_place, out_ty, payload_op):
            """append code computing `act` into out_place, starting in block cur; returns the block left open"""
            nb = w.blocks[cur]
            if act[0] == "payload":
                nb["stmts"].append({"k": "assign", "lhs": out_place, "rv": {"k": "use", "op": payload_op}, "span": span})
                return cur
            if act[0] == "arg":
                nb["stmts"].append({"k": "assign", "lhs": out_place, "rv": {"k": "use", "op": t["args"][act[1]]}, "span": span})
                return cur
            if act[0] == "const":
                bty = next((i for i, ty_ in enumerate(types) if ty_.get("s") == "bool"), None)
                nb["stmts"].append({"k": "assign", "lhs": out_place, "rv": {"k": "use", "op": {"const": {"ty": bty, "disp": act[1], "bits": "1" if act[1] == "true" else "0"}}}, "span": span})
                return cur
            if act[0] == "unit":
                adt_def, vi, _pi = _WRAP[act[1]]
                nb["stmts"].append({"k": "assign", "lhs": out_place, "rv": {"k": "agg", "ak": "adt", "def": adt_def, "variant": act[1], "vi": vi, "fields": [], "ops": []}, "span": span})
                return cur
            if act[0] == "wrap":
                adt_def, vi, pi = _WRAP[act[1]]
                ity = types[out_ty]["args"][pi]
                tmp = w.new_local(ity)
                cur = emit(cur, act[2], {"l": tmp, "p": []}, ity, payload_op)
                w.blocks[cur]["stmts"].append({"k": "assign", "lhs": out_place, "rv": {"k": "agg", "ak": "adt", "def": adt_def, "variant": act[1], "vi": vi,
                                                                                      "fields": ["0"], "ops": [{"move": {"l": tmp, "p": []}}]}, "span": span})
                return cur
            if act[0] == "filter":
                # Some(v) if pred(&v) => Some(v), otherwise None
                pl_ = payload_op["move"]
                pty_ = w.locals[pl_["l"]]["ty"]
                rty_ = next((i for i, ty_ in enumerate(types) if ty_.get("k") == "ref" and not ty_.get("mut") and ty_.get("args") == [pty_]), None)
                bty_ = next((i for i, ty_ in enumerate(types) if ty_.get("s") == "bool"), None)
                rl_, bl_ = w.new_local(rty_ if rty_ is not None else pty_), w.new_local(bty_)
                nb["stmts"].append({"k": "assign", "lhs": {"l": rl_, "p": []}, "rv": {"k": "ref", "bk": "shared", "place": {"l": pl_["l"], "p": []}}, "span": span})
                cur = emit(cur, ("call", act[1], True), {"l": bl_, "p": []}, bty_, {"move": {"l": rl_, "p": []}})
                adt_def, vi, _pi = _WRAP["Some"]
                yes, no = new_block(), new_block()
                w.blocks[yes]["stmts"].append({"k": "assign", "lhs": out_place, "rv": {"k": "agg", "ak": "adt", "def": adt_def, "variant": "Some", "vi": vi,
                                                                                      "fields": ["0"], "ops": [payload_op]}, "span": span})
                w.blocks[no]["stmts"].append({"k": "assign", "lhs": out_place, "rv": {"k": "agg", "ak": "adt", "def": _WRAP["None"][0], "variant": "None", "vi": _WRAP["None"][1],
                                                                                     "fields": [], "ops": []}, "span": span})
                w.blocks[cur]["term"] = {"k": "switch", "discr": {"move": {"l": bl_, "p": []}}, "targets": [["0", no]], "otherwise": yes, "span": span,
                                         "inl": "combinator:filter"}
                return yes
            kind, what = fns[act[1]]
            if kind == "ctor":
                adt_def, vname, vi, fname = what
                nb["stmts"].append({"k": "assign", "lhs": out_place, "rv": {"k": "agg", "ak": "adt", "def": adt_def, "variant": vname, "vi": vi,
                                                                          "fields": [fname], "ops": [payload_op]}, "span": span})
                return cur
            if kind == "fnitem":
                item_, fty_ = what
                cont = new_block()
                nb["term"] = {"k": "call", "func": {"const": {"ty": fty_, "fn": item_}}, "args": [payload_op] if act[2] else [],
                              "dest": out_place, "target": cont, "unwind": unwind, "span": span}
                return cont
            cont = new_block()
            base, pre = _inline_closure(w, what, t["args"][act[1]], [payload_op] if act[2] else [], out_place, cont, unwind, span, fn)
            nb["stmts"] += pre
            nb["term"] = _goto(base, span)
            nb["term"]["inl_call"] = {"fn": fn, "args": t["args"], "dest": dest, "callee": what.def_}
            return cont
        arms = {}
        dest_ty = w.locals[dest["l"]]["ty"]
        for (vn, val, pi) in vs:
            act = spec[vn]
            idx = new_block()
            arms[vn] = idx
            payload_op = None
            needs_payload = any(a_[0] in ("payload", "filter") or (a_[0] == "call" and a_[2]) for a_ in _actions(act))
            if pi is not None and needs_payload:
                pty = rty["args"][pi]
                pv = w.new_local(pty)
                w.blocks[idx]["stmts"].append({"k": "assign", "lhs": {"l": pv, "p": []}, "rv": {"k": "use", "op": {"move": {
                    "l": rpl["l"], "p": [{"downcast": int(val), "v": vn}, {"f": 0, "n": "0", "adt": rty["def"], "t": pty}]}}}, "span": span})
                payload_op = {"move": {"l": pv, "p": []}}
            emit(idx, act, dest, dest_ty, payload_op)
        first, second = vs[0], vs[1]
        if is_bool:
            w.blocks[bb]["term"] = {"k": "switch", "discr": {"copy": {"l": rpl["l"], "p": []}}, "targets": [["0", arms["false"]]],
                                    "otherwise": arms["true"], "span": span, "inl": "combinator:" + fn["name"]}
            changed = True
            continue
        w.blocks[bb]["stmts"] = w.blocks[bb]["stmts"] + [{"k": "assign", "lhs": {"l": disc, "p": []}, "rv": {
            "k": "discr", "place": {"l": rpl["l"], "p": []}, "ty": rty_i, "variants": [[vn, val] for (vn, val, _p) in vs]}, "span": span}]
        w.blocks[bb]["term"] = {"k": "switch", "discr": {"move": {"l": disc, "p": []}}, "targets": [[first[1], arms[first[0]]]],
                                "otherwise": arms[second[0]], "span": span, "inl": "combinator:" + fn["name"]}
        changed = True
    return changed


class _PseudoCall:
    def __init__(self, t, fn):
        self.t = t
        self.fn = fn
        self.args = t["args"]
        self.dest = t["dest"]

    def targets_def(self):
        out = [self.fn["def"]]
        if self.fn.get("resolved"):
            out.append(self.fn["resolved"])
        return out


def _expand_async(facts, w, stack, budget, policy="full"):
    """inline `helper(args).await` for local async fns whose future is awaited directly"""
    body = w.body
    # work on a temporary Body to reuse the await discovery
    tmp = _mk_body(body, w)
    g = graph(tmp)
    changed = False
    for a in g.awaits():
        if a.poll_bb is None or a.ready_bb is None or a.yield_bb is None:
            continue
        into_t = w.blocks[a.into_bb]["term"]
        if into_t["k"] != "call" or len(into_t["args"]) != 1:
            continue
        src = into_t["args"][0].get("move")
        if src is None or src["p"]:
            continue
        # the awaited value is the destination of a call of a local async fn in a directly preceding block
        ds = g.reaching(src["l"], (a.into_bb, len(g.stmts(a.into_bb))))
        # ... or an `async { .. }` block of this very function that is awaited in place (`let r = async { .. }.await`)
        hops = 0
        while len(ds) == 1 and ds[0][3] == "assign" and not ds[0][4] and ds[0][5]["k"] == "use" and hops < 4:
            s2 = ds[0][5]["op"].get("move")
            if s2 is None or s2["p"]:
                break
            ds = g.reaching(s2["l"], (ds[0][1], ds[0][2]))
            hops += 1
        if len(ds) == 1 and ds[0][3] == "assign" and not ds[0][4] and ds[0][5]["k"] == "agg" and ds[0][5].get("ak") == "coroutine":
            K = facts.bodies.get(ds[0][5].get("def"))
            if K is None or K.crate is not body.crate:
                continue
            ct = {"args": [], "dest": {"l": src["l"], "p": []}}
            fn = {"def": K.def_, "path": K.def_, "krate": body.crate.name, "local": True, "name": "{async block}", "args": []}
        else:
            if len(ds) != 1 or ds[0][3] != "call":
                continue
            ct = ds[0][5]
            f = ct["func"]
            fn = f["const"]["fn"] if "const" in f and "fn" in f["const"] else None
            if fn is None:
                continue
            pc = _PseudoCall(ct, fn)
            tg = [d for d in pc.targets_def() if facts.bodies.get(d) is not None]
            if not tg:
                continue
            hb = facts.bodies.get(tg[-1])
            if hb is None or hb.crate is not body.crate or not hb.j.get("is_async") or hb.def_ in stack:
                continue
            if policy == "shallow" and _shallow_keep(facts, hb):
                continue
            if isinstance(policy, tuple) and policy[0] == "keep" and hb.def_ in policy[1]:
                continue
            kids = [k for k in facts.children.get(hb.def_, []) if k.kind == "coroutine"]
            if len(kids) != 1:
                continue
            K = kids[0]
        if K.def_ in stack or K is body or len(K.blocks) > MAX_BLOCKS or len(w.blocks) + len(K.blocks) > budget:
            continue
        # the future must flow: call dest -> into_future -> awaitee local (pinned_local), nothing else
        if a.pinned_local is None:
            continue
        poll_t = w.blocks[a.poll_bb]["term"]
        sw_bb = poll_t["target"]
        if sw_bb is None:
            continue
        sw = g.switch(sw_bb)
        if sw is None or sw.kind != "enum" or "Ready" not in sw.variants:
            continue
        ready_target = sw.variants["Ready"]
        poll_local = a.poll_local
        span = into_t["span"]
        ytern = w.blocks[a.yield_bb]["term"]
        outer_drop = ytern.get("drop")
        unwind_to = poll_t["unwind"]
        # the coroutine environment is the awaitee local; the task context is a copy of the caller's
        ctx_local = w.new_local(K.locals[2]["ty"]) if len(K.locals) > 2 else None
        ret_local = w.new_local(K.locals[0]["ty"])
        poll_ty = tmp.locals[poll_local]["ty"]

        def on_return(nb, ret_local=ret_local, poll_local=poll_local, ready_target=ready_target, span=span, K=K):
            nb["stmts"] = nb["stmts"] + [{"k": "assign", "lhs": {"l": poll_local, "p": []},
                                          "rv": {"k": "agg", "ak": "adt", "def": "core::task::poll::Poll", "variant": "Ready", "vi": 0,
                                                 "fields": ["0"], "ops": [{"move": {"l": ret_local, "p": []}}]}, "span": span}]
            nb["term"] = _goto(ready_target, span)
            nb["term"]["inl_ret"] = {"fn": fn, "ret": ret_local, "async": True}

        def on_cdrop(nb, outer_drop=outer_drop, span=span):
            if isinstance(outer_drop, int):
                nb["term"] = _goto(outer_drop, span)
        fixed = {0: ret_local, 1: a.pinned_local}
        # the awaitee local is declared with the helper's opaque `impl Future` type; inside the inlined body it is the
        # coroutine itself: give it that type, so that what dropping it (its captured variables) can do is judged exactly
        if w.body.types[K.locals[1]["ty"]].get("k") in ("coroutine", "closure"):
            w.locals[a.pinned_local] = dict(w.locals[a.pinned_local], ty=K.locals[1]["ty"])
        if ctx_local is not None:
            fixed[2] = ctx_local
        base, lm = w.append_callee(K, fixed, unwind_to, on_return, on_coroutine_drop=on_cdrop)
        # the helper's `drop(_1)` at its return drops what is left of its environment: the captured variables (every local
        # of the body is gone by then) — marked, so that T-PAIR judges it by the captured types and not as "some future"
        for off in range(len(K.blocks)):
            t_ = w.blocks[base + off]["term"]
            if t_["k"] == "drop" and t_["place"]["l"] == a.pinned_local and not t_["place"]["p"] and K.blocks[off]["term"]["place"]["l"] == 1:
                t_["env_drop"] = K.def_
        # yields of the callee whose drop edge left the callee continue on the caller's drop path: done by on_cdrop
        # enter the callee instead of the poll loop: from the block that moved the future into the awaitee local
        # (the successor of into_future), i.e. redirect into_future's target block's goto
        entry_from = into_t["target"]
        if entry_from is None:
            continue
        blk = w.blocks[entry_from]
        pre = []
        if ctx_local is not None:
            pre.append({"k": "assign", "lhs": {"l": ctx_local, "p": []}, "rv": {"k": "use", "op": {"copy": {"l": 2, "p": []}}}, "span": span})
        if blk["term"]["k"] != "goto":
            continue
        blk["stmts"] = blk["stmts"] + pre
        blk["term"] = _goto(base, span)
        blk["term"]["inl_call"] = {"fn": fn, "args": ct["args"], "dest": ct["dest"], "callee": K.def_, "async": True}
        # into_future becomes a plain move (no await of the helper's future remains)
        w.blocks[a.into_bb]["stmts"] = w.blocks[a.into_bb]["stmts"] + [
            {"k": "assign", "lhs": into_t["dest"], "rv": {"k": "use", "op": into_t["args"][0]}, "span": span}]
        w.blocks[a.into_bb]["term"] = _goto(into_t["target"], span)
        changed = True
        break          # block indices of the other awaits are still valid, but re-discover to stay simple
    return changed


def _places(x, out):
    if _is_place(x):
        out.append(x)
        return
    if isinstance(x, dict):
        for k, v in x.items():
            if k not in ("inl_call", "inl_ret"):        # markers of the inliner: a record of the replaced call, not code
                _places(v, out)
    elif isinstance(x, list):
        for v in x:
            _places(v, out)


def _sroa(facts, w):
    """scalar replacement of local bookkeeping structs: a private struct that only ever lives in local variables
    (`let mut attempts = Attempts { retried: 0, limit }`) and is only touched field by field — directly or through the
    `&self` / `&mut self` of its inlined methods — is replaced by one local per field, so that `attempts.retried += 1`
    reads like `retried += 1` to every rule"""
    body = w.body
    types = body.types
    bk = _bookkeeping_adts(facts)
    cand = {}
    for l, loc in enumerate(w.locals):
        ty = types[loc["ty"]]
        if ty.get("k") == "adt" and ty.get("def") in bk and l > body.arg_count:
            adt = facts.adt(ty["def"])
            if adt is not None and len(adt.get("variants", [])) == 1 and adt["variants"][0]["fields"]:
                cand[l] = (ty["def"], adt["variants"][0]["fields"])
    # ... and the environments of closures whose call was inlined: `with_lock(|g| { *hits += 1 })` leaves a closure value that
    # is only read field by field (its captured references); splitting it lets the writes through those references be seen
    clo_fields = {}
    for blk in w.blocks:
        if blk.get("dead"):
            continue
        for s_ in blk["stmts"]:
            if s_["k"] == "assign" and not s_["lhs"]["p"] and s_["rv"]["k"] == "agg" and s_["rv"].get("ak") == "closure":
                fl_ = []
                for k_, o_ in enumerate(s_["rv"]["ops"]):
                    pl_ = o_.get("move") or o_.get("copy")
                    if pl_ is None or pl_["p"]:
                        fl_ = None
                        break
                    fl_.append({"ty": w.locals[pl_["l"]]["ty"], "name": str(k_)})
                if fl_:
                    clo_fields[s_["rv"]["def"]] = fl_
    inlined_closures = {blk["term"]["inl_call"]["callee"] for blk in w.blocks if not blk.get("dead") and blk["term"].get("inl_call")}
    for l, loc in enumerate(w.locals):
        ty = types[loc["ty"]]
        if ty.get("k") == "closure" and ty.get("def") in clo_fields and ty.get("def") in inlined_closures and l > body.arg_count:
            cand[l] = (ty["def"], clo_fields[ty["def"]])
    if not cand:
        return False
    defs = {}
    for blk in w.blocks:
        if blk.get("dead"):
            continue
        for s_ in blk["stmts"]:
            if s_["k"] == "assign" and not s_["lhs"]["p"]:
                defs.setdefault(s_["lhs"]["l"], []).append(s_)
        t = blk["term"]
        if t["k"] == "call" and not t["dest"]["p"]:
            defs.setdefault(t["dest"]["l"], []).append(None)
    # a closure handed through a generic helper travels in locals typed `F` / `impl FnOnce(..)`: they hold that closure
    grew = True
    while grew:
        grew = False
        for l_, ds_ in defs.items():
            if l_ in cand or len(ds_) != 1 or ds_[0] is None or l_ <= body.arg_count or types[w.locals[l_]["ty"]].get("k") != "param":
                continue
            rv_ = ds_[0]["rv"]
            if rv_["k"] == "use":
                pl_ = rv_["op"].get("move")
                if pl_ is not None and not pl_["p"] and pl_["l"] in cand and types[w.locals[pl_["l"]]["ty"]].get("k") in ("closure", "param"):
                    cand[l_] = cand[pl_["l"]]
                    grew = True
    # aliases: R = &X | &mut X | &(*R') | move R' | copy R'   (each with exactly one definition); alias_of[R] = X
    alias_of = {}
    grew = True
    while grew:
        grew = False
        for r, ds in defs.items():
            if r in alias_of or r in cand or len(ds) != 1 or ds[0] is None:
                continue
            rv = ds[0]["rv"]
            src = None
            if rv["k"] in ("ref", "rawptr"):
                pl = rv["place"]
                if pl["l"] in cand and not pl["p"]:
                    src = pl["l"]
                elif pl["l"] in alias_of and pl["p"] == ["*"]:
                    src = alias_of[pl["l"]]
            elif rv["k"] == "use":
                pl = rv["op"].get("move") or rv["op"].get("copy")
                if pl is not None and not pl["p"] and pl["l"] in alias_of:
                    src = alias_of[pl["l"]]
            if src is not None:
                alias_of[r] = src
                grew = True
    bad = set()
    noop_drops = []
    links = []          # (X, Y) for X = move Y between candidates

    def judge(pl):
        if pl["l"] in cand and not (pl["p"] and isinstance(pl["p"][0], dict) and "f" in pl["p"][0]):
            bad.add(pl["l"])
        if pl["l"] in alias_of and not (len(pl["p"]) >= 2 and pl["p"][0] == "*" and isinstance(pl["p"][1], dict) and "f" in pl["p"][1]):
            bad.add(alias_of[pl["l"]])
    for blk in w.blocks:
        if blk.get("dead"):
            continue
        for s_ in blk["stmts"]:
            if s_["k"] in ("live", "dead"):
                continue
            pls = []
            if s_["k"] == "assign":
                lhs, rv = s_["lhs"], s_["rv"]
                if lhs["l"] in cand and not lhs["p"]:
                    adt_def, fields = cand[lhs["l"]]
                    if rv["k"] == "agg" and rv.get("ak") in ("adt", "closure") and rv.get("def") == adt_def and len(rv["ops"]) == len(fields):
                        _places(rv, pls)
                    elif rv["k"] == "use" and (rv["op"].get("move") or rv["op"].get("copy") or {}).get("l") in cand and \
                            not (rv["op"].get("move") or rv["op"].get("copy"))["p"] and cand[(rv["op"].get("move") or rv["op"].get("copy"))["l"]][0] == adt_def:
                        links.append((lhs["l"], (rv["op"].get("move") or rv["op"].get("copy"))["l"]))
                    else:
                        bad.add(lhs["l"])
                        _places(rv, pls)
                elif lhs["l"] in alias_of and not lhs["p"]:
                    continue
                else:
                    _places(s_, pls)
            else:
                _places(s_, pls)
            for pl in pls:
                judge(pl)
        pls = []
        t_ = blk["term"]
        if t_["k"] == "drop" and not t_["place"]["p"] and t_["place"]["l"] in cand and \
                all(types[f_["ty"]].get("k") in ("ref", "prim") for f_ in cand[t_["place"]["l"]][1]):
            noop_drops.append(blk)          # dropping an environment of references and numbers does nothing
        else:
            _places(t_, pls)
        for pl in pls:
            judge(pl)
    for x in list(cand):
        if x not in defs:
            bad.add(x)
    grew = True
    while grew:
        grew = False
        for (x, y) in links:
            if (x in bad) != (y in bad):
                bad |= {x, y}
                grew = True
    good = [x for x in cand if x not in bad]
    if not good:
        return False
    fl = {}
    for L in good:
        name = w.locals[L].get("name")
        fl[L] = []
        for f in cand[L][1]:
            nl = w.new_local(f["ty"], name=("%s.%s" % (name, f["name"])) if name else None)
            if w.locals[L].get("user"):
                w.locals[nl]["user"] = True
            fl[L].append(nl)

    def fix(pl):
        if pl["l"] in fl and pl["p"] and isinstance(pl["p"][0], dict) and "f" in pl["p"][0]:
            k = pl["p"][0]["f"]
            pl["l"], pl["p"] = fl[pl["l"]][k], pl["p"][1:]
        elif pl["l"] in alias_of and alias_of[pl["l"]] in fl and len(pl["p"]) >= 2 and pl["p"][0] == "*":
            k = pl["p"][1]["f"]
            pl["l"], pl["p"] = fl[alias_of[pl["l"]]][k], pl["p"][2:]
    for blk in noop_drops:
        if blk["term"]["place"]["l"] in fl:
            blk["term"] = _goto(blk["term"]["target"], blk["term"]["span"])
    for blk in w.blocks:
        if blk.get("dead"):
            continue
        new_stmts = []
        for s_ in blk["stmts"]:
            if s_["k"] in ("live", "dead") and (s_.get("l") in fl or alias_of.get(s_.get("l")) in fl):
                continue
            if s_["k"] == "assign" and not s_["lhs"]["p"] and alias_of.get(s_["lhs"]["l"]) in fl:
                continue
            if s_["k"] == "assign" and s_["lhs"]["l"] in fl and not s_["lhs"]["p"]:
                L = s_["lhs"]["l"]
                if s_["rv"]["k"] == "agg":
                    for k, o in enumerate(s_["rv"]["ops"]):
                        pls = []
                        _places(o, pls)
                        for pl in pls:
                            fix(pl)
                        new_stmts.append({"k": "assign", "lhs": {"l": fl[L][k], "p": []}, "rv": {"k": "use", "op": o}, "span": s_["span"]})
                else:
                    kind = "move" if "move" in s_["rv"]["op"] else "copy"
                    Y = s_["rv"]["op"][kind]["l"]
                    for k in range(len(fl[L])):
                        new_stmts.append({"k": "assign", "lhs": {"l": fl[L][k], "p": []}, "rv": {"k": "use", "op": {kind: {"l": fl[Y][k], "p": []}}}, "span": s_["span"]})
                continue
            pls = []
            _places(s_, pls)
            for pl in pls:
                fix(pl)
            new_stmts.append(s_)
        blk["stmts"] = new_stmts
        pls = []
        _places(blk["term"], pls)
        for pl in pls:
            fix(pl)
    return True


def _deref_promote(w):
    """a local that only ever holds `&x` / `&mut x` of one other local (a reference captured by an inlined closure, passed on
    by moves) and is only used through `*`: its dereferences are accesses of x itself"""
    defs = {}
    for blk in w.blocks:
        if blk.get("dead"):
            continue
        for s_ in blk["stmts"]:
            if s_["k"] == "assign" and not s_["lhs"]["p"]:
                defs.setdefault(s_["lhs"]["l"], []).append(s_)
        t = blk["term"]
        if t["k"] == "call" and not t["dest"]["p"]:
            defs.setdefault(t["dest"]["l"], []).append(None)
    root = {}
    grew = True
    while grew:
        grew = False
        for r, ds in defs.items():
            if r in root or len(ds) != 1 or ds[0] is None or r <= w.body.arg_count:
                continue
            rv = ds[0]["rv"]
            if rv["k"] == "ref" and not rv["place"]["p"] and w.body.types[w.locals[r]["ty"]].get("k") == "ref":
                root[r] = (rv["place"]["l"], [])
                grew = True
            elif rv["k"] == "use":
                pl = rv["op"].get("move") or rv["op"].get("copy")
                if pl is not None and not pl["p"] and pl["l"] in root:
                    root[r] = root[pl["l"]]
                    grew = True
    if not root:
        return False
    bad = set()
    for blk in w.blocks:
        if blk.get("dead"):
            continue
        for s_ in blk["stmts"]:
            if s_["k"] in ("live", "dead"):
                continue
            pls = []
            if s_["k"] == "assign" and not s_["lhs"]["p"] and s_["lhs"]["l"] in root:
                continue                      # the definition itself
            _places(s_, pls)
            for pl in pls:
                if pl["l"] in root and not (pl["p"] and pl["p"][0] == "*"):
                    bad.add(pl["l"])
        pls = []
        _places(blk["term"], pls)
        for pl in pls:
            if pl["l"] in root and not (pl["p"] and pl["p"][0] == "*"):
                bad.add(pl["l"])
    # a reference that is passed on whole anywhere (other than into another promoted reference) stays
    grew = True
    while grew:
        grew = False
        for r, ds in defs.items():
            if r in root and r not in bad and ds[0]["rv"]["k"] == "use":
                src = (ds[0]["rv"]["op"].get("move") or ds[0]["rv"]["op"].get("copy"))["l"]
                if src in bad:
                    bad.add(r)
                    grew = True
    # ... and a source whose copy stays must stay too: its whole-local use in that definition was not judged above
    for r, ds in defs.items():
        if r in root and r in bad and ds[0]["rv"]["k"] == "use":
            src = (ds[0]["rv"]["op"].get("move") or ds[0]["rv"]["op"].get("copy"))["l"]
            bad.add(src)
    good = {r for r in root if r not in bad}
    # a promoted reference must not feed a kept one
    for r, ds in defs.items():
        if r in root and r not in good and ds[0]["rv"]["k"] == "use":
            good.discard((ds[0]["rv"]["op"].get("move") or ds[0]["rv"]["op"].get("copy"))["l"])
    if not good:
        return False
    for blk in w.blocks:
        if blk.get("dead"):
            continue
        new_stmts = []
        for s_ in blk["stmts"]:
            if s_["k"] in ("live", "dead") and s_.get("l") in good:
                continue
            if s_["k"] == "assign" and not s_["lhs"]["p"] and s_["lhs"]["l"] in good:
                continue
            pls = []
            _places(s_, pls)
            for pl in pls:
                if pl["l"] in good:
                    pl["l"], pl["p"] = root[pl["l"]][0], pl["p"][1:]
            new_stmts.append(s_)
        blk["stmts"] = new_stmts
        pls = []
        _places(blk["term"], pls)
        for pl in pls:
            if pl["l"] in good:
                pl["l"], pl["p"] = root[pl["l"]][0], pl["p"][1:]
    return True


def _alias_promote(w):
    """a compiler temporary that only ever holds a reference taken *out of a place* of an inlined callee's argument list
    (`helper(this.attempt)` with `this.attempt: &mut u32`, `helper(&mut *self.count)`) and is only used through `*`:
    its dereferences are accesses of `*place`, provided nothing on the way can change what `place` holds (its base local
    is defined once and no prefix of the place is assigned).  After the helper is inlined, `*a += 1` then reads
    `*this.attempt += 1`, which is what every rule looks for."""
    body = w.body
    types = body.types
    defs, writes = {}, []
    for blk in w.blocks:
        if blk.get("dead"):
            continue
        for s_ in blk["stmts"]:
            if s_["k"] == "assign":
                if not s_["lhs"]["p"]:
                    defs.setdefault(s_["lhs"]["l"], []).append(s_)
                else:
                    writes.append(s_["lhs"])
        t = blk["term"]
        if t["k"] == "call":
            if not t["dest"]["p"]:
                defs.setdefault(t["dest"]["l"], []).append(None)
            else:
                writes.append(t["dest"])

    def stable(l, path):
        if any(not isinstance(e, (dict, str)) or (isinstance(e, dict) and "index" in e) for e in path):
            return False
        if l > body.arg_count and len(defs.get(l, [])) != 1:
            return False
        if l <= body.arg_count and defs.get(l):
            return False
        for wpl in writes:
            if wpl["l"] == l and len(wpl["p"]) <= len(path) and wpl["p"] == path[:len(wpl["p"])]:
                return False
        return True
    root, via = {}, {}
    grew = True
    while grew:
        grew = False
        for r, ds in defs.items():
            if r in root or len(ds) != 1 or ds[0] is None or r <= body.arg_count:
                continue
            if types[w.locals[r]["ty"]].get("k") != "ref":
                continue
            rv = ds[0]["rv"]
            if rv["k"] == "use":
                pl = rv["op"].get("move") or rv["op"].get("copy")
                if pl is None or pl["l"] == r:
                    continue
                if pl["p"] and pl["l"] not in root and stable(pl["l"], pl["p"]):
                    root[r] = (pl["l"], list(pl["p"]) + ["*"])
                    grew = True
                elif not pl["p"] and pl["l"] in root:
                    root[r] = root[pl["l"]]          # the reference handed on whole (argument of the inlined helper)
                    via[r] = pl["l"]
                    grew = True
            elif rv["k"] == "ref" and len(rv["place"]["p"]) >= 2 and rv["place"]["p"][-1] == "*" and rv["place"]["l"] != r \
                    and rv["place"]["l"] not in root and stable(rv["place"]["l"], rv["place"]["p"][:-1]):
                root[r] = (rv["place"]["l"], list(rv["place"]["p"]))
                grew = True
    # the source place must not itself be rooted in a promoted local
    root = {r: v for r, v in root.items() if v[0] not in root}
    via = {r: s_ for r, s_ in via.items() if r in root and s_ in root}
    if not root:
        return False
    bad = set()
    for blk in w.blocks:
        if blk.get("dead"):
            continue
        for s_ in blk["stmts"]:
            if s_["k"] in ("live", "dead"):
                continue
            if s_["k"] == "assign" and not s_["lhs"]["p"] and s_["lhs"]["l"] in root:
                continue
            pls = []
            _places(s_, pls)
            for pl in pls:
                if pl["l"] in root and not (pl["p"] and pl["p"][0] == "*"):
                    bad.add(pl["l"])
        pls = []
        _places(blk["term"], pls)
        for pl in pls:
            if pl["l"] in root and not (pl["p"] and pl["p"][0] == "*"):
                bad.add(pl["l"])
    # a reference that stays keeps the one it was copied from, and a promoted one must not feed a kept one
    grew = True
    while grew:
        grew = False
        for r, src in via.items():
            if (r in bad) != (src in bad):
                bad |= {r, src}
                grew = True
    good = {r for r in root if r not in bad and (r not in via or via[r] in root)}
    if not good:
        return False
    import copy as _copy
    for blk in w.blocks:
        if blk.get("dead"):
            continue
        new_stmts = []
        for s_ in blk["stmts"]:
            if s_["k"] in ("live", "dead") and s_.get("l") in good:
                continue
            if s_["k"] == "assign" and not s_["lhs"]["p"] and s_["lhs"]["l"] in good:
                continue
            pls = []
            _places(s_, pls)
            for pl in pls:
                if pl["l"] in good:
                    rl, rp = root[pl["l"]]
                    pl["l"], pl["p"] = rl, _copy.deepcopy(rp) + pl["p"][1:]
            new_stmts.append(s_)
        blk["stmts"] = new_stmts
        pls = []
        _places(blk["term"], pls)
        for pl in pls:
            if pl["l"] in good:
                rl, rp = root[pl["l"]]
                pl["l"], pl["p"] = rl, _copy.deepcopy(rp) + pl["p"][1:]
    return True


def _neutralise_dead(w):
    n = len(w.blocks)
    seen = set([0])
    st = [0]
    while st:
        x = st.pop()
        t = w.blocks[x]["term"]
        nxt = []
        for f in _BB_FIELDS:
            if f != "imaginary" and isinstance(t.get(f), int):      # imaginary edges are never taken
                nxt.append(t[f])
        if isinstance(t.get("unwind"), int):
            nxt.append(t["unwind"])
        for v, b in t.get("targets", []):
            nxt.append(b)
        for y in nxt:
            if 0 <= y < n and y not in seen:
                seen.add(y)
                st.append(y)
    for i in range(n):
        if i not in seen:
            sp = w.blocks[i]["term"]["span"]
            w.blocks[i] = {"stmts": [], "term": {"k": "unreachable", "span": sp}, "cleanup": w.blocks[i].get("cleanup", False), "dead": True}


def _mk_body(orig, w):
    j = dict(orig.j)
    j["blocks"] = w.blocks
    j["locals"] = w.locals
    j["debug"] = w.debug
    b = Body(j, orig.crate, orig.facts)
    return b


class InlinedFacts:
    """same interface as Facts; bodies are inlined views (built lazily)"""

    def __init__(self, facts, policy="full"):
        self.policy = policy
        self.orig = facts
        self.config = facts.config
        self.crates = {k: _CrateView(c, self) for k, c in facts.crates.items()}
        self.children = _ChildrenView(self)
        self._bodies = {}
        self.bodies = _LazyBodies(self)
        self.inl = self

    def adt(self, d):
        return self.orig.adt(d)

    def crate(self, name):
        return self.crates[name]

    def body(self, def_):
        return self.bodies.get(def_)

    def all_bodies(self):
        for b in self.orig.all_bodies():
            yield self.view(b)

    def absorbed(self, body):
        """the body is a helper (or the coroutine of an async helper) every call site of which was inlined into its
        callers: its obligations are discharged where it is used, analysing it stand-alone would only lose context"""
        if getattr(self, "_absorbed", None) is None:
            inl_sites, call_sites = {}, {}
            for b in self.orig.all_bodies():
                v = self.view(b)
                for blk in v.blocks:
                    t = blk["term"]
                    m = t.get("inl_call")
                    if m:
                        inl_sites[m["callee"]] = inl_sites.get(m["callee"], 0) + 1
                    if t["k"] == "call":
                        f = t["func"]
                        fn = f["const"]["fn"] if "const" in f and "fn" in f["const"] else None
                        if fn:
                            for d in (fn.get("def"), fn.get("resolved")):
                                if d:
                                    call_sites[d] = call_sites.get(d, 0) + 1
            ab = set()
            for d, n in inl_sites.items():
                ob = self.orig.bodies.get(d)
                if ob is None:
                    continue
                pb_ = self.orig.bodies.get(ob.parent) if ob.kind == "coroutine" and ob.parent else None
                helper_fut = pb_ is not None and pb_.kind == "fn" and pb_.j.get("is_async")      # the coroutine of an `async fn`
                target = ob.parent if helper_fut else d          # (an `async { }` block awaited in place has no caller of its own)
                if call_sites.get(target, 0) == 0:
                    ab.add(d)
                    if helper_fut:
                        ab.add(ob.parent)
            self._absorbed = ab
        return body.def_ in self._absorbed

    def view(self, b):
        k = id(b)
        v = self._bodies.get(k)
        if v is None:
            v0 = _inline_body(self.orig, b, self.policy)
            # always a fresh Body object living in the inlined world (its crate is the crate view, its facts are these)
            v = Body(v0.j, self.crates[b.crate.name], self)
            v.inlined_from = None
            self._bodies[k] = v
        return v


class _CrateView:
    """a crate of the inlined facts: same tables, bodies are inlined views"""

    def __init__(self, crate, inf):
        self._c = crate
        self._inf = inf
        self.j = crate.j
        self.name = crate.name
        self.config = crate.config
        self.types = crate.types
        self.adts = crate.adts
        self.impls = crate.impls

    @property
    def bodies(self):
        return [self._inf.view(b) for b in self._c.bodies]


class _ChildrenView:
    def __init__(self, inf):
        self.inf = inf

    def get(self, k, default=None):
        v = self.inf.orig.children.get(k)
        if v is None:
            return default if default is not None else []
        return [self.inf.view(b) for b in v]

    def __getitem__(self, k):
        return [self.inf.view(b) for b in self.inf.orig.children[k]]

    def __contains__(self, k):
        return k in self.inf.orig.children

    def setdefault(self, k, d):
        return self.get(k, d)


class _LazyBodies:
    def __init__(self, inf):
        self.inf = inf

    def get(self, k, default=None):
        b = self.inf.orig.bodies.get(k)
        return self.inf.view(b) if b is not None else default

    def __getitem__(self, k):
        return self.inf.view(self.inf.orig.bodies[k])

    def __contains__(self, k):
        return k in self.inf.orig.bodies

    def items(self):
        for k, b in self.inf.orig.bodies.items():
            yield k, self.inf.view(b)

    def values(self):
        for b in self.inf.orig.bodies.values():
            yield self.inf.view(b)

    def keys(self):
        return self.inf.orig.bodies.keys()


def _inline_body(facts, body, policy="full"):
    w = _Work(body)
    stack = {body.def_}
    if body.parent:
        stack.add(body.parent)
    any_change = False
    for depth in range(MAX_DEPTH):
        ch = False
        # async first (uses the await structure, which sync inlining keeps intact), repeat until none
        for _ in range(12):
            if not _expand_async(facts, w, stack, MAX_TOTAL, policy):
                break
            ch = True
        if _expand_sync(facts, w, stack, depth, MAX_TOTAL, policy):
            ch = True
        if _expand_closure_calls(facts, w, stack, MAX_TOTAL):
            ch = True
        if _expand_fnitem_calls(facts, w):
            ch = True
        if _expand_combinators(facts, w, stack, MAX_TOTAL):
            ch = True
        if not ch:
            break
        any_change = True
    if not any_change:
        return body
    _neutralise_dead(w)
    if _sroa(facts, w):
        _deref_promote(w)
    _alias_promote(w)
    return _mk_body(body, w)


def inlined(facts, policy="full"):
    attr = "_inl_" + (policy if isinstance(policy, str) else "keep_%x" % (hash(policy) & 0xffffffff))
    inf = getattr(facts, attr, None)
    if inf is None:
        inf = InlinedFacts(facts, policy)
        setattr(facts, attr, inf)
    return inf


def view_of(facts, policy):
    """(facts, tracer) of another view of the same program: policy in 'orig' | 'full' | 'shallow'; callable with
    any of the three facts objects"""
    from .core import Tracer
    orig = getattr(facts, "orig", facts)
    if isinstance(policy, (set, frozenset, list)):
        policy = ("keep", frozenset(policy))
    if policy == "orig":
        f = orig
    else:
        f = inlined(orig, policy)
    tr = getattr(f, "_tracer", None)
    if tr is None:
        tr = Tracer(f)
        f._tracer = tr
    return f, tr
