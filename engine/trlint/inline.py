"""Inlined view of the facts: private helper extraction must not matter to path rules.

`inlined(facts)` returns a second Facts-like object in which, inside every body,

  * a call of a workspace function of the same crate whose body is available (sync helper, method, constructor) is
    replaced by the callee's blocks (parameters assigned from the arguments, `return` continuing at the call's
    target with the destination assigned, unwinding out of the callee continuing at the call's unwind target);
  * `helper(args).await` on a local `async fn` is replaced by the helper's coroutine body: its yields become yields
    of the caller (dropping the caller at such a yield continues on the drop path of the original await), its
    `return` produces `Poll::Ready(value)` into the original poll result and continues on the Ready arm.

Function boundaries stay available in the *original* facts, which every rule still receives: discovery by role
(which function is the admission test, which functions are the window states, ...) is done there, path questions
(dominance, pairing, await inventory, site counting) are asked of the inlined body with the same def path.
Inlining is bounded (depth 3, callee size, no recursion) and only ever adds paths that exist in the program.
"""
import copy
from .facts import Body
from .core import graph, Call

MAX_DEPTH = 3
MAX_BLOCKS = 700
MAX_TOTAL = 4500


def _is_place(x):
    return isinstance(x, dict) and "l" in x and "p" in x and isinstance(x["l"], int) and isinstance(x["p"], list)


def _remap(x, lmap, bmap_fields=None):
    """deep copy of a JSON fragment with locals remapped through lmap (function int->int)"""
    if _is_place(x):
        out = {"l": lmap(x["l"]), "p": []}
        for e in x["p"]:
            if isinstance(e, dict) and "index" in e:
                e2 = dict(e)
                e2["index"] = lmap(e["index"])
                out["p"].append(e2)
            else:
                out["p"].append(e)
        for k, v in x.items():
            if k not in ("l", "p"):
                out[k] = v
        return out
    if isinstance(x, dict):
        return {k: _remap(v, lmap) for k, v in x.items()}
    if isinstance(x, list):
        return [_remap(v, lmap) for v in x]
    return x


_BB_FIELDS = ("target", "otherwise", "resume", "drop", "imaginary")


def _remap_term_blocks(t, bmap, unwind_to):
    """block indices of a (deep-copied) callee terminator -> caller indices; `unwind: continue` -> unwind_to"""
    for f in _BB_FIELDS:
        if isinstance(t.get(f), int):
            t[f] = bmap(t[f])
    if "targets" in t:
        t["targets"] = [[v, bmap(b)] for v, b in t["targets"]]
    if "unwind" in t:
        u = t["unwind"]
        if isinstance(u, int):
            t["unwind"] = bmap(u)
        elif u == "continue":
            t["unwind"] = unwind_to
    return t


def _goto(target, span):
    return {"k": "goto", "target": target, "span": span}


class _Work:
    """mutable copy of one body being expanded"""

    def __init__(self, body):
        self.body = body
        self.blocks = copy.deepcopy(body.blocks)
        self.locals = list(body.locals)
        self.debug = list(body.debug)
        self.changed = False

    def new_local(self, ty, name=None):
        d = {"ty": ty}
        if name:
            d["name"] = name
        self.locals.append(d)
        return len(self.locals) - 1

    def append_callee(self, cb, lmap_fixed, unwind_to, on_return, on_resume_exit=None, on_coroutine_drop=None):
        """append deep copies of callee body cb's blocks; returns index of its entry block.
        lmap_fixed: callee local -> caller local for pre-bound locals (others get fresh locals)
        on_return(block_dict): rewrites a copied block whose terminator is `return`
        """
        base = len(self.blocks)
        lm = dict(lmap_fixed)
        for i, l in enumerate(cb.locals):
            if i not in lm:
                self.locals.append(dict(l))          # keep every attribute of the local (name, user-declared, ...)
                lm[i] = len(self.locals) - 1

        def lmap(i):
            return lm[i]

        def bmap(i):
            return base + i
        for blk in cb.blocks:
            nb = _remap(blk, lmap)
            nb.setdefault("from", cb.def_)        # the body this block was written in (innermost helper)
            t = nb["term"]
            k = t["k"]
            _remap_term_blocks(t, bmap, unwind_to)
            self.blocks.append(nb)
        for off, blk in enumerate(cb.blocks):
            nb = self.blocks[base + off]
            k = nb["term"]["k"]
            if k == "return":
                on_return(nb)
            elif k == "resume":
                # unwinding out of the callee
                if isinstance(unwind_to, int):
                    nb["term"] = _goto(unwind_to, nb["term"]["span"])
                elif unwind_to == "terminate":
                    nb["term"] = {"k": "terminate", "span": nb["term"]["span"]}
            elif k == "coroutine_drop" and on_coroutine_drop is not None:
                on_coroutine_drop(nb)
        for d in cb.debug:
            self.debug.append(_remap(d, lmap))
        return base, lm


def _service_like_adts(facts):
    """ADTs that are services, layers or hand-written futures: their inherent methods are glue, not state machines"""
    cache = getattr(facts, "_svc_adts", None)
    if cache is None:
        cache = set()
        for c in facts.crates.values():
            for im in c.impls:
                if im.get("trait") in ("tower_service::Service", "tower_layer::Layer", "core::future::future::Future", "core::ops::drop::Drop"):
                    d = c.types[im["self_ty"]].get("def")
                    if d:
                        cache.add(d)
        facts._svc_adts = cache
    return cache


def _shallow_keep(facts, cb):
    """shallow policy: methods of state structs (anything that is not a service / layer / future type) and trait
    impl methods stay calls - they are the functions rules know by role; free functions and glue methods are inlined"""
    if cb.impl is None:
        return False
    if cb.impl.get("trait"):
        return True
    if cb.arg_count < 1 or cb.locals[1].get("name") != "self":
        return False          # an associated function without a receiver is a plain helper
    d = cb.types[cb.impl["self_ty"]].get("def")
    return d not in _service_like_adts(facts)


def _callee_of(facts, body, c, stack, policy="full"):
    """the unique local body a call resolves to, when it may be inlined"""
    tg = [d for d in c.targets_def() if facts.bodies.get(d) is not None]
    if not tg:
        return None
    cb = facts.bodies.get(tg[-1])        # the resolved impl method when there is one
    if cb is None or cb.crate is not body.crate or cb.kind != "fn" or cb.def_ in stack or cb is body:
        return None
    if len(cb.blocks) > MAX_BLOCKS:
        return None
    # derive-generated impls (Clone, Default, PartialEq, ...) stay calls: they are library-like, and keeping them
    # opaque keeps `x.clone()` recognisable as a clone
    if cb.impl and cb.impl.get("trait") and any(((blk["term"].get("span") or {}).get("exp") or "").startswith("macro:") for blk in cb.blocks[:1]):
        if cb.impl["trait"].split("::")[-1] in ("Clone", "Default", "PartialEq", "Eq", "Debug", "Hash", "PartialOrd", "Ord", "Copy"):
            return None
    if c.dest["p"]:
        return None
    if len(c.args) != cb.arg_count:
        return None
    if policy == "shallow" and _shallow_keep(facts, cb):
        return None
    if isinstance(policy, tuple) and policy[0] == "keep" and cb.def_ in policy[1]:
        return None          # role functions named by the rule stay calls, every other helper is inlined
    return cb


def _expand_sync(facts, w, stack, depth, budget, policy="full"):
    """one pass: inline every eligible sync call in w; returns True if anything changed"""
    body = w.body
    changed = False
    nblocks = len(w.blocks)
    for bb in range(nblocks):
        t = w.blocks[bb]["term"]
        if t["k"] != "call" or t.get("inl"):
            continue
        f = t["func"]
        fn = f["const"]["fn"] if "const" in f and "fn" in f["const"] else None
        if fn is None:
            continue
        c = _PseudoCall(t, fn)
        cb = _callee_of(facts, body, c, stack, policy)
        if cb is None:
            continue
        if len(w.blocks) + len(cb.blocks) > budget:
            continue
        span = t["span"]
        ret_local = w.new_local(cb.locals[0]["ty"])
        target, unwind = t["target"], t["unwind"]
        dest = t["dest"]

        def on_return(nb, ret_local=ret_local, target=target, dest=dest, span=span):
            if target is None:
                nb["term"] = {"k": "unreachable", "span": span}
                return
            nb["stmts"] = nb["stmts"] + [{"k": "assign", "lhs": dest, "rv": {"k": "use", "op": {"move": {"l": ret_local, "p": []}}}, "span": span}]
            nb["term"] = _goto(target, span)
            nb["term"]["inl_ret"] = {"fn": fn, "ret": ret_local}
        fixed = {0: ret_local}
        base, lm = w.append_callee(cb, fixed, unwind, on_return)
        # parameters := arguments, in the call block
        pre = []
        for i, a in enumerate(t["args"]):
            pre.append({"k": "assign", "lhs": {"l": lm[i + 1], "p": []}, "rv": {"k": "use", "op": a}, "span": span})
        w.blocks[bb]["stmts"] = w.blocks[bb]["stmts"] + pre
        w.blocks[bb]["term"] = _goto(base, span)
        w.blocks[bb]["term"]["inl_call"] = {"fn": fn, "args": t["args"], "dest": dest, "callee": cb.def_}
        changed = True
    return changed


class _PseudoCall:
    def __init__(self, t, fn):
        self.t = t
        self.fn = fn
        self.args = t["args"]
        self.dest = t["dest"]

    def targets_def(self):
        out = [self.fn["def"]]
        if self.fn.get("resolved"):
            out.append(self.fn["resolved"])
        return out


def _expand_async(facts, w, stack, budget, policy="full"):
    """inline `helper(args).await` for local async fns whose future is awaited directly"""
    body = w.body
    # work on a temporary Body to reuse the await discovery
    tmp = _mk_body(body, w)
    g = graph(tmp)
    changed = False
    for a in g.awaits():
        if a.poll_bb is None or a.ready_bb is None or a.yield_bb is None:
            continue
        into_t = w.blocks[a.into_bb]["term"]
        if into_t["k"] != "call" or len(into_t["args"]) != 1:
            continue
        src = into_t["args"][0].get("move")
        if src is None or src["p"]:
            continue
        # the awaited value is the destination of a call of a local async fn in a directly preceding block
        ds = g.reaching(src["l"], (a.into_bb, len(g.stmts(a.into_bb))))
        if len(ds) != 1 or ds[0][3] != "call":
            continue
        ct = ds[0][5]
        f = ct["func"]
        fn = f["const"]["fn"] if "const" in f and "fn" in f["const"] else None
        if fn is None:
            continue
        pc = _PseudoCall(ct, fn)
        tg = [d for d in pc.targets_def() if facts.bodies.get(d) is not None]
        if not tg:
            continue
        hb = facts.bodies.get(tg[-1])
        if hb is None or hb.crate is not body.crate or not hb.j.get("is_async") or hb.def_ in stack:
            continue
        if policy == "shallow" and _shallow_keep(facts, hb):
            continue
        if isinstance(policy, tuple) and policy[0] == "keep" and hb.def_ in policy[1]:
            continue
        kids = [k for k in facts.children.get(hb.def_, []) if k.kind == "coroutine"]
        if len(kids) != 1:
            continue
        K = kids[0]
        if K.def_ in stack or K is body or len(K.blocks) > MAX_BLOCKS or len(w.blocks) + len(K.blocks) > budget:
            continue
        # the future must flow: call dest -> into_future -> awaitee local (pinned_local), nothing else
        if a.pinned_local is None:
            continue
        poll_t = w.blocks[a.poll_bb]["term"]
        sw_bb = poll_t["target"]
        if sw_bb is None:
            continue
        sw = g.switch(sw_bb)
        if sw is None or sw.kind != "enum" or "Ready" not in sw.variants:
            continue
        ready_target = sw.variants["Ready"]
        poll_local = a.poll_local
        span = into_t["span"]
        ytern = w.blocks[a.yield_bb]["term"]
        outer_drop = ytern.get("drop")
        unwind_to = poll_t["unwind"]
        # the coroutine environment is the awaitee local; the task context is a copy of the caller's
        ctx_local = w.new_local(K.locals[2]["ty"]) if len(K.locals) > 2 else None
        ret_local = w.new_local(K.locals[0]["ty"])
        poll_ty = tmp.locals[poll_local]["ty"]

        def on_return(nb, ret_local=ret_local, poll_local=poll_local, ready_target=ready_target, span=span, K=K):
            nb["stmts"] = nb["stmts"] + [{"k": "assign", "lhs": {"l": poll_local, "p": []},
                                          "rv": {"k": "agg", "ak": "adt", "def": "core::task::poll::Poll", "variant": "Ready", "vi": 0,
                                                 "fields": ["0"], "ops": [{"move": {"l": ret_local, "p": []}}]}, "span": span}]
            nb["term"] = _goto(ready_target, span)
            nb["term"]["inl_ret"] = {"fn": fn, "ret": ret_local, "async": True}

        def on_cdrop(nb, outer_drop=outer_drop, span=span):
            if isinstance(outer_drop, int):
                nb["term"] = _goto(outer_drop, span)
        fixed = {0: ret_local, 1: a.pinned_local}
        if ctx_local is not None:
            fixed[2] = ctx_local
        base, lm = w.append_callee(K, fixed, unwind_to, on_return, on_coroutine_drop=on_cdrop)
        # yields of the callee whose drop edge left the callee continue on the caller's drop path: done by on_cdrop
        # enter the callee instead of the poll loop: from the block that moved the future into the awaitee local
        # (the successor of into_future), i.e. redirect into_future's target block's goto
        entry_from = into_t["target"]
        if entry_from is None:
            continue
        blk = w.blocks[entry_from]
        pre = []
        if ctx_local is not None:
            pre.append({"k": "assign", "lhs": {"l": ctx_local, "p": []}, "rv": {"k": "use", "op": {"copy": {"l": 2, "p": []}}}, "span": span})
        if blk["term"]["k"] != "goto":
            continue
        blk["stmts"] = blk["stmts"] + pre
        blk["term"] = _goto(base, span)
        blk["term"]["inl_call"] = {"fn": fn, "args": ct["args"], "dest": ct["dest"], "callee": K.def_, "async": True}
        # into_future becomes a plain move (no await of the helper's future remains)
        w.blocks[a.into_bb]["stmts"] = w.blocks[a.into_bb]["stmts"] + [
            {"k": "assign", "lhs": into_t["dest"], "rv": {"k": "use", "op": into_t["args"][0]}, "span": span}]
        w.blocks[a.into_bb]["term"] = _goto(into_t["target"], span)
        changed = True
        break          # block indices of the other awaits are still valid, but re-discover to stay simple
    return changed


def _neutralise_dead(w):
    n = len(w.blocks)
    seen = set([0])
    st = [0]
    while st:
        x = st.pop()
        t = w.blocks[x]["term"]
        nxt = []
        for f in _BB_FIELDS:
            if f != "imaginary" and isinstance(t.get(f), int):      # imaginary edges are never taken
                nxt.append(t[f])
        if isinstance(t.get("unwind"), int):
            nxt.append(t["unwind"])
        for v, b in t.get("targets", []):
            nxt.append(b)
        for y in nxt:
            if 0 <= y < n and y not in seen:
                seen.add(y)
                st.append(y)
    for i in range(n):
        if i not in seen:
            sp = w.blocks[i]["term"]["span"]
            w.blocks[i] = {"stmts": [], "term": {"k": "unreachable", "span": sp}, "cleanup": w.blocks[i].get("cleanup", False), "dead": True}


def _mk_body(orig, w):
    j = dict(orig.j)
    j["blocks"] = w.blocks
    j["locals"] = w.locals
    j["debug"] = w.debug
    b = Body(j, orig.crate, orig.facts)
    return b


class InlinedFacts:
    """same interface as Facts; bodies are inlined views (built lazily)"""

    def __init__(self, facts, policy="full"):
        self.policy = policy
        self.orig = facts
        self.config = facts.config
        self.crates = {k: _CrateView(c, self) for k, c in facts.crates.items()}
        self.children = _ChildrenView(self)
        self._bodies = {}
        self.bodies = _LazyBodies(self)
        self.inl = self

    def adt(self, d):
        return self.orig.adt(d)

    def crate(self, name):
        return self.crates[name]

    def body(self, def_):
        return self.bodies.get(def_)

    def all_bodies(self):
        for b in self.orig.all_bodies():
            yield self.view(b)

    def absorbed(self, body):
        """the body is a helper (or the coroutine of an async helper) every call site of which was inlined into its
        callers: its obligations are discharged where it is used, analysing it stand-alone would only lose context"""
        if getattr(self, "_absorbed", None) is None:
            inl_sites, call_sites = {}, {}
            for b in self.orig.all_bodies():
                v = self.view(b)
                for blk in v.blocks:
                    t = blk["term"]
                    m = t.get("inl_call")
                    if m:
                        inl_sites[m["callee"]] = inl_sites.get(m["callee"], 0) + 1
                    if t["k"] == "call":
                        f = t["func"]
                        fn = f["const"]["fn"] if "const" in f and "fn" in f["const"] else None
                        if fn:
                            for d in (fn.get("def"), fn.get("resolved")):
                                if d:
                                    call_sites[d] = call_sites.get(d, 0) + 1
            ab = set()
            for d, n in inl_sites.items():
                ob = self.orig.bodies.get(d)
                if ob is None:
                    continue
                target = ob.parent if ob.kind == "coroutine" else d
                if call_sites.get(target, 0) == 0:
                    ab.add(d)
                    if ob.kind == "coroutine":
                        ab.add(ob.parent)
            self._absorbed = ab
        return body.def_ in self._absorbed

    def view(self, b):
        k = id(b)
        v = self._bodies.get(k)
        if v is None:
            v0 = _inline_body(self.orig, b, self.policy)
            # always a fresh Body object living in the inlined world (its crate is the crate view, its facts are these)
            v = Body(v0.j, self.crates[b.crate.name], self)
            v.inlined_from = None
            self._bodies[k] = v
        return v


class _CrateView:
    """a crate of the inlined facts: same tables, bodies are inlined views"""

    def __init__(self, crate, inf):
        self._c = crate
        self._inf = inf
        self.j = crate.j
        self.name = crate.name
        self.config = crate.config
        self.types = crate.types
        self.adts = crate.adts
        self.impls = crate.impls

    @property
    def bodies(self):
        return [self._inf.view(b) for b in self._c.bodies]


class _ChildrenView:
    def __init__(self, inf):
        self.inf = inf

    def get(self, k, default=None):
        v = self.inf.orig.children.get(k)
        if v is None:
            return default if default is not None else []
        return [self.inf.view(b) for b in v]

    def __getitem__(self, k):
        return [self.inf.view(b) for b in self.inf.orig.children[k]]

    def __contains__(self, k):
        return k in self.inf.orig.children

    def setdefault(self, k, d):
        return self.get(k, d)


class _LazyBodies:
    def __init__(self, inf):
        self.inf = inf

    def get(self, k, default=None):
        b = self.inf.orig.bodies.get(k)
        return self.inf.view(b) if b is not None else default

    def __getitem__(self, k):
        return self.inf.view(self.inf.orig.bodies[k])

    def __contains__(self, k):
        return k in self.inf.orig.bodies

    def items(self):
        for k, b in self.inf.orig.bodies.items():
            yield k, self.inf.view(b)

    def values(self):
        for b in self.inf.orig.bodies.values():
            yield self.inf.view(b)

    def keys(self):
        return self.inf.orig.bodies.keys()


def _inline_body(facts, body, policy="full"):
    w = _Work(body)
    stack = {body.def_}
    if body.parent:
        stack.add(body.parent)
    any_change = False
    for depth in range(MAX_DEPTH):
        ch = False
        # async first (uses the await structure, which sync inlining keeps intact), repeat until none
        for _ in range(12):
            if not _expand_async(facts, w, stack, MAX_TOTAL, policy):
                break
            ch = True
        if _expand_sync(facts, w, stack, depth, MAX_TOTAL, policy):
            ch = True
        if not ch:
            break
        any_change = True
    if not any_change:
        return body
    _neutralise_dead(w)
    return _mk_body(body, w)


def inlined(facts, policy="full"):
    attr = "_inl_" + (policy if isinstance(policy, str) else "keep_%x" % (hash(policy) & 0xffffffff))
    inf = getattr(facts, attr, None)
    if inf is None:
        inf = InlinedFacts(facts, policy)
        setattr(facts, attr, inf)
    return inf


def view_of(facts, policy):
    """(facts, tracer) of another view of the same program: policy in 'orig' | 'full' | 'shallow'; callable with
    any of the three facts objects"""
    from .core import Tracer
    orig = getattr(facts, "orig", facts)
    if isinstance(policy, (set, frozenset, list)):
        policy = ("keep", frozenset(policy))
    if policy == "orig":
        f = orig
    else:
        f = inlined(orig, policy)
    tr = getattr(f, "_tracer", None)
    if tr is None:
        tr = Tracer(f)
        f._tracer = tr
    return f, tr
