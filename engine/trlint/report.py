"""Obligation bookkeeping shared by all property modules."""
import time


class Report:
    def __init__(self, prop, config):
        self.prop = prop
        self.config = config
        self.obls = []          # dicts: rule, key, ok, where, detail
        self.floors = []        # dicts: name, count, floor, ok
        self.notes = []
        self.analysed = {"bodies": set(), "blocks": 0, "call_sites": 0}
        self.t0 = time.time()

    # an obligation is one rule instance at one site
    def ob(self, rule, key, ok, where, detail):
        self.obls.append({"rule": rule, "key": "%s|%s" % (rule, key), "ok": bool(ok),
                          "where": where, "detail": detail, "config": self.config})
        return ok

    def floor(self, name, count, floor):
        ok = count >= floor
        self.floors.append({"name": name, "count": count, "floor": floor, "ok": ok, "config": self.config})
        if not ok:
            self.ob("FLOOR", name, False, "-", "rule %s matched %d instance(s), fewer than the %d confirmed by hand "
                    "(vacuous-pass guard)" % (name, count, floor))
        return ok

    def anchor_missing(self, name, detail=""):
        self.ob("ANCHOR-MISSING", name, False, "-", "public anchor %s not found in the facts %s" % (name, detail))

    def saw(self, body):
        if body.def_ not in self.analysed["bodies"]:
            self.analysed["bodies"].add(body.def_)
            self.analysed["blocks"] += len(body.blocks)
            self.analysed["call_sites"] += sum(1 for b in body.blocks if b["term"]["k"] == "call")

    def note(self, s):
        self.notes.append(s)

    def failed(self):
        return [o for o in self.obls if not o["ok"]]
