"""T-ATOMIC-RMW: every write of a shared atomic word is one atomic read-modify-write."""
from .core import graph, peel, leaves, show

ATOMIC = "core::sync::atomic::Atomic::<"
RMW = ("fetch_add", "fetch_sub", "fetch_and", "fetch_or", "fetch_xor", "fetch_max", "fetch_min", "fetch_nand", "swap",
       "fetch_update", "try_update", "update")
CAS = ("compare_exchange", "compare_exchange_weak", "compare_and_swap")


def atomic_method(c):
    if c.def_ and c.def_.startswith(ATOMIC):
        return c.def_.rsplit("::", 1)[1]
    return None


def word_of(tr, body, op, loc, params=False):
    """(adt, field) of the atomic word a receiver operand designates, or None"""
    n = peel(tr.expand(tr.operand(body, op, loc), upvars=True, params=params))
    # Arc<AtomicX> deref: Deref::deref(&arc_field)
    guard = 0
    while n[0] == "call" and guard < 4:
        c = tr.call_of(n)
        if c.def_ in ("core::ops::deref::Deref::deref", "core::convert::AsRef::as_ref", "core::borrow::Borrow::borrow"):
            n = peel(tr.expand(tr.operand(c.g.b, c.args[0], c.loc), upvars=True, params=params))
            guard += 1
        else:
            break
    if n[0] == "field":
        return (n[3], n[2]), n
    return None, n


def words_of(tr, body, op, loc):
    """set of (adt, field) words a receiver may designate; parameters of workspace-local helpers are bound at
    their call sites, so a helper shared by several owners designates several words"""
    w, n = word_of(tr, body, op, loc)
    if w is not None:
        return {w}
    out = set()
    n2 = tr.expand(tr.operand(body, op, loc), upvars=True, params=True)
    for lf in leaves(n2):
        lf = peel(lf)
        guard = 0
        while lf[0] == "call" and guard < 4:
            c = tr.call_of(lf)
            if c.def_ in ("core::ops::deref::Deref::deref", "core::convert::AsRef::as_ref", "core::borrow::Borrow::borrow"):
                lf = peel(tr.expand(tr.operand(c.g.b, c.args[0], c.loc), upvars=True, params=True))
                guard += 1
            else:
                break
        for x in leaves(lf):
            x = peel(x)
            if x[0] == "field":
                out.add((x[3], x[2]))
    return out


def atomic_fields(facts, adt_def):
    out = []
    adt = facts.adt(adt_def)
    if not adt:
        return out
    crate = [c for c in facts.crates.values() if adt_def in c.adts][0]
    for f in adt["variants"][0]["fields"]:
        t = crate.types[f["ty"]]
        if t["s"].startswith("core::sync::atomic::Atomic"):
            out.append((adt_def, f["name"]))
    return out


def sites(facts, tr, word):
    """all atomic method calls on `word` in the workspace: [(body, call, method)]"""
    out = []
    for b in facts.all_bodies():
        g = graph(b)
        for c in g.calls():
            m = atomic_method(c)
            if m is None or m == "new" or not c.args:
                continue
            if word in words_of(tr, b, c.args[0], c.loc):
                out.append((b, c, m))
    return out


def loads_in(tr, node, word):
    """load-call nodes on `word` inside the expression DAG of node"""
    out = []
    for x in tr.walk(node):
        if x[0] == "call":
            c = tr.call_of(x)
            if atomic_method(c) == "load":
                if word in words_of(tr, c.g.b, c.args[0], c.loc):
                    out.append(x)
    return out


def observations_in(tr, node, word):
    """calls inside the expression DAG of node that return (a function of) the word's value: load, and the
    previous value returned by fetch_* / swap / compare_exchange"""
    out = []
    for x in tr.walk(node):
        if x[0] == "call":
            c = tr.call_of(x)
            m = atomic_method(c)
            if m == "load" or m in RMW or m in CAS or m in ("fetch_update", "try_update", "swap"):
                if c.args and word in words_of(tr, c.g.b, c.args[0], c.loc):
                    out.append(x)
    return out


def check_word(facts, tr, rep, rule, word, keyfn):
    """obligations for one atomic word; returns number of write sites"""
    n = 0
    for (b, c, m) in sites(facts, tr, word):
        rep.saw(b)
        key = keyfn(b, c, m)
        if m == "load" or m in ("get_mut", "into_inner", "as_ptr"):
            continue
        n += 1
        if m == "store":
            val = tr.expand(tr.operand(b, c.args[1], c.loc))
            lds = loads_in(tr, val, word)
            # check-then-act: a store that happens only under a condition on an earlier observation of the word
            from .util import dominating_edges
            cta = []
            for e in dominating_edges(tr, b, c.bb):
                cta += observations_in(tr, e["node"], word)
            if cta and not lds:
                rep.ob(rule, key, False, c.where(),
                       "lost update: %s.%s is overwritten by `store` under a condition computed from an earlier observation of the same "
                       "word (%s); an update by another thread between the observation and the store is discarded"
                       % (word[0].split("::")[-1], word[1], ", ".join(tr.call_of(l).where() for l in cta[:2])))
                continue
            rep.ob(rule, key, not lds, c.where(),
                   "store to %s.%s of a value independent of the word's current value" % (word[0].split("::")[-1], word[1]) if not lds else
                   "lost update: %s.%s is written by `store` with a value computed from an earlier `load` of the same word (%s); "
                   "a concurrent update between the two is overwritten" % (word[0].split("::")[-1], word[1],
                   ", ".join(tr.call_of(l).where() for l in lds)))
        elif m in CAS:
            exp = tr.expand(tr.operand(b, c.args[1], c.loc))
            new = tr.expand(tr.operand(b, c.args[2], c.loc))
            eld = loads_in(tr, exp, word)
            nld = loads_in(tr, new, word)
            # expected must be (derived from) one observation of the word; new must use that same one
            exp_leaves = [peel(x) for x in leaves(exp)]
            ok_exp = bool(eld) or any(_is_cas_err(tr, x, word) for x in exp_leaves)
            ok_new = set(nld) <= set(eld) if eld else True
            rep.ob(rule, key, ok_exp and ok_new, c.where(),
                   "CAS on %s.%s: expected and new value derive from the same observation" % (word[0].split("::")[-1], word[1])
                   if ok_exp and ok_new else
                   "CAS on %s.%s: %s" % (word[0].split("::")[-1], word[1],
                                          "expected value is not an observation of the word" if not ok_exp else
                                          "new value is computed from a different load than the expected value"))
        elif m in ("fetch_update", "try_update", "update"):
            # closure must not capture an earlier observation of the word
            clo = peel(tr.expand(tr.operand(b, c.args[-1], c.loc)))
            bad = []
            if clo[0] == "agg":
                for ch in tr.children(clo):
                    bad += loads_in(tr, tr.expand(ch), word)
            rep.ob(rule, key, not bad, c.where(),
                   "%s on %s.%s computes the new value from the value it read itself" % (m, word[0].split("::")[-1], word[1]) if not bad else
                   "%s closure captures a stale load of the same word" % m)
        elif m in RMW:
            rep.ob(rule, key, True, c.where(), "%s is a single atomic read-modify-write" % m)
        else:
            rep.ob(rule, key, False, c.where(), "unrecognised atomic write method %s" % m)
    return n


def _is_cas_err(tr, node, word):
    # Err(actual) payload of a previous CAS on the same word
    while node[0] in ("field", "downcast", "ref", "deref"):
        node = node[1]
    if node[0] == "call":
        c = tr.call_of(node)
        if atomic_method(c) in CAS:
            return word in words_of(tr, c.g.b, c.args[0], c.loc)
    return False
