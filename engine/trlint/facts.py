"""Loading and indexing of fact files; pretty-printing of bodies."""
import json, os, re

class Body:
    __slots__ = ("j", "crate", "def_", "key", "kind", "blocks", "locals", "types", "parent",
                 "root", "impl", "name", "span", "arg_count", "debug", "_cache", "facts", "inlined_from")
    def __init__(self, j, crate, facts):
        self.j = j; self.crate = crate; self.facts = facts
        self.def_ = j["def"]; self.key = j["key"]; self.kind = j["kind"]
        self.blocks = j["blocks"]; self.locals = j["locals"]; self.types = crate.types
        self.parent = j.get("parent"); self.root = j.get("root"); self.impl = j.get("impl")
        self.name = j.get("name"); self.span = j["span"]; self.arg_count = j["arg_count"]
        self.debug = j.get("debug", [])
        self._cache = {}
    def ty(self, i):
        return self.types[i]
    def local_ty(self, l):
        return self.types[self.locals[l]["ty"]]
    def local_name(self, l):
        return self.locals[l].get("name")
    def file(self):
        return self.span["file"]
    def __repr__(self):
        return "<Body %s>" % self.def_

class Crate:
    def __init__(self, j):
        self.j = j
        self.name = j["crate"]; self.config = j["config"]
        self.types = j["types"]
        self.adts = {a["def"]: a for a in j["adts"]}
        self.impls = j["impls"]
        self.bodies = []

class Facts:
    """All crates of one configuration."""
    def __init__(self, directory, config):
        self.config = config
        self.crates = {}
        self.bodies = {}      # def path -> Body (def paths are unique workspace-wide)
        for fn in sorted(os.listdir(directory)):
            if not fn.endswith("." + config + ".json"):
                continue
            with open(os.path.join(directory, fn)) as f:
                j = json.load(f)
            c = Crate(j)
            self.crates[c.name] = c
            for bj in j["bodies"]:
                b = Body(bj, c, self)
                c.bodies.append(b)
                # closures in different impls may print identically only if the impl header does
                k = b.def_
                if k in self.bodies:
                    k = c.name + b.key
                self.bodies[k] = b
        self.children = {}
        for b in self.all_bodies():
            if b.parent:
                self.children.setdefault(b.parent, []).append(b)
    def all_bodies(self):
        for c in self.crates.values():
            for b in c.bodies:
                yield b
    def crate(self, name):
        return self.crates[name]
    def body(self, def_):
        return self.bodies.get(def_)
    def adt(self, def_):
        for c in self.crates.values():
            if def_ in c.adts:
                return c.adts[def_]
        return None

# ---------------------------------------------------------------- pretty printing

def fmt_place(p):
    s = "_%d" % p["l"]
    for e in p["p"]:
        if e == "*":
            s = "(*%s)" % s
        elif isinstance(e, str):
            s = "%s.<%s>" % (s, e)
        elif "f" in e:
            s = "%s.%s" % (s, e.get("n", e["f"]))
        elif "downcast" in e:
            s = "(%s as %s)" % (s, e.get("v", e["downcast"]))
        elif "index" in e:
            s = "%s[_%d]" % (s, e["index"])
        elif "cindex" in e:
            s = "%s[%d]" % (s, e["cindex"])
    return s

def fmt_op(o):
    if "copy" in o: return fmt_place(o["copy"])
    if "move" in o: return "move " + fmt_place(o["move"])
    if "const" in o:
        c = o["const"]
        if "fn" in c: return "fn:" + c["fn"]["path"]
        return "const " + c.get("disp", "?")
    return "?"

def fmt_rv(rv):
    k = rv["k"]
    if k == "use": return fmt_op(rv["op"])
    if k == "ref": return "&%s %s" % (rv["bk"], fmt_place(rv["place"]))
    if k == "binop": return "%s(%s, %s)" % (rv["op"], fmt_op(rv["a"]), fmt_op(rv["b"]))
    if k == "unop": return "%s(%s)" % (rv["op"], fmt_op(rv["a"]))
    if k == "cast": return "%s as [%s]" % (fmt_op(rv["op"]), rv["ck"])
    if k == "discr": return "discriminant(%s)" % fmt_place(rv["place"])
    if k == "agg":
        head = rv["ak"]
        if head == "adt": head = "%s::%s" % (rv["def"], rv["variant"])
        elif head in ("closure", "coroutine"): head = "%s{%s}" % (head, rv["def"])
        return "%s(%s)" % (head, ", ".join(fmt_op(o) for o in rv["ops"]))
    if k == "rawptr": return "&raw " + fmt_place(rv["place"])
    return k

def fmt_term(t):
    k = t["k"]
    if k == "goto": return "goto -> bb%d" % t["target"]
    if k == "switch":
        return "switchInt(%s) -> [%s, otherwise: bb%d]" % (fmt_op(t["discr"]),
            ", ".join("%s: bb%d" % (v, b) for v, b in t["targets"]), t["otherwise"])
    if k == "call":
        return "%s = %s(%s) -> [return: %s, unwind: %s]" % (fmt_place(t["dest"]), fmt_op(t["func"]),
            ", ".join(fmt_op(a) for a in t["args"]), "bb%s" % t["target"] if t["target"] is not None else "-", t["unwind"])
    if k == "drop": return "drop(%s) -> [return: bb%d, unwind: %s]" % (fmt_place(t["place"]), t["target"], t["unwind"])
    if k == "yield": return "yield(%s) -> [resume: bb%d, drop: %s]" % (fmt_op(t["value"]), t["resume"], t["drop"])
    if k == "assert": return "assert(%s == %s, %s) -> [bb%d, unwind: %s]" % (fmt_op(t["cond"]), t["expected"], t["msg"], t["target"], t["unwind"])
    if k in ("false_edge",): return "falseEdge -> [real: bb%d, imaginary: bb%d]" % (t["target"], t["imaginary"])
    if k == "false_unwind": return "falseUnwind -> [real: bb%d, unwind: %s]" % (t["target"], t["unwind"])
    return k

def dump_body(b, out=None):
    import sys
    out = out or sys.stdout
    out.write("// %s  [%s] %s:%d\n" % (b.def_, b.kind, b.span["file"], b.span["line"]))
    for i, l in enumerate(b.locals):
        out.write("  let _%d: %s%s\n" % (i, b.types[l["ty"]]["s"], ("  // " + l["name"]) if "name" in l else ""))
    for d in b.debug:
        if d["place"]["p"]:
            out.write("  debug %s => %s\n" % (d["name"], fmt_place(d["place"])))
    for i, blk in enumerate(b.blocks):
        out.write("  bb%d%s:\n" % (i, " (cleanup)" if blk.get("cleanup") else ""))
        for s in blk["stmts"]:
            if s["k"] == "assign":
                out.write("    %s = %s;   // L%d\n" % (fmt_place(s["lhs"]), fmt_rv(s["rv"]), s["span"]["line"]))
            elif s["k"] == "setdiscr":
                out.write("    discriminant(%s) = %d;\n" % (fmt_place(s["lhs"]), s["vi"]))
        t = blk["term"]
        out.write("    %s;   // L%d %s\n" % (fmt_term(t), t["span"]["line"], t["span"].get("exp", "")))

if __name__ == "__main__":
    import sys
    d, cfg, pat = sys.argv[1], sys.argv[2], sys.argv[3]
    f = Facts(d, cfg)
    for b in f.all_bodies():
        if re.search(pat, b.def_):
            dump_body(b)
