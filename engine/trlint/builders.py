"""T-PRESERVE: configuration set on a builder reaches the built configuration.

For every method that takes a builder `self` by value and returns a value of the same ADT (a setter,
possibly type-changing), every field of the result must come from the same field of `self`, from a
parameter of the method, or be a constant the method sets — never from a freshly defaulted builder
(`T::new()`, `Default::default()`, a functional-record-update base).  For `build(self)`-style methods that
construct another ADT, each field that also exists (by name) on the builder must be computed from the
builder's field of that name.
"""
from .core import graph, Call, peel, leaves, show, N
from .util import ret_assigns, skey, where


def _self_adt(b):
    if b.arg_count < 1:
        return None
    t = b.local_ty(1)
    if t.get("k") != "adt":
        return None
    if b.local_name(1) != "self":
        return None
    return t


def _classify(tr, body, node, fname, self_def, depth=0):
    """-> set of source kinds for a field value: 'self' (same field of self), 'self-other' (another field of
    self), 'param', 'default', 'const'"""
    kinds = set()
    for lf in leaves(node):
        lf = peel(lf)
        kinds |= _classify1(tr, body, lf, fname, self_def, depth)
    return kinds


def _classify1(tr, body, lf, fname, self_def, depth):
    if depth > 8:
        return {"unknown"}
    k = lf[0]
    if k == "const" or k == "fnconst":
        return {"const"}
    if k == "param":
        if lf[2] == body.def_ and lf[3] == 1:
            return {"self-whole"}
        return {"param"}
    if k in ("field", "downcast", "deref", "ref"):
        base = lf
        names = []
        while base[0] in ("field", "downcast", "deref", "ref", "cast"):
            if base[0] == "field":
                names.append(base[2])
            base = peel(base[2] if base[0] == "cast" else base[1])
        if base[0] == "param" and base[2] == body.def_ and base[3] == 1:
            return {"self"} if names and names[-1] == fname else {"self-other"}
        if base[0] == "param":
            return {"param"}
        if base[0] == "call":
            c = tr.call_of(base)
            if _is_default_ctor(c, self_def):
                return {"default"}
            # field of the result of another setter call: look at that call's receiver chain
            return _classify_call_field(tr, body, c, names[-1] if names else fname, fname, self_def, depth + 1)
        if base[0] == "agg":
            return {"const"}
        return {"unknown"}
    if k == "call":
        c = tr.call_of(lf)
        if _is_default_ctor(c, self_def):
            return {"default"}
        out = set()
        for a in c.args:
            out |= _classify(tr, c.g.b, tr.expand(tr.operand(c.g.b, a, c.loc)), fname, self_def, depth + 1)
        return out or {"const"}
    if k == "agg":
        b2, rv = tr.agg_of(lf)
        out = set()
        for o in rv["ops"]:
            out |= _classify(tr, b2, tr.expand(tr.operand(b2, o, (lf[3], lf[4]))), fname, self_def, depth + 1)
        return out or {"const"}
    if k in ("binop", "unop", "cast"):
        out = set()
        for ch in tr.children(lf):
            out |= _classify(tr, body, ch, fname, self_def, depth + 1)
        return out
    return {"unknown"}


def _is_default_ctor(c, self_def):
    if c.name in ("new", "default", "builder") and not c.args:
        return True
    if c.def_ == "core::default::Default::default":
        return True
    return False


def _classify_call_field(tr, body, c, field, fname, self_def, depth):
    """field `field` of the value returned by call c (a setter applied to a receiver)"""
    tgt = None
    for d in c.targets_def():
        b2 = tr.facts.bodies.get(d)
        if b2 is not None:
            tgt = b2
    if tgt is None or not c.args:
        return {"unknown"}
    summ = setter_summary(tr, tgt)
    if summ is None:
        return {"unknown"}
    src = summ.get(field)
    if src is None or src == {"self"}:
        # passes through the receiver
        recv = tr.expand(tr.operand(c.g.b, c.args[0], c.loc))
        out = set()
        for lf in leaves(recv):
            lf = peel(lf)
            if lf[0] == "call":
                cc = tr.call_of(lf)
                if _is_default_ctor(cc, self_def):
                    out.add("default")
                else:
                    out |= _classify_call_field(tr, body, cc, field, fname, self_def, depth + 1)
            elif lf[0] == "param" and lf[2] == body.def_ and lf[3] == 1:
                out.add("self")
            else:
                out |= _classify1(tr, c.g.b, ("field", lf, field, None), fname, self_def, depth + 1)
        return out
    if "param" in src:
        # the argument(s) of this setter call
        out = set()
        for a in c.args[1:]:
            out |= _classify(tr, c.g.b, tr.expand(tr.operand(c.g.b, a, c.loc)), fname, self_def, depth + 1)
        return out or {"const"}
    return src


_SUMM = {}


def setter_summary(tr, b):
    """field -> source kinds, for a method `fn(self, ..) -> SameAdt`; None if b is not of that shape"""
    if "setter_summary" in b._cache:
        return b._cache["setter_summary"]
    b._cache["setter_summary"] = None
    st = _self_adt(b)
    if st is None:
        return None
    rt = b.local_ty(0)
    if rt.get("k") != "adt" or rt.get("def") != st.get("def"):
        return None
    adt = tr.facts.adt(st["def"])
    if adt is None or adt["kind"] != "struct":
        return None
    fields = [f["name"] for f in adt["variants"][0]["fields"]]
    g = graph(b)
    summ = {}
    rets = ret_assigns(tr, b)
    for f in fields:
        kinds = set()
        for (i, j, node) in rets:
            for lf in leaves(node):
                lf = peel(lf)
                if lf[0] == "agg":
                    b2, rv = tr.agg_of(lf)
                    if rv.get("def") == st["def"] and f in rv["fields"]:
                        kinds |= _classify(tr, b2, tr.expand(tr.operand(b2, rv["ops"][rv["fields"].index(f)], (lf[3], lf[4]))), f, st["def"])
                    else:
                        kinds.add("unknown")
                elif lf[0] == "param" and lf[3] == 1:
                    # `mut self; self.f = v; self`: partial assignments
                    assigned = False
                    for d in g.defs.get(1, []):
                        if d[4] and d[4][0] == ("f", fields.index(f)) and d[3] == "assign":
                            assigned = True
                            kinds |= _classify(tr, b, tr.expand(tr._defnode(b, g, d, 0)), f, st["def"])
                    if not assigned:
                        kinds.add("self")
                elif lf[0] == "call":
                    kinds |= _classify_call_field(tr, b, tr.call_of(lf), f, f, st["def"], 0)
                elif lf[0] == "phi" or lf[0] == "partial":
                    kinds.add("self")
                else:
                    kinds.add("unknown")
        summ[f] = kinds
    b._cache["setter_summary"] = summ
    return summ


def check_builders(facts, tr, rep, crate, rule):
    """obligations for all by-value-self methods of `crate`; returns number of methods examined"""
    n = 0
    c = facts.crates.get(crate)
    if c is None:
        rep.anchor_missing(crate)
        return 0
    for b in c.bodies:
        if b.kind != "fn" or b.impl is None and "::" not in b.def_:
            continue
        st = _self_adt(b)
        if st is None or not st["def"].startswith(crate):
            continue
        adt = facts.adt(st["def"])
        if adt is None or adt["kind"] != "struct":
            continue
        rt = b.local_ty(0)
        if rt.get("k") != "adt":
            continue
        self_fields = [f["name"] for f in adt["variants"][0]["fields"]]
        ctypes = {f["name"]: c.types[f["ty"]] for f in adt["variants"][0]["fields"]}
        if rt.get("def") == st["def"]:
            summ = setter_summary(tr, b)
            if summ is None:
                continue
            n += 1
            rep.saw(b)
            type_changing = rt.get("s") != st.get("s")
            for f in self_fields:
                kinds = summ.get(f, set())
                generic_field = _mentions_param(c.types, ctypes[f])
                if ctypes[f]["s"].startswith("core::marker::PhantomData"):
                    continue
                bad = "default" in kinds and not ({"self", "param"} & kinds)
                if bad and type_changing and generic_field:
                    continue      # a field whose type changes with the builder's type cannot be carried over
                # a type-changing setter rebuilds the builder field by field: an option of unchanged type that is written
                # with a constant there (instead of `self.f`) is silently reset to that constant
                if type_changing and kinds == {"const"} and not generic_field:
                    rep.ob(rule, skey(b, "setter-reset." + f), False, "%s:%d" % (b.span["file"], b.span["line"]),
                           "builder method `%s`, which rebuilds the builder with another type parameter, sets `%s` to a constant instead of "
                           "carrying over `self.%s`: a value configured before this call is silently reset (the result depends on the order "
                           "of the builder calls)" % (b.name, f, f))
                mixes = "self-other" in kinds and "param" not in kinds and "self-whole" not in kinds
                if mixes:
                    rep.ob(rule, skey(b, "setter-mix." + f), False, "%s:%d" % (b.span["file"], b.span["line"]),
                           "builder method `%s` does not carry `%s` over unchanged: the new value is computed from another field of the "
                           "builder, so a default that should be resolved at build() is frozen here and the result depends on the order "
                           "of the builder calls" % (b.name, f))
                rep.ob(rule, skey(b, "setter." + f), not bad, "%s:%d" % (b.span["file"], b.span["line"]),
                       "builder method %s keeps field `%s` (%s)" % (b.name, f, "/".join(sorted(kinds)) or "self") if not bad else
                       "builder method `%s` returns a builder whose `%s` comes from a freshly defaulted builder instead of `self.%s`: a value "
                       "configured before this call is silently dropped" % (b.name, f, f))
        else:
            # build(self) -> other ADT: same-named fields must be computed from the builder's field.
            # The configuration struct may be the returned value or be built on the way (build() -> Layer::new(config)).
            handled = set()
            counted = False
            radt = facts.adt(rt.get("def"))
            if radt is not None and radt["kind"] == "struct":
                rfields = [f["name"] for f in radt["variants"][0]["fields"]]
                common = [f for f in rfields if f in self_fields]
                if len(common) >= 2:
                    n += 1
                    counted = True
                    rep.saw(b)
                    for (i, j, node) in ret_assigns(tr, b):
                        for lf in leaves(node):
                            lf = peel(lf)
                            if lf[0] == "call" and tr.local_sync_callee(lf) is not None and \
                                    tr.local_sync_callee(lf).local_ty(0).get("def") == rt.get("def") and _self_adt(tr.local_sync_callee(lf)) is None:
                                # the value is built by a local constructor function: look through it with its
                                # parameters bound to this call's arguments
                                hb = tr.local_sync_callee(lf)
                                with tr.bound(hb, lf):
                                    for r in tr.helper_returns(hb):
                                        for lf2 in leaves(r):
                                            lf2 = peel(lf2)
                                            if lf2[0] != "agg":
                                                continue
                                            b2, rv = tr.agg_of(lf2)
                                            if rv.get("def") != rt.get("def"):
                                                continue
                                            _check_build_agg(tr, rep, rule, b, b2, rv, (lf2[3], lf2[4]), common, ctypes, self_fields)
                                continue
                            if lf[0] == "call":
                                # a chain of setter calls on the other builder type
                                cc = tr.call_of(lf)
                                for f in common:
                                    if ctypes[f]["s"].startswith("core::marker::PhantomData"):
                                        continue
                                    kinds = _classify_call_field(tr, b, cc, f, f, st["def"], 0)
                                    bad = "default" in kinds and not ({"self", "param"} & kinds)
                                    if "unknown" in kinds and not bad:
                                        continue
                                    rep.ob(rule, skey(b, "rebuild." + f), not bad, "%s:%d" % (b.span["file"], b.span["line"]),
                                           "`%s` is carried over into the rebuilt %s" % (f, rt["def"].split("::")[-1]) if not bad else
                                           "method `%s` rebuilds a %s through a fresh builder and never sets `%s` from `self.%s`: the value configured "
                                           "before this call is silently dropped" % (b.name, rt["def"].split("::")[-1], f, f))
                                continue
                            if lf[0] != "agg":
                                continue
                            b2, rv = tr.agg_of(lf)
                            if rv.get("def") != rt.get("def"):
                                continue
                            handled.add((b2.def_, lf[3], lf[4]))
                            _check_build_agg(tr, rep, rule, b, b2, rv, (lf[3], lf[4]), common, ctypes, self_fields)
            # configuration structs built inside the method (not the returned value itself)
            for i, blk in enumerate(b.blocks):
                for j, s_ in enumerate(blk["stmts"]):
                    if s_["k"] != "assign" or s_["rv"]["k"] != "agg" or s_["rv"].get("ak") != "adt":
                        continue
                    rv = s_["rv"]
                    if (b.def_, i, j) in handled or rv.get("def") == st["def"]:
                        continue
                    a2 = facts.adt(rv.get("def"))
                    if a2 is None or a2["kind"] != "struct" or not rv.get("def", "").startswith(crate):
                        continue
                    common2 = [f for f in rv.get("fields", []) if f in self_fields]
                    if len(common2) < 2:
                        continue
                    if not counted:
                        n += 1
                        counted = True
                        rep.saw(b)
                    _check_build_agg(tr, rep, rule, b, b, rv, (i, j), common2, ctypes, self_fields)
    return n


def _check_build_agg(tr, rep, rule, b, b2, rv, loc, common, ctypes, self_fields):
    rname = rv["def"].split("::")[-1]
    for f in common:
        if f not in rv["fields"] or ctypes[f]["s"].startswith("core::marker::PhantomData"):
            continue
        val = tr.expand(tr.operand(b2, rv["ops"][rv["fields"].index(f)], loc))
        ok = any(x[0] == "field" and x[2] == f and _rooted_in_self(x, b) for x in tr.walk(val, limit=120))
        if ok and b2 is b:
            other = _selected_by_other_field(tr, b, rv["ops"][rv["fields"].index(f)], loc, f, self_fields)
            stale = None
            if other:
                # harmless when every setter of `f` also rewrites the selecting field
                st_def = _self_adt(b)["def"]
                for m in b.crate.bodies:
                    if m.kind != "fn" or m is b:
                        continue
                    sm = setter_summary(tr, m)
                    if sm is None or _self_adt(m)["def"] != st_def:
                        continue
                    if sm.get(f, {"self"}) - {"self"} and not (sm.get(other, {"self"}) - {"self"}):
                        stale = m.name
            if other and stale:
                rep.ob(rule, skey(b, "build-select." + f), False, where(b2, loc[0], loc[1]),
                       "`%s` of the built %s is chosen by a test on the builder's `%s` instead of coming from `%s` alone: a "
                       "setter of `%s` (`%s`) called after the method that sets `%s` no longer takes effect (the last call does not win)"
                       % (f, rname, other, f, f, stale, other))
        if ok:
            acc = []
            _spine_calls(tr, val, f, b, acc)
            alter = [c_ for c_ in acc if not _value_preserving(tr, c_)]
            if alter:
                c_ = alter[0]
                rep.ob(rule, skey(b, "build-alter." + f), False, c_.where(),
                       "`%s` of the built %s is the builder's `%s` passed through `%s`, which can drop or change the configured value "
                       "(only defaulting/wrapping calls and clamps by constants keep it): the mechanism runs with a value the user did not "
                       "configure" % (f, rname, f, c_.name))
        rep.ob(rule, skey(b, "build." + f), ok, where(b2, loc[0], loc[1]),
               "`%s` of the built %s is computed from the builder's `%s`" % (f, rname, f) if ok else
               "`%s` of the built %s is not computed from the builder's `%s` (%s): the configured value never reaches the "
               "mechanism" % (f, rname, f, show(peel(val))))


_PRESERVING = ("expect", "unwrap", "unwrap_or", "unwrap_or_else", "unwrap_or_default", "new", "clone", "into", "from", "to_owned",
               "to_string", "as_ref", "as_deref", "borrow", "deref", "some", "pin", "boxed", "into_iter", "collect", "default")


def _value_preserving(tr, c):
    if c.name in _PRESERVING or c.name.startswith(("from_", "as_", "to_", "into_", "with_capacity")):
        return True          # wrapping, defaulting and unit conversions keep the configured value
    if c.name in ("min", "max", "clamp"):
        # a sanitising clamp by constants
        others = [peel(tr.expand(tr.operand(c.g.b, a, c.loc))) for a in c.args[1:]]
        return all(o[0] in ("const", "fnconst") for o in others)
    return False


def _spine_calls(tr, node, f, b, acc, depth=0):
    """calls that lie between the builder's field `f` (of self) and the value: appended to acc; returns True when
    the field is below node"""
    node = peel(node)
    if depth > 12:
        return False
    if node[0] == "field" and node[2] == f and _rooted_in_self(node, b):
        return True
    if node[0] == "phi":
        return any([_spine_calls(tr, x, f, b, acc, depth + 1) for x in node[1]])
    hit = False
    if node[0] == "call":
        c = tr.call_of(node)
        for a in c.args:
            if _spine_calls(tr, tr.expand(tr.operand(c.g.b, a, c.loc)), f, b, acc, depth + 1):
                hit = True
        if hit:
            acc.append(c)
        return hit
    for ch in tr.children(node):
        if _spine_calls(tr, ch, f, b, acc, depth + 1):
            hit = True
    return hit


def _selected_by_other_field(tr, b, op, loc, f, self_fields):
    """the operand has several reaching definitions and one of them sits under a branch that tests another field of
    the builder (and not `f` itself): returns that field's name"""
    from .util import dominating_edges
    g = graph(b)
    pl = op.get("move") or op.get("copy")
    if pl is None or pl["p"]:
        return None
    ds = g.reaching(pl["l"], loc)
    if len(ds) < 2:
        return None
    for d in ds:
        for e in dominating_edges(tr, b, d[1]):
            names = {x[2] for x in tr.walk(e["node"], limit=60) if x[0] == "field" and _rooted_in_self(x, b) and isinstance(x[2], str)}
            names &= set(self_fields)
            if names and f not in names:
                return sorted(names)[0]
    return None


def _rooted_in_self(node, b):
    base = node
    while base[0] in ("field", "downcast", "deref", "ref", "cast"):
        base = peel(base[2] if base[0] == "cast" else base[1])
    return base[0] == "param" and base[2] == b.def_ and base[3] == 1


def _mentions_param(types, ty, depth=0):
    if ty.get("k") == "param":
        return True
    if depth > 4:
        return False
    return any(isinstance(a, int) and _mentions_param(types, types[a], depth + 1) for a in ty.get("args", []))
