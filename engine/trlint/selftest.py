"""Rule self-test (thorough tier): seeded breakages must be reported, benign rewrites must stay silent.

Corpus (all patches are unified diffs against /repo's tree):
  selftest/mutants/<ID>/<name>.diff   [+ <name>.expect.json: {"expect": ["<rule prefix>", ...]}]
  selftest/benign/<ID>/<name>.diff    must produce no new failed obligation
  seeded/<ID>/<mN>/patch.diff + meta.json {"property": ID, "detected_by": [rule prefixes], ...}
      (entries with an empty detected_by are documented misses and are not asserted)

Each patch is applied to a scratch copy of /repo's *current* working tree outside /repo and /verif, the
facts are extracted for that copy and the property's rules are evaluated on them.  A patch that no longer
applies is reported as skipped (never as a violation).  The scratch copy is removed afterwards.
"""
import os, json, glob, shutil, subprocess, tempfile, importlib, time, hashlib, sys


def _apply(scratch, patch):
    r = subprocess.run(["patch", "-p1", "-s", "--no-backup-if-mismatch", "-i", patch], cwd=scratch,
                       stdout=subprocess.PIPE, stderr=subprocess.STDOUT, text=True)
    return r.returncode == 0, r.stdout[-400:]


def _corpus(pid, verif, crates=()):
    out = []
    for p in sorted(glob.glob(os.path.join(verif, "selftest", "mutants", pid, "*.diff"))):
        exp = None
        e = p[:-5] + ".expect.json"
        if os.path.exists(e):
            exp = json.load(open(e)).get("expect")
        out.append(("mutant", os.path.relpath(p, verif), p, exp))
    # benign rewrites: this property's own, plus those written for other properties that touch a crate this
    # property analyses (a rewrite of the bulkhead must stay silent for C01, C07 and C20 alike)
    mine = set(crates or [])
    for p in sorted(glob.glob(os.path.join(verif, "selftest", "benign", "*", "*.diff"))):
        if os.sep + "_residual" + os.sep in p:
            continue          # behaviour-preserving refactors that are known to raise a false alarm (DESIGN §19): kept as a record
        own = os.path.basename(os.path.dirname(p)) == pid
        touched = set()
        if not own:
            with open(p) as fh:
                for line in fh:
                    if line.startswith("+++ b/crates/"):
                        touched.add(line.split("/")[2].replace("-", "_"))
        if own or (mine and touched & mine) or (crates is None):
            out.append(("benign", os.path.relpath(p, verif), p, None))
    for m in sorted(glob.glob(os.path.join(verif, "seeded", "*", "*", "meta.json"))):
        meta = json.load(open(m))
        det = meta.get("detected_by", {})
        mine = det.get(pid) if isinstance(det, dict) else None
        if not mine:
            continue
        p = os.path.join(os.path.dirname(m), "patch.diff")
        out.append(("mutant", os.path.relpath(p, verif), p, mine))
    return out


def run(pid, verif, repo, work, only=None):
    sys.path.insert(0, verif)
    from trlint.facts import Facts
    from trlint.core import Tracer
    from trlint.report import Report
    import importlib.util, importlib.machinery
    mod = importlib.import_module("trlint.props." + pid.lower())
    spec = importlib.util.spec_from_file_location("check_runner", os.path.join(verif, "check"), loader=importlib.machinery.SourceFileLoader("check_runner", os.path.join(verif, "check")))
    runner = importlib.util.module_from_spec(spec)
    spec.loader.exec_module(runner)
    results = []
    # baseline failures on the unmodified tree (known findings etc.) are not attributed to a patch
    base_dir, _h, _x = runner.ensure_facts(repo, ["FULL"])
    base_fail = _failed(mod, pid, Facts(base_dir, "FULL"), runner)
    stwork = os.path.join(work, "selftest")
    os.makedirs(stwork, exist_ok=True)
    crates = set(getattr(mod, "CONFIG_CRATES", []))
    if getattr(mod, "CRATE", None):
        crates.add(mod.CRATE)
    if pid == "C20":
        crates = None          # C20 analyses every crate
    for (kind, name, path, expect) in _corpus(pid, verif, crates):
        if only and only not in name:
            continue
        t0 = time.time()
        scratch = tempfile.mkdtemp(prefix="trlint-st-%s-" % pid)
        try:
            subprocess.check_call(["rsync", "-a", "--exclude", "target", "--exclude", ".git", repo.rstrip("/") + "/", scratch + "/"])
            ok, msg = _apply(scratch, path)
            if not ok:
                results.append({"name": name, "kind": kind, "ok": True, "status": "skipped", "detail": "patch no longer applies: " + msg.strip()[-160:]})
                continue
            try:
                fdir, _h2, _e = runner.ensure_facts(scratch, ["FULL"], workdir=stwork)
            except SystemExit as e:
                results.append({"name": name, "kind": kind, "ok": True, "status": "skipped", "detail": "patched tree does not build: %s" % str(e)[:120]})
                continue
            fails = _failed(mod, pid, Facts(fdir, "FULL"), runner) - base_fail
            if kind == "mutant":
                if expect:
                    # the clauses recorded when the patch was stored are a record of how it was first reported, not a
                    # contract: what must hold is that the property's module still reports the breakage
                    missing = [e for e in expect if not any(k.startswith(e) for k in fails)]
                    ok2 = bool(fails)
                    detail = ("reported %s" % sorted(fails)[:4]) + ((" (no longer through %s)" % missing) if missing and ok2 else "") if ok2 else \
                        "seeded breakage was NOT reported (recorded clauses: %s)" % expect
                else:
                    ok2 = bool(fails)
                    detail = "reported %s" % sorted(fails)[:4] if ok2 else "seeded breakage was NOT reported"
                results.append({"name": name, "kind": kind, "ok": ok2, "status": "detected" if ok2 else "MISSED", "detail": detail, "wall_s": round(time.time() - t0, 1)})
            else:
                ok2 = not fails
                results.append({"name": name, "kind": kind, "ok": ok2, "status": "silent" if ok2 else "FALSE-ALARM",
                                "detail": "no new report" if ok2 else "benign rewrite was reported: %s" % sorted(fails)[:4], "wall_s": round(time.time() - t0, 1)})
        finally:
            shutil.rmtree(scratch, ignore_errors=True)
    # scratch fact directories are kept (bounded by ensure_facts): the thorough runs of the other properties reuse them
    return {"patches": len(results), "detected": sum(1 for r in results if r["status"] == "detected"),
            "silent": sum(1 for r in results if r["status"] == "silent"), "skipped": sum(1 for r in results if r["status"] == "skipped"),
            "results": results}


def _failed(mod, pid, facts, runner):
    from trlint.core import Tracer
    from trlint.report import Report
    from trlint.builders import check_builders
    import trlint.builders as B
    B._SUMM.clear()
    tr = Tracer(facts)
    runner.attach_inlined(facts, tr)
    rep = Report(pid, "FULL")
    try:
        mod.run(facts, tr, rep)
        for cr in getattr(mod, "CONFIG_CRATES", []):
            check_builders(facts, tr, rep, cr, pid + ".CONFIG")
    except Exception as e:
        rep.ob("INTERNAL", "exception", False, "-", "rule raised %r" % (e,))
    return {o["key"] for o in rep.obls if not o["ok"]}
