"""trlint — rule library over trfacts (built-MIR facts of tower-resilience)."""
