"""T-TYPESTATE-READY: every `<S as Service>::call` goes to an instance on which readiness has been
observed since that instance's previous call.

Formulated as a backward search from each inner call site over the CFG (and, at body entries,
into the capturing parent / the callers), looking on every path for the nearest event on the same
service instance (instance identity = expanded origin of the receiver):

  readiness edge  -> path is fine
  another call    -> violation (second call without readiness in between)
  birth by Clone  -> violation (fresh clone, never polled)
  birth by mem::replace/take out of place P -> state of P before the replace
  entry of `Service::call` with the instance being a field of `self` -> Ready (tower contract; the
        companion rule checks that `poll_ready` forwards to that same field)
  anything else   -> NotReady
"""
from .core import graph, Call, peel, leaves, show, N, U, D

SERVICE_CALL = "tower_service::Service::call"
POLL_READY = "tower_service::Service::poll_ready"
CLONE = "core::clone::Clone::clone"
REPLACE = "core::mem::replace"
TAKE = "core::mem::take"
SWAP = "core::mem::swap"
TRY_BRANCH = "core::ops::try_trait::Try::branch"
FUTURE_POLL = "core::future::future::Future::poll"
POLL_FN = "core::future::poll_fn::poll_fn"
READY_FNS = ("tower::util::ServiceExt::ready", "tower::util::ServiceExt::ready_oneshot",
             "tower::util::ServiceExt::ready_and")
PASS_THROUGH_CALLS = (
    "core::result::Result::<T, E>::map_err", "core::task::poll::Poll::<core::result::Result<T, E>>::map_err",
    "core::pin::Pin::<Ptr>::new_unchecked", "core::pin::Pin::<Ptr>::new", "core::pin::Pin::<Ptr>::as_mut",
    "core::pin::Pin::<&'a mut T>::get_mut", "core::pin::Pin::<&'a mut T>::get_unchecked_mut",
    "core::ops::deref::DerefMut::deref_mut", "core::ops::deref::Deref::deref",
    "core::convert::AsMut::as_mut", "core::borrow::BorrowMut::borrow_mut",
)


def is_inner_call(c):
    return c.def_ == SERVICE_CALL and c.self_kind in ("param", "ref_param")


class Ready:
    def __init__(self, facts, tracer):
        self.facts = facts
        self.tr = tracer
        self._redges = {}
        self._evidx = {}

    # ------------------------------------------------------------------ instance keys
    def key_of(self, body, op, loc):
        n = self.tr.operand(body, op, loc)
        n = self.tr.expand(n)
        return self.norm(n)

    def norm(self, n):
        n = peel(n)
        # look through pin / deref helper calls: Pin::new(&mut x), x.as_mut(), deref_mut(&mut x)
        guard = 0
        while n[0] == "call" and guard < 8:
            c = self.tr.call_of(n)
            if c.def_ in PASS_THROUGH_CALLS and c.args:
                n = peel(self.tr.expand(self.tr.operand(c.g.b, c.args[0], c.loc)))
                guard += 1
            else:
                break
        return n

    # ------------------------------------------------------------------ readiness edges
    def derives(self, node, V, depth=0):
        """node is obtained from call-node V by success-payload projections, `?`, map_err, refs"""
        if depth > 12:
            return False
        if node == V:
            return True
        k = node[0]
        if k == "phi":
            return all(self.derives(x, V, depth + 1) for x in node[1])
        if k in ("ref", "deref"):
            return self.derives(node[1], V, depth + 1)
        if k == "cast":
            return self.derives(node[2], V, depth + 1)
        if k == "downcast":
            if node[2] in ("Ready", "Ok", "Continue", "Some"):
                return self.derives(node[1], V, depth + 1)
            return False
        if k == "field":
            return self.derives(node[1], V, depth + 1)
        if k == "call":
            c = self.tr.call_of(node)
            if c.def_ == TRY_BRANCH or c.def_ in PASS_THROUGH_CALLS:
                return self.derives(self.tr.expand(self.tr.operand(c.g.b, c.args[0], c.loc)), V, depth + 1)
        if k == "agg":
            # re-wrapped success payload: Ok(x) / Ready(x) / Some(x) built from the derived value (helper returns)
            b2, rv = self.tr.agg_of(node)
            if rv.get("variant") in ("Ready", "Ok", "Continue", "Some") and len(rv["ops"]) == 1:
                return self.derives(self.tr.expand(self.tr.operand(b2, rv["ops"][0], (node[3], node[4]))), V, depth + 1)
        return False

    def success_edges(self, body, V):
        """edges (a, b) of switches in `body` that test a value derived from call-node V and take
        the Ok / Continue variant"""
        g = graph(body)
        out = set()
        for bb in range(g.n):
            sw = g.switch(bb)
            if sw is None or sw.kind != "enum":
                continue
            if not (set(sw.variants) & {"Ok", "Continue"}):
                continue
            node = self.tr.expand(self.tr.place(body, sw.place, sw.defloc))
            if self.derives(node, V):
                for nm in ("Ok", "Continue"):
                    if nm in sw.variants and sw.variants[nm] is not None:
                        out.add((bb, sw.variants[nm]))
        return out

    def closure_polls_ready(self, closure_node):
        """closure (agg node) whose body returns poll_ready on some instance -> list of keys"""
        b, rv = self.tr.agg_of(closure_node)
        child = None
        for cb in self.facts.crates[b.crate.name].bodies:
            if cb.def_ == rv["def"]:
                child = cb
        if child is None:
            return []
        keys = []
        g = graph(child)
        for c in g.calls():
            if c.def_ == POLL_READY:
                keys.append(self.key_of(child, c.args[0], c.loc))
        return keys

    def redges(self, body, key):
        ck = (id(body), key)
        if ck in self._redges:
            return self._redges[ck]
        g = graph(body)
        edges = set()
        why = []
        # (a) direct poll_ready calls on the instance
        for c in g.calls():
            if c.def_ == POLL_READY and self.key_of(body, c.args[0], c.loc) == key:
                V = ("call", body.crate.name, body.def_, c.bb)
                e = self.success_edges(body, V)
                edges |= e
                why.append(("poll_ready", c.line, len(e)))
        # (b)/(c) awaits of poll_fn(|cx| x.poll_ready(cx)) or ServiceExt::ready(&mut x)
        for a in g.awaits():
            if a.poll_bb is None:
                continue
            aw = self.tr.expand(self.tr.operand(body, a.awaitee, (a.into_bb, len(g.stmts(a.into_bb)))))
            aw = peel(aw)
            hit = False
            if aw[0] == "call":
                ac = self.tr.call_of(aw)
                if ac.def_ == POLL_FN and ac.args:
                    cl = peel(self.tr.expand(self.tr.operand(ac.g.b, ac.args[0], ac.loc)))
                    if cl[0] == "agg" and key in self.closure_polls_ready(cl):
                        hit = True
                elif ac.def_ in READY_FNS and ac.args:
                    if self.key_of(ac.g.b, ac.args[0], ac.loc) == key:
                        hit = True
            if hit:
                V = ("call", body.crate.name, body.def_, a.poll_bb)
                e = self.success_edges(body, V)
                edges |= e
                why.append(("await-ready", a.line, len(e)))
        self._redges[ck] = (edges, why)
        return edges, why

    # ------------------------------------------------------------------ events
    def event(self, body, p, key):
        """what the terminator of block p does to instance `key`"""
        g = graph(body)
        t = g.term(p)
        if t["k"] != "call":
            return None
        c = Call(g, p, t)
        here = ("call", body.crate.name, body.def_, p)
        if key == here:
            if c.def_ == CLONE:
                return ("birth-clone", c)
            if c.def_ in (REPLACE, TAKE):
                return ("birth-replace", c)
            return ("birth-other", c)
        if c.def_ == SERVICE_CALL and c.args and self.key_of(body, c.args[0], c.loc) == key:
            return ("call", c)
        if c.def_ == REPLACE and c.args and self.key_of(body, c.args[0], c.loc) == key:
            return ("replaced", c)
        if c.def_ == SWAP and len(c.args) == 2:
            ka = self.key_of(body, c.args[0], c.loc)
            kb = self.key_of(body, c.args[1], c.loc)
            if ka == key:
                return ("swapped", c, kb)
            if kb == key:
                return ("swapped", c, ka)
        return None

    # ------------------------------------------------------------------ the search
    def state_at(self, body, bb, key, seen=None, depth=0):
        """verdict for instance `key` just before the terminator of `bb`:
        returns list of problems (empty = Ready on every path). Each problem: (kind, where, text)"""
        if seen is None:
            seen = set()
        if depth > 12:
            return [("depth", "-", "readiness search exceeded its inter-procedural depth")]
        g = graph(body)
        edges, _why = self.redges(body, key)
        problems = []
        visited = set()
        stack = [bb]
        reached_entry = False
        while stack:
            x = stack.pop()
            if (id(body), x, key) in seen or x in visited:
                continue
            visited.add(x)
            if x == 0:
                reached_entry = True
            for (p, _k, _l) in g.pred[x]:
                if (p, x) in edges:
                    continue
                ev = self.event(body, p, key)
                if ev is None:
                    stack.append(p)
                    continue
                kind, c = ev[0], ev[1]
                if kind == "swapped":
                    # before the swap this instance's value lived in the other place
                    problems += self.state_at(body, p, ev[2], seen | {(id(body), b2, key) for b2 in visited}, depth + 1)
                elif kind == "call":
                    problems.append(("recall", c.where(),
                                     "instance is called again (previous call at %s) with no readiness observed in between"
                                     % c.where()))
                elif kind == "birth-clone":
                    problems.append(("clone", c.where(),
                                     "instance is a fresh clone made at %s on which readiness was never observed" % c.where()))
                elif kind == "birth-other":
                    problems.append(("unknown-birth", c.where(),
                                     "instance produced by %s at %s; no readiness observed" % (c.path, c.where())))
                elif kind == "birth-replace":
                    k2 = self.key_of(body, c.args[0], c.loc)
                    problems += self.state_at(body, p, k2, seen | {(id(body), b2, key) for b2 in visited}, depth + 1)
                elif kind == "replaced":
                    if len(c.args) > 1:
                        k2 = self.key_of(body, c.args[1], c.loc)
                        problems += self.state_at(body, p, k2, seen | {(id(body), b2, key) for b2 in visited}, depth + 1)
        if reached_entry:
            problems += self.entry_state(body, key, seen, depth)
        # dedupe
        out = []
        for pr in problems:
            if pr not in out:
                out.append(pr)
        return out

    def entry_state(self, body, key, seen, depth):
        # closure / coroutine: continue in the parent at the capture site
        if body.kind in ("closure", "coroutine"):
            sites = self.tr.aggsites((body.crate.name, body.def_))
            if not sites:
                return [("no-capture-site", "-", "capture site of %s not found" % body.def_)]
            out = []
            for (pb, bb, _idx, _rv) in sites:
                out += self.state_at(pb, bb, key, seen, depth + 1)
            return out
        root = key
        while root[0] in ("field", "deref", "ref", "downcast", "cast"):
            root = root[2] if root[0] == "cast" else root[1]
        if root[0] == "param" and root[2] == body.def_:
            is_service_call = (body.name == "call" and body.impl and body.impl.get("trait") == "tower_service::Service")
            if is_service_call and root[3] == 1 and key[0] == "field":
                return []       # self.<field> at entry of Service::call: ready by contract
            # helper fn / async fn: bind the parameter at every caller
            if key == root or peel(key) == root:
                callers = self.tr.callers(body.def_)
                if not callers:
                    return [("no-callers", "-", "parameter-bound service instance of %s has no workspace caller" % body.def_)]
                out = []
                for cs in callers:
                    i = root[3]
                    if i - 1 >= len(cs.args):
                        continue
                    k2 = self.key_of(cs.g.b, cs.args[i - 1], cs.loc)
                    out += self.state_at(cs.g.b, cs.bb, k2, seen, depth + 1)
                return out
        return [("not-ready", "-", "no readiness observation dominates the call (instance %s)" % show(key))]

    # ------------------------------------------------------------------ public entry
    def check_call(self, body, c):
        """problems for inner call site c (a Call in body)"""
        recv = self.tr.expand(self.tr.operand(body, c.args[0], c.loc))
        # compliant combined step: receiver is the Ok payload of `ServiceExt::ready(..).await`
        g = graph(body)
        for a in g.awaits():
            if a.poll_bb is None:
                continue
            aw = peel(self.tr.expand(self.tr.operand(body, a.awaitee, (a.into_bb, len(g.stmts(a.into_bb))))))
            if aw[0] == "call" and self.tr.call_of(aw).def_ in READY_FNS:
                V = ("call", body.crate.name, body.def_, a.poll_bb)
                if self.derives(peel(recv), V) and peel(recv) != V:
                    return [], self.norm(recv), "ready().await payload"
        key = self.norm(recv)
        return self.state_at(body, c.bb, key), key, None
