"""Shared helpers for property modules."""
import re
from .core import graph, Call, peel, leaves, show, N, U, D

CLONE = "core::clone::Clone::clone"


def service_call_bodies(facts, adt_prefix=None, crate=None):
    """`Service::call` impl bodies (fn) of wrapping services, optionally filtered by crate"""
    out = []
    for b in facts.all_bodies():
        if b.kind == "fn" and b.name == "call" and b.impl and b.impl.get("trait") == "tower_service::Service":
            if crate and b.crate.name != crate:
                continue
            out.append(b)
    return out


def descendants(facts, body):
    """body plus closures/coroutines nested in it (same crate)"""
    out = [body]
    st = [body]
    while st:
        x = st.pop()
        kids = list(facts.children.get(x.def_, []))
        # closures / coroutines *constructed* in the body (in an inlined view they may belong to an inlined helper)
        for blk in x.blocks:
            for s_ in blk["stmts"]:
                if s_["k"] == "assign" and s_["rv"]["k"] == "agg" and s_["rv"].get("ak") in ("closure", "coroutine", "coroutine_closure"):
                    ch = facts.bodies.get(s_["rv"]["def"])
                    if ch is not None and not any(ch.def_ == k.def_ for k in kids):
                        kids.append(ch)
        absorbed = getattr(facts, "absorbed", None)
        for ch in kids:
            if absorbed is not None and ch.kind == "closure" and absorbed(ch):
                continue        # a closure whose every invocation was inlined is represented by its copies
            if ch.crate is x.crate and not any(ch.def_ == o.def_ for o in out):
                out.append(ch)
                st.append(ch)
    return out


def inner_calls(facts, body):
    """(body, Call) for `<S as Service>::call` sites on a type parameter within body and nested bodies"""
    out = []
    for b in descendants(facts, body):
        g = graph(b)
        for c in g.calls():
            if c.def_ == "tower_service::Service::call" and c.self_kind in ("param", "ref_param"):
                out.append((b, c))
    return out


def ordinal(g, cs):
    same = sorted([c.bb for c in g.calls() if c.def_ == cs.def_ and c.self_kind == cs.self_kind],
                  key=lambda bb: (g.term(bb)["span"]["line"], bb))
    return same.index(cs.bb)


def skey(body, extra):
    return "%s|%s|%s" % (body.crate.name, body.def_, extra)


def where(body, bb, idx=None):
    return graph(body).where(bb, idx)


def dominating_edges(tr, body, site_bb, _depth=0):
    """switch edges that edge-dominate site_bb.
    returns list of dicts: {bb, kind:'bool'|'enum', label, node, sw}"""
    g = graph(body)
    ck = ("domedges", site_bb)
    if ck in body._cache:
        return body._cache[ck]
    if not g.live(site_bb):
        body._cache[ck] = []
        return []          # a dead site is dominated by everything: report nothing rather than nonsense
    out = []
    for bb in range(g.n):
        sw = g.switch(bb)
        if sw is None:
            continue
        if sw.kind == "bool":
            for lab in ("true", "false"):
                tgt = sw.variants.get(lab)
                if tgt is None or sw.variants.get("true") == sw.variants.get("false"):
                    continue
                if g.edge_dominates((bb, tgt), site_bb):
                    node = peel(tr.expand(tr.operand(body, sw.cond, (bb, len(g.stmts(bb))))))
                    out.append({"bb": bb, "kind": "bool", "label": lab, "node": node, "sw": sw})
        elif sw.kind == "enum":
            tgts = {}
            for nm, tgt in sw.variants.items():
                tgts.setdefault(tgt, []).append(nm)
            for tgt, nms in tgts.items():
                if len(tgts) < 2 and sw.otherwise == tgt:
                    continue
                if g.edge_dominates((bb, tgt), site_bb):
                    node = peel(tr.expand(tr.place(body, sw.place, sw.defloc)))
                    for nm in nms:
                        out.append({"bb": bb, "kind": "enum", "label": nm, "node": node, "sw": sw})
        else:
            # integer test on a projected place (e.g. the `secs` field of a Duration pattern)
            tv = getattr(sw, "tv", {})
            pl = sw.cond.get("copy") or sw.cond.get("move")
            if pl is None:
                continue
            for val, tgt in tv.items():
                if tgt == sw.otherwise:
                    continue
                if g.edge_dominates((bb, tgt), site_bb):
                    node = peel(tr.expand(tr.place(body, pl, (bb, len(g.stmts(bb))))))
                    out.append({"bb": bb, "kind": "int", "label": val, "node": node, "sw": sw})
            if sw.otherwise not in tv.values() and g.edge_dominates((bb, sw.otherwise), site_bb):
                node = peel(tr.expand(tr.place(body, pl, (bb, len(g.stmts(bb))))))
                out.append({"bb": bb, "kind": "int", "label": "otherwise", "node": node, "sw": sw})
    # a bool switch on a local that is only ever assigned constants (`matches!`, `let ok = if c { true } else
    # { false }`, short-circuit `&&`/`||` lowering): on its `true` edge the last assignment was one of the
    # `true` assignments, so the guards common to all of those assignment sites hold as well
    if _depth < 3:
        extra = []
        for e in list(out):
            if e["kind"] != "bool":
                continue
            sw = e["sw"]
            pl = sw.cond.get("copy") or sw.cond.get("move")
            if pl is None or pl["p"]:
                continue
            ds = g.reaching(pl["l"], (sw.bb, len(g.stmts(sw.bb))))
            # `_t = copy _flag; switchInt(_t)`: look at the flag's definitions
            hops = 0
            while len(ds) == 1 and ds[0][3] == "assign" and ds[0][5]["k"] == "use" and hops < 3:
                src_ = ds[0][5]["op"].get("copy") or ds[0][5]["op"].get("move")
                if src_ is None or src_["p"]:
                    break
                ds = g.reaching(src_["l"], (ds[0][1], ds[0][2]))
                hops += 1

            def _constdisp(d):
                if d[3] == "assign" and d[5]["k"] == "use" and "const" in d[5]["op"] and d[5]["op"]["const"].get("disp") in ("true", "false"):
                    return d[5]["op"]["const"]["disp"]
                return None
            if len(ds) < 2 or not all(d[3] in ("assign", "call") and not d[4] for d in ds) or not any(_constdisp(d) for d in ds):
                continue
            # sources of the value on this edge: the constant assignments equal to the label, and every
            # non-constant assignment (whose value then equals the label: it acts as a guard of its own)
            srcs = [(d[1], None) for d in ds if _constdisp(d) == e["label"]] + [(d[1], d) for d in ds if _constdisp(d) is None]
            if not srcs:
                continue
            common = None
            for (sb_, d_) in srcs:
                es = dominating_edges(tr, body, sb_, _depth + 1)
                keys = {(x["bb"], x["label"]): x for x in es}
                if d_ is not None and len(srcs) == 1:
                    vnode = peel(tr.expand(tr._defnode(body, g, d_, 0)))
                    keys[(sb_, "value:" + e["label"])] = {"bb": sb_, "kind": "bool", "label": e["label"], "node": vnode, "sw": sw}
                common = keys if common is None else {k: v for k, v in common.items() if k in keys}
            for k, v in (common or {}).items():
                if not any(x["bb"] == k[0] and x["label"] == k[1] for x in out + extra):
                    extra.append(dict(v, via="const-phi@bb%d" % sw.bb))
        out = out + extra
    # the same for a match on an enum local every definition of which builds a known variant ("the decision carried as
    # data": `let role = match join() { Some(rx) => Role::Waiter(rx), None => Role::Leader }; ..; match role { .. }`,
    # or a helper returning Ok(..) / Err(..) inlined at its call): on the edge of variant V the value was built at one
    # of the V sites, so the guards common to all of those sites were passed on the way here
    if _depth < 3:
        extra = []
        for e in list(out):
            if e["kind"] != "enum" or "via" in e:
                continue
            sw = e["sw"]
            if sw.place is None:
                continue
            src_body = body
            if sw.place["p"]:
                # the decision was taken in the function that built this closure / async block and captured by value
                # (`let on_expiry = if cancel { DropInner } else { DetachInner }; async move { match on_expiry { .. } }`)
                up = _upvar_variant_sites(tr, body, sw)
                if up is None:
                    continue
                src_body, sites = up
            else:
                sites = _variant_sites(tr, body, g, sw.place["l"], sw.defloc)
            if not sites:
                continue
            srcs = [bb_ for (bb_, v_) in sites if v_ == e["label"]]
            if not srcs or len({v_ for (_b, v_) in sites}) < 2:
                continue
            common = None
            for sb_ in srcs:
                es = dominating_edges(tr, src_body, sb_, _depth + 1)
                if src_body is not body:
                    # seen from here, the captured decision is established by taking this switch's edge
                    es = [dict(x, bb=sw.bb, sw=sw, label=x["label"], foreign=src_body.def_, fkey=(x["bb"], x["label"])) for x in es]
                    keys = {x["fkey"]: x for x in es}
                    common = keys if common is None else {k: v for k, v in common.items() if k in keys}
                    continue
                keys = {(x["bb"], x["label"]): x for x in es}
                common = keys if common is None else {k: v for k, v in common.items() if k in keys}
            for k, v in (common or {}).items():
                if v.get("foreign") or not any(x["bb"] == k[0] and x["label"] == k[1] for x in out + extra):
                    extra.append(dict(v, via="variant-phi@bb%d" % sw.bb))
        out = out + extra
    body._cache[ck] = out
    return out


def _upvar_variant_sites(tr, body, sw):
    """(parent body, [(bb, variant)]) when the switch tests a by-value capture of this closure / coroutine whose value, in
    the one function that builds the closure, is built as a known variant on every path"""
    if body.kind not in ("closure", "coroutine") or sw.place["l"] != 1:
        return None
    proj = [e_ for e_ in sw.place["p"] if e_ != "*"]
    if len(proj) != 1 or not isinstance(proj[0], dict) or "f" not in proj[0]:
        return None
    k = proj[0]["f"]
    sites = tr.aggsites((body.crate.name, body.def_))
    if len(sites) != 1:
        return None
    (pb, bb, idx, rv) = sites[0]
    if k >= len(rv["ops"]):
        return None
    src = rv["ops"][k].get("move") or rv["ops"][k].get("copy")
    if src is None or src["p"]:
        return None
    vs = _variant_sites(tr, pb, graph(pb), src["l"], (bb, idx))
    return (pb, vs) if vs else None


_TRY_LABELS = {"Continue": ("Ok", "Some"), "Break": ("Err", "None")}


def _variant_sites(tr, body, g, local, loc):
    """[(bb, label as seen by the switch)] when every definition reaching the switched-on local builds a known variant
    (directly, through local copies, or through `Try::branch` of such a value); None otherwise"""
    def sites_of(local, loc, depth):
        if depth > 5:
            return None
        out = []
        ds = g.reaching(local, loc)
        if not ds:
            return None
        for d in ds:
            (_l, bb, idx, kind, proj, data, _n) = d
            if proj:
                return None
            if kind == "assign" and data["k"] == "agg" and data.get("ak") == "adt" and data.get("variant") is not None:
                out.append((bb, data["variant"]))
            elif kind == "assign" and data["k"] == "use":
                src = data["op"].get("move") or data["op"].get("copy")
                if src is None or src["p"]:
                    return None
                sub = sites_of(src["l"], (bb, idx), depth + 1)
                if sub is None:
                    return None
                out += sub
            elif kind == "call":
                t = g.term(bb)
                fn = t["func"].get("const", {}).get("fn") if isinstance(t.get("func"), dict) else None
                if not fn or fn.get("def") != TRY_BRANCH or not t["args"]:
                    return None
                src = t["args"][0].get("move") or t["args"][0].get("copy")
                if src is None or src["p"]:
                    return None
                sub = sites_of(src["l"], (bb, len(g.stmts(bb))), depth + 1)
                if sub is None:
                    return None
                for (b2, v2) in sub:
                    lab = [k for k, vs in _TRY_LABELS.items() if v2 in vs]
                    if not lab:
                        return None
                    out.append((b2, lab[0]))
            else:
                return None
        return out
    return sites_of(local, loc, 0)


def optionlike_role(facts, body, e):
    """'none' | 'some' | None for a dominating enum edge: `None` / `Some` of an Option, or the unit / payload variant of
    a workspace enum shaped like one (`enum WaitPolicy { Unbounded, AtMost(Duration) }`, `Claim::{Released, Held(k)}`)"""
    if e.get("kind") != "enum":
        return None
    if e["label"] == "None":
        return "none"
    if e["label"] == "Some":
        return "some"
    rv = getattr(e.get("sw"), "rv", None) or {}
    ty = body.types[rv["ty"]] if isinstance(rv.get("ty"), int) else None
    adt = facts.adt(ty.get("def")) if ty and ty.get("def") else None
    if adt is None or len(adt.get("variants", [])) != 2:
        return None
    units = [v for v in adt["variants"] if not v["fields"]]
    pays = [v for v in adt["variants"] if len(v["fields"]) == 1]
    if len(units) != 1 or len(pays) != 1:
        return None
    return "none" if e["label"] == units[0]["name"] else "some" if e["label"] == pays[0]["name"] else None


def enum_edges(tr, body, pred):
    """[(bb, target, label)] of every enum-switch edge in `body` whose scrutinee node satisfies pred(node)"""
    g = graph(body)
    out = []
    for bb in range(g.n):
        sw = g.switch(bb)
        if sw is None or sw.kind != "enum" or not g.live(bb):
            continue
        node = peel(tr.expand(tr.place(body, sw.place, sw.defloc)))
        if not pred(node):
            continue
        for nm, tgt in sw.variants.items():
            out.append((bb, tgt, nm))
    return out


def only_via(g, site_bb, edges, kinds=(N,)):
    """every feasible path from the entry to site_bb takes one of `edges` [(bb, target)] (path form of edge dominance:
    it survives the join an inlined helper's return introduces, because the feasibility tags carry the outcome over it)"""
    return bool(edges) and site_bb not in g.reach([0], kinds=kinds, avoid_edges=[(a, b) for (a, b) in edges])


TRY_BRANCH = "core::ops::try_trait::Try::branch"
PASS_CALLS = ("core::ops::deref::Deref::deref", "core::ops::deref::DerefMut::deref_mut", "core::convert::AsRef::as_ref",
              "core::result::Result::<T, E>::map_err", "core::task::poll::Poll::<core::result::Result<T, E>>::map_err",
              "core::result::Result::<T, E>::ok", "core::ops::try_trait::FromResidual::from_residual")


def derives(tr, node, V, depth=0, variants=("Ready", "Ok", "Continue", "Some"), success=False):
    """node is obtained from node V through success-payload projections, `?`, refs and casts.
    success=True: the caller only cares about the success side of `node` (it stands on an Ok / Some / Continue edge, or
    projected a success payload): an alternative built as a failure variant cannot be where that comes from"""
    if depth > 14:
        return False
    if node == V:
        return True
    k = node[0]
    if k == "phi":
        # `r.map_err(f)` written out is `match r { Ok(v) => Ok(v), Err(e) => Err(f(e)) }`
        alts = ([x for x in node[1] if not _is_failure_agg(tr, x)] or list(node[1])) if success else list(node[1])
        return bool(alts) and all(derives(tr, x, V, depth + 1, variants, success) for x in alts)
    if k in ("ref", "deref"):
        return derives(tr, node[1], V, depth + 1, variants, success)
    if k == "cast":
        return derives(tr, node[2], V, depth + 1, variants, success)
    if k == "downcast":
        if variants is None or node[2] in variants:
            return derives(tr, node[1], V, depth + 1, variants, success or node[2] in ("Ready", "Ok", "Continue", "Some"))
        return False
    if k == "field":
        return derives(tr, node[1], V, depth + 1, variants, success)
    if k == "call":
        c = tr.call_of(node)
        if c.def_ == TRY_BRANCH or c.def_ in PASS_CALLS:
            return derives(tr, tr.expand(tr.operand(c.g.b, c.args[0], c.loc)), V, depth + 1, variants, success)
    if k == "agg":
        # re-wrapped payload (a helper returning Ok(x) / Ready(x) built from the derived value)
        b2, rv = tr.agg_of(node)
        if (variants is None or rv.get("variant") in variants) and rv.get("variant") is not None and len(rv["ops"]) == 1:
            return derives(tr, tr.expand(tr.operand(b2, rv["ops"][0], (node[3], node[4]))), V, depth + 1, variants, success)
    return False


def _is_failure_agg(tr, node):
    node = peel(node)
    if node[0] != "agg":
        return False
    _b, rv = tr.agg_of(node)
    return rv.get("ak") == "adt" and rv.get("variant") in ("Err", "None", "Break", "Pending") and \
        (rv.get("def") or "").startswith(("core::result::Result", "core::option::Option", "core::ops::control_flow::ControlFlow", "core::task::poll::Poll"))


def await_node(body, a):
    """the node standing for `x.await`'s poll result"""
    return ("call", body.crate.name, body.def_, a.poll_bb)


def awaited_call(tr, body, a):
    """Call object of the awaited expression if it is a direct call result, else None"""
    g = graph(body)
    n = peel(tr.expand(tr.operand(body, a.awaitee, (a.into_bb, len(g.stmts(a.into_bb))))))
    if n[0] == "call":
        return tr.call_of(n)
    return None


def awaited_calls(tr, body, a):
    """Call objects the awaited expression may be (one per alternative when the future is chosen by a branch, e.g.
    `match deadline { Some(d) => timeout_at(d, f), None => timeout(limit, f) }`); [] when an alternative is not a call result"""
    g = graph(body)
    n = tr.expand(tr.operand(body, a.awaitee, (a.into_bb, len(g.stmts(a.into_bb)))))
    out = []
    for lf in leaves(n):
        lf = peel(lf)
        if lf[0] != "call":
            return []
        out.append(tr.call_of(lf))
    return out


def deadline_durations(tr, node):
    """node is an Instant deadline `now() + d` / `now().checked_add(d)` -> Some(deadline) on every alternative:
    the list of the d nodes; None otherwise"""
    out = []
    for lf in leaves(tr.expand(node, upvars=True)):
        lf = peel(lf)
        while lf[0] in ("field", "downcast"):
            lf = peel(lf[1])
        if lf[0] != "call":
            return None
        c2 = tr.call_of(lf)
        if c2.name not in ("checked_add", "add") or len(c2.args) != 2:
            return None
        a0 = tr.expand(tr.operand(c2.g.b, c2.args[0], c2.loc), upvars=True)
        if not calls_in(tr, a0, lambda x: x.name == "now"):
            return None
        out.append(tr.expand(tr.operand(c2.g.b, c2.args[1], c2.loc), upvars=True))
    return out or None


def zero_duration_on(tr, edges, V):
    """do the dominating `edges` establish that the Duration derived from V is zero?
    idioms: pattern `Duration::ZERO` (secs == 0 and nanos == 0), is_zero(), == Duration::ZERO"""
    secs = nanos = False
    for e in edges:
        n = e["node"]
        if e["kind"] == "int" and e["label"] == "0" and n[0] == "field" and n[2] == "secs" and derives(tr, n, V):
            secs = True
        if e["kind"] == "bool":
            c = cmp_on_edge(tr, e)
            if c and c[0] == "Eq":
                for (x, y) in ((c[1], c[2]), (c[2], c[1])):
                    xs = x
                    while xs[0] in ("cast", "field") and not (xs[0] == "field" and xs[2] == "nanos"):
                        xs = peel(xs[2] if xs[0] == "cast" else xs[1])
                    if xs[0] == "field" and xs[2] == "nanos" and derives(tr, xs, V) and _is_zero_const(y):
                        nanos = True
                    if derives(tr, x, V) and y[0] == "const" and (y[2] or "").endswith("Duration::ZERO"):
                        secs = nanos = True
            if e["label"] == "true" and n[0] == "call":
                cc = tr.call_of(n)
                if cc.name == "is_zero" and derives(tr, peel(tr.expand(tr.operand(cc.g.b, cc.args[0], cc.loc))), V):
                    secs = nanos = True
    return secs and nanos


def _is_zero_const(n):
    n = peel(n)
    while n[0] == "cast":
        n = peel(n[2])
    return n[0] == "const" and (n[3] == "0" or (n[1] or "").startswith("0_"))


def normalise_cmp(tr, node, _depth=0):
    """boolean node -> (op, A, B) with op in Lt/Le/Gt/Ge/Eq/Ne, looking through PartialOrd/PartialEq
    method calls (Duration, Instant, ...) and Not; returns None if not a comparison"""
    neg = False
    node = peel(node)
    while node[0] == "unop" and node[1] == "Not":
        neg = not neg
        node = peel(node[2])
    op = a = b = None
    if node[0] == "binop" and node[1] in ("Lt", "Le", "Gt", "Ge", "Eq", "Ne"):
        op, a, b = node[1], peel(node[2]), peel(node[3])
    elif node[0] == "call":
        c = tr.call_of(node)
        m = {"lt": "Lt", "le": "Le", "gt": "Gt", "ge": "Ge", "eq": "Eq", "ne": "Ne"}.get(c.name)
        if m and c.trait in ("core::cmp::PartialOrd", "core::cmp::PartialEq") and len(c.args) == 2:
            op = m
            a = peel(tr.expand(tr.operand(c.g.b, c.args[0], c.loc)))
            b = peel(tr.expand(tr.operand(c.g.b, c.args[1], c.loc)))
    if op is None and node[0] == "call" and _depth < 2:
        # a workspace-local bool helper whose only returned value is a comparison (`fn is_full(&self) -> bool
        # { self.len() >= self.capacity }`): the comparison, with the helper's parameters standing for the arguments
        hb = tr.local_sync_callee(node)
        if hb is not None and hb.local_ty(0)["s"] == "bool":
            rets = ret_assigns(tr, hb)
            if len(rets) == 1:
                with tr.bound(hb, node):
                    inner = normalise_cmp(tr, tr.expand(rets[0][2]), _depth + 1)
                if inner is not None:
                    op, a, b = inner
    if op is None:
        return None
    if neg:
        op = {"Lt": "Ge", "Le": "Gt", "Gt": "Le", "Ge": "Lt", "Eq": "Ne", "Ne": "Eq"}[op]
    return (op, a, b)


def guard_holds(op_label_pairs):
    pass


def cmp_on_edge(tr, edge):
    """comparison that holds on a dominating bool edge (negated on the false edge)"""
    c = normalise_cmp(tr, edge["node"])
    if c is None:
        return None
    op, a, b = c
    if edge["label"] == "false":
        op = {"Lt": "Ge", "Le": "Gt", "Gt": "Le", "Ge": "Lt", "Eq": "Ne", "Ne": "Eq"}[op]
    return (op, a, b)


def effective_predicate(tr, facts, node, names, depth=0):
    """node is the bool result of `names`-named call, directly or through a workspace-local bool helper whose
    returned value is that call's result on some paths and the constant `true` on the others
    -> (name, call-node of the underlying predicate) or None"""
    node = peel(node)
    if node[0] != "call" or depth > 2:
        return None
    c = tr.call_of(node)
    if c.name in names:
        return (c.name, node)
    for d in c.targets_def():
        hb = facts.bodies.get(d)
        if hb is None or hb.kind != "fn" or hb.local_ty(0)["s"] != "bool":
            continue
        found = None
        ok = True
        for (_i, _j, n) in ret_assigns(tr, hb):
            for lf in leaves(n):
                lf = peel(lf)
                if lf[0] == "const":
                    if lf[1] != "true":
                        ok = False
                    continue
                r = effective_predicate(tr, facts, lf, names, depth + 1)
                if r is None:
                    ok = False
                else:
                    found = r
        if ok and found:
            return found
    return None


def field_name(node):
    """last field name of a (possibly wrapped) field node"""
    node = peel(node)
    while node[0] in ("downcast",):
        node = peel(node[1])
    if node[0] == "field":
        return node[2]
    return None


def field_provenance(tr, adt, name, depth=0, seen=None):
    """names of the fields (of any workspace struct) whose value a struct field is initialised from, following
    constructor aggregates and constructor parameters back to their call sites: a private field that merely
    stores a public configuration option carries that option's name, whatever the private field is called"""
    facts = tr.facts
    cache = getattr(facts, "_prov_cache", None)
    if cache is None:
        cache = facts._prov_cache = {}
    key = (adt, name)
    if key in cache:
        return cache[key]
    if seen is None:
        seen = set()
    out = {name}
    if depth > 3 or key in seen or not adt or facts.adt(adt) is None:
        return out
    seen.add(key)
    cache[key] = out
    # only immutable configuration-like fields: a field assigned after construction, or with interior mutability,
    # holds a *state*, whose initial value says nothing about what it holds later
    fty = ""
    for a_ in [facts.adt(adt)]:
        for v_ in a_["variants"]:
            for f_ in v_["fields"]:
                if f_["name"] == name:
                    for cr in facts.crates.values():
                        if adt in cr.adts:
                            fty = cr.types[f_["ty"]]["s"]
    if any(k in fty for k in ("Atomic", "Mutex", "RwLock", "Cell<", "Semaphore")):
        return out
    ws = field_writes(facts, adt, name)
    # a builder's field is written by its public setter(s): the option is known to users by the setter's name, whatever
    # the field is called and however the value is wrapped (`fn max_wait_duration(mut self, d) { self.wait = AtMost(d) }`)
    setters = [b_ for (b_, _i, _j, _s) in ws if b_.kind == "fn" and b_.j.get("vis") == "pub" and b_.impl and not b_.impl.get("trait")
               and b_.types[b_.impl["self_ty"]].get("def") == adt and b_.arg_count >= 2]
    if ws and not setters:
        return out
    for b_ in setters:
        out.add(b_.name)
    for (ab, i, j, rv) in agg_sites(facts, adt):
        if name not in rv["fields"]:
            continue
        v = tr.expand(tr.operand(ab, rv["ops"][rv["fields"].index(name)], (i, j)), upvars=True, params=True)
        # value-origin walk that stops at a field read (its base is the *container*, not the value)
        work, done = [(v, 0)], set()
        while work and len(done) < 120:
            x, d0 = work.pop()
            x = peel(x)
            if x in done:
                continue
            done.add(x)
            if x[0] == "field":
                if x[3] and isinstance(x[2], str) and not x[2].isdigit() and (x[3], x[2]) != key:
                    out |= field_provenance(tr, x[3], x[2], depth + 1, seen)
                elif isinstance(x[2], str) and not x[2].isdigit():
                    out.add(x[2])
                else:
                    work.append((x[1], d0))        # tuple projection: keep following the value
            elif x[0] in ("param", "upvar"):
                if d0 < 4:
                    e = tr.expand(x, upvars=True, params=True)
                    if e != x:
                        work.append((e, d0 + 1))
            elif x[0] == "call":
                c = tr.call_of(x)
                # value-preserving calls only (clone / conversions / Option plumbing / min-max clamps)
                if c.name in ("clone", "into", "from", "unwrap_or", "unwrap_or_default", "unwrap", "expect", "max", "min", "clamp", "deref",
                              "as_ref", "as_mut", "borrow", "to_owned", "new", "some", "take", "copied", "cloned", "map") and \
                        not any(d in facts.bodies for d in c.targets_def()):
                    for ch in tr.children(x):
                        work.append((ch, d0))
            elif x[0] == "agg":
                # Some(x) / tuples carry the value; a workspace struct literal is a *container* of other values
                rv2 = tr.agg_of(x)[1]
                if not (rv2.get("ak") == "adt" and facts.adt(rv2.get("def")) is not None):
                    for ch in tr.children(x):
                        work.append((ch, d0))
            else:
                for ch in tr.children(x):
                    work.append((ch, d0))
    cache[key] = out
    return out


def mentions_field(tr, node, name, limit=200):
    """the expression DAG of `node` reads a field called `name`, or a field whose provenance (see
    field_provenance) is a field called `name`"""
    for x in tr.walk(node, limit=limit):
        if x[0] == "field":
            if x[2] == name:
                return True
            if x[3] and isinstance(x[2], str) and name in field_provenance(tr, x[3], x[2]):
                return True
    return False


def calls_in(tr, node, pred, limit=300):
    out = []
    for x in tr.walk(node, limit=limit):
        if x[0] == "call":
            c = tr.call_of(x)
            if pred(c):
                out.append(c)
    return out


def ret_assigns(tr, body):
    """[(bb, idx, node)] for every whole assignment to _0 (statements and call destinations)"""
    out = []
    for i, blk in enumerate(body.blocks):
        for j, s in enumerate(blk["stmts"]):
            if s["k"] == "assign" and s["lhs"]["l"] == 0 and not s["lhs"]["p"]:
                rv = s["rv"]
                if rv["k"] == "use":
                    sites = _value_sites(tr, body, rv["op"], (i, j))
                    if sites is not None and (len(sites) > 1 or ((rv["op"].get("move") or rv["op"].get("copy") or {}).get("p") and len(sites) == 1)):
                        # `let r = if .. { a } else { b }; r`: one entry per place where the value is produced, so that
                        # guards are looked for where they apply
                        out += sites
                    else:
                        out.append((i, j, tr.expand(tr.operand(body, rv["op"], (i, j)))))
                elif rv["k"] == "agg":
                    out.append((i, j, ("agg", body.crate.name, body.def_, i, j)))
                else:
                    out.append((i, j, tr.place(body, {"l": 0, "p": []}, (i, j + 1))))
        t = blk["term"]
        if t["k"] == "call" and t["dest"]["l"] == 0 and not t["dest"]["p"]:
            out.append((i, len(blk["stmts"]), ("call", body.crate.name, body.def_, i)))
    return out


def _value_sites(tr, body, op, loc, depth=0):
    """[(bb, idx, node)] of the whole-local definitions a copied/moved local's value comes from, following
    local-to-local copies; None when the operand is not a plain local or a definition is partial"""
    pl = op.get("copy") or op.get("move")
    if pl is None:
        return None
    g = graph(body)
    if pl["p"]:
        # `(x as Variant).0` where every definition of x is `Variant(y)`: the value is y (an inlined helper's
        # `return v` arrives as Poll::Ready(v) / Ok(v) and is unpacked again)
        p_ = pl["p"]
        if len(p_) == 2 and isinstance(p_[0], dict) and "downcast" in p_[0] and isinstance(p_[1], dict) and p_[1].get("f") == 0 and depth < 6:
            ds = g.reaching(pl["l"], loc)
            # definitions that build another variant cannot be where `(x as V).0` comes from (`break None` next to `break Some(r)`)
            if ds and all(d[3] == "assign" and not d[4] and d[5]["k"] == "agg" and d[5].get("variant") is not None for d in ds):
                ds = [d for d in ds if d[5].get("variant") == p_[0].get("v")]
            if ds and all(d[3] == "assign" and not d[4] and d[5]["k"] == "agg" and d[5].get("variant") == p_[0].get("v") and len(d[5]["ops"]) == 1 for d in ds):
                out = []
                for d in ds:
                    sub = _value_sites(tr, body, d[5]["ops"][0], (d[1], d[2]), depth + 1)
                    if sub is None:
                        return None
                    out += sub
                return out
        return None
    out = []
    for d in g.reaching(pl["l"], loc):
        (_l, bb, idx, kind, proj, data, _n) = d
        if proj or kind not in ("assign", "call"):
            return None
        if kind == "assign" and data["k"] == "use" and depth < 6:
            sub = _value_sites(tr, body, data["op"], (bb, idx), depth + 1)
            if sub is not None:
                out += sub
                continue
        if kind == "assign" and data["k"] == "agg":
            out.append((bb, idx, ("agg", body.crate.name, body.def_, bb, idx)))
        elif kind == "call":
            out.append((bb, idx, ("call", body.crate.name, body.def_, bb)))
        else:
            out.append((bb, idx, tr.expand(tr._defnode(body, g, d, 0))))
    return out


def field_writes(facts, adt_def, field):
    """assignments `(..).field = rv` through any projection path whose last ADT is adt_def
    -> [(body, bb, idx, stmt)]"""
    idx = getattr(facts, "_fw_index", None)
    if idx is None:
        idx = {}
        absorbed = getattr(facts, "absorbed", None)
        for b in facts.all_bodies():
            if absorbed is not None and absorbed(b):
                continue        # a helper inlined at every call site is represented by its copies
            for i, blk in enumerate(b.blocks):
                for j, s in enumerate(blk["stmts"]):
                    if s["k"] != "assign":
                        continue
                    p = s["lhs"]["p"]
                    if not p:
                        continue
                    last = p[-1]
                    if isinstance(last, dict) and "n" in last and last.get("adt"):
                        idx.setdefault((last["adt"], last["n"]), []).append((b, i, j, s))
        facts._fw_index = idx
    return list(idx.get((adt_def, field), []))


def agg_sites(facts, adt_def, variant=None):
    """aggregates constructing adt_def -> [(body, bb, idx, rv)]"""
    idx = getattr(facts, "_agg_index", None)
    if idx is None:
        idx = {}
        for b in facts.all_bodies():
            for i, blk in enumerate(b.blocks):
                for j, s in enumerate(blk["stmts"]):
                    if s["k"] == "assign" and s["rv"]["k"] == "agg" and s["rv"]["ak"] == "adt":
                        idx.setdefault(s["rv"]["def"], []).append((b, i, j, s["rv"]))
        facts._agg_index = idx
    out = idx.get(adt_def, [])
    if variant is not None:
        out = [x for x in out if x[3]["variant"] == variant]
    return out


def check_share(facts, tr, rep, rule, adt_def, only_fields=None, _depth=0):
    """T-SHARE: every Clone impl of adt_def takes each Arc field from Arc::clone of the same field of self"""
    adt = facts.adt(adt_def)
    if adt is None:
        rep.anchor_missing(adt_def)
        return 0
    crate = [c for c in facts.crates.values() if adt_def in c.adts][0]
    arc_fields = [f["name"] for f in adt["variants"][0]["fields"]
                  if crate.types[f["ty"]]["s"].startswith("alloc::sync::Arc<") and (only_fields is None or f["name"] in only_fields)]
    n = 0
    # a shared handle is fixed at construction: assigning the field later detaches this instance from its clones
    for fname in arc_fields:
        for k, (wb, i, j, s_) in enumerate(field_writes(facts, adt_def, fname)):
            rep.saw(wb)
            rep.ob(rule, "%s|%s|reassign.%s#%d" % (wb.crate.name, adt_def, fname, k), False, where(wb, i, j),
                   "%s.%s (state shared by all clones) is assigned after construction in %s: this instance stops sharing the state "
                   "with its clones and with calls in flight" % (adt_def.split("::")[-1], fname, wb.def_.split("::")[-1]))
    for im in crate.impls:
        if im.get("trait") != CLONE.rsplit("::", 1)[0]:
            continue
        st = crate.types[im["self_ty"]]
        if st.get("def") != adt_def:
            continue
        for it in im["items"]:
            b = facts.bodies.get(it["def"])
            if b is None or it["name"] != "clone":
                continue
            rep.saw(b)
            for (ab, i, j, rv) in agg_sites(facts, adt_def):
                if ab is not b:
                    continue
                for fname in arc_fields:
                    if fname not in rv["fields"]:
                        continue
                    n += 1
                    op = rv["ops"][rv["fields"].index(fname)]
                    node = peel(tr.expand(tr.operand(b, op, (i, j))))
                    ok = False
                    desc = show(node)
                    if node[0] == "call":
                        c = tr.call_of(node)
                        if c.def_ == CLONE:
                            src = peel(tr.expand(tr.operand(c.g.b, c.args[0], c.loc)))
                            ok = src[0] == "field" and src[2] == fname and peel(src[1])[0] == "param"
                            desc = "clone of " + show(src)
                    rep.ob(rule, "%s|%s|clone.%s" % (b.crate.name, adt_def, fname), ok, where(b, i, j),
                           "Clone shares %s.%s (Arc::clone of self.%s)" % (adt_def.split("::")[-1], fname, fname) if ok else
                           "Clone of %s builds field %s from %s, not from Arc::clone(&self.%s): clones would not share state"
                           % (adt_def.split("::")[-1], fname, desc, fname))
    # shared handles grouped into a private struct held by value (`admission: Admission { permits: Arc<..>, config: Arc<..> }`):
    # the outer Clone clones that field of self, and the struct's own Clone shares its handles
    if _depth < 2 and only_fields is None:
        for f in adt["variants"][0]["fields"]:
            fd = crate.types[f["ty"]].get("def")
            if not fd or facts.adt(fd) is None or not fd.startswith(crate.name) or fd == adt_def:
                continue
            if not any(im2.get("trait") == CLONE.rsplit("::", 1)[0] and crate.types[im2["self_ty"]].get("def") == fd for im2 in crate.impls):
                continue
            sub_has_arc = any(crate.types[f2["ty"]]["s"].startswith("alloc::sync::Arc<") for f2 in facts.adt(fd)["variants"][0]["fields"])
            if not sub_has_arc:
                continue
            outer_ok = False
            for im in crate.impls:
                if im.get("trait") != CLONE.rsplit("::", 1)[0] or crate.types[im["self_ty"]].get("def") != adt_def:
                    continue
                for it in im["items"]:
                    b = facts.bodies.get(it["def"])
                    if b is None or it["name"] != "clone":
                        continue
                    for (ab, i, j, rv) in agg_sites(facts, adt_def):
                        if ab is b and f["name"] in rv["fields"]:
                            node = peel(tr.expand(tr.operand(b, rv["ops"][rv["fields"].index(f["name"])], (i, j))))
                            if node[0] == "call" and tr.call_of(node).def_ == CLONE:
                                c = tr.call_of(node)
                                src = peel(tr.expand(tr.operand(c.g.b, c.args[0], c.loc)))
                                outer_ok = src[0] == "field" and src[2] == f["name"] and peel(src[1])[0] == "param"
            sub = check_share(facts, tr, rep, rule, fd, _depth=_depth + 1)
            if sub:
                rep.ob(rule, "%s|%s|clone.%s" % (crate.name, adt_def, f["name"]), outer_ok, "-",
                       "Clone clones self.%s, whose own Clone shares its handles" % f["name"] if outer_ok else
                       "Clone of %s does not build %s from a clone of self.%s" % (adt_def.split("::")[-1], f["name"], f["name"]))
                n += sub
    return n


# ---------------------------------------------------------------------------------------------------------------
# T-NO-PANIC-TIME: the operators on Instant / Duration (`+ - * += -= *=`) panic on overflow, while the methods the
# code base otherwise uses (checked_*, saturating_*, tokio's relative sleep/timeout) do not.  A duration that comes
# from configuration or from a per-request function may be Duration::MAX ("no limit"), so an operator applied to a
# value that is not bounded by a constant turns such a configuration into a panic in the call path.
_ARITH_TRAITS = ("core::ops::arith::Add", "core::ops::arith::Sub", "core::ops::arith::Mul", "core::ops::arith::AddAssign",
                 "core::ops::arith::SubAssign", "core::ops::arith::MulAssign")


def _const_bounded(tr, node, depth=0):
    """every origin of `node` is a constant, a constructor applied to constants, or capped by one (`min(const)`)"""
    if depth > 6:
        return False
    for lf in leaves(node):
        lf = peel(lf)
        if lf[0] in ("const", "fnconst"):
            continue
        if lf[0] == "call":
            c = tr.call_of(lf)
            args = [tr.expand(tr.operand(c.g.b, a, c.loc)) for a in c.args]
            if c.name in ("min", "clamp") and any(_const_bounded(tr, a, depth + 1) for a in args[1:]):
                continue
            if c.name in ("now", "elapsed"):
                continue           # a clock reading is not configuration
            if c.name.startswith("from_") and args and all(_const_bounded(tr, a, depth + 1) for a in args):
                continue
            return False
        if lf[0] in ("ref", "deref", "cast"):
            if _const_bounded(tr, lf[2] if lf[0] == "cast" else lf[1], depth + 1):
                continue
        # arithmetic on constants written out (`86400 * 365 * 30` with overflow checks is a chain of checked operations)
        if lf[0] == "field" and peel(lf[1])[0] == "binop":
            lf = peel(lf[1])
        if lf[0] == "binop" and _const_bounded(tr, lf[2], depth + 1) and _const_bounded(tr, lf[3], depth + 1):
            continue
        return False
    return True


def check_no_panicking_time_arith(facts, tr, rep, rule, bodies):
    """one failed obligation per panicking Instant/Duration operator in `bodies` with an operand that is not bounded
    by a constant; returns the number of operator calls examined"""
    n = 0
    for b in bodies:
        for c in graph(b).calls():
            if c.trait not in _ARITH_TRAITS or c.fn is None or c.fn.get("self_ty") is None:
                continue
            sty = b.types[c.fn["self_ty"]]["s"] if isinstance(c.fn["self_ty"], int) else str(c.fn["self_ty"])
            if not (sty.endswith("Instant") or sty.endswith("Duration") or sty.endswith("SystemTime")):
                continue
            # `Instant - Instant` saturates (it is duration_since); only `- Duration` can panic
            targs = c.fn.get("args") or []
            if c.trait.endswith("Sub") and len(targs) > 1 and isinstance(targs[1], int) and b.types[targs[1]]["s"].endswith("Instant"):
                continue
            n += 1
            ops = [tr.expand(tr.operand(b, a, c.loc), upvars=True) for a in c.args]
            # the Instant side is a clock reading; the Duration side decides
            unbounded = [o for o in ops if not _const_bounded(tr, o)]
            # `start + x.duration_since(start)` is max(x, start): it cannot overflow whatever the two instants are
            if unbounded and c.trait.endswith(("Add", "AddAssign")) and len(c.args) == 2:
                def _fld(n_):
                    n_ = peel(n_)
                    while n_[0] in ("ref", "deref"):
                        n_ = peel(n_[1])
                    return (n_[2], n_[3]) if n_[0] == "field" else None
                base = _fld(ops[0])
                dn = peel(tr.expand(tr.operand(b, c.args[1], c.loc), upvars=True, params=True))
                alts = [peel(x) for x in leaves(dn)]
                if base is not None and alts and all(x[0] == "call" and tr.call_of(x).def_ in _SINCE and len(tr.call_of(x).args) == 2 and
                                                     _fld(tr.expand(tr.operand(tr.call_of(x).g.b, tr.call_of(x).args[1], tr.call_of(x).loc))) == base for x in alts):
                    unbounded = []
            rep.ob(rule, skey(b, "time-op#%d" % ordinal(graph(b), c)), not unbounded, c.where(),
                   "`%s` is applied to values bounded by constants" % c.path.split("::")[-1] if not unbounded else
                   "`%s` panics on overflow and its operand %s is not bounded by a constant: a very long configured or per-request "
                   "duration (Duration::MAX for 'no limit') makes the call panic instead of resolving; use checked_/saturating_ "
                   "arithmetic or the relative tokio timers" % (c.resolved or c.path, show(peel(unbounded[0]))[:80]))
    return n


# ---------------------------------------------------------------------------------------------------------------
# "at least `dur` has passed since `start`" in the forms the guard may be written in
_ELAPSED = ("std::time::Instant::elapsed", "tokio::time::instant::Instant::elapsed")
_SINCE = ("std::time::Instant::duration_since", "std::time::Instant::saturating_duration_since",
          "tokio::time::instant::Instant::duration_since", "tokio::time::instant::Instant::saturating_duration_since")
_NOW = ("std::time::Instant::now", "tokio::time::instant::Instant::now")


def elapsed_form(tr, cmp):
    """cmp = (op, x, y) from normalise_cmp/cmp_on_edge.  Returns (start, dur) when it states `time since start >= dur`:
         start.elapsed() >= dur | now.duration_since(start) >= dur | now >= start + dur | now >= start.checked_add(dur)?
       (and the mirrored `<=` forms); else None"""
    if cmp is None:
        return None
    op, x, y = cmp
    if op in ("Le", "Lt"):
        op, x, y = {"Le": "Ge", "Lt": "Gt"}[op], y, x
    if op not in ("Ge", "Gt"):
        return None
    el = calls_in(tr, x, lambda c: c.def_ in _ELAPSED or c.def_ in _SINCE)
    if el:
        c = el[0]
        a = [tr.expand(tr.operand(c.g.b, o, c.loc)) for o in c.args]
        return (a[0] if c.def_ in _ELAPSED else a[1], y) if a else None
    nowc = calls_in(tr, x, lambda c: c.def_ in _NOW)
    if nowc:
        adds = calls_in(tr, y, lambda c: c.name in ("checked_add", "add") and len(c.args) == 2)
        if adds:
            c = adds[0]
            a = [tr.expand(tr.operand(c.g.b, o, c.loc)) for o in c.args]
            return (a[0], a[1])
    return None


def check_clone_variants(facts, tr, rep, rule, crate_names=None, only_suffix=None):
    """hand-written `Clone` impls of workspace enums map every variant to the same variant (a clone that changes the
    variant changes what the value means for whoever receives the copy — e.g. every coalesced waiter gets a clone of
    the leader's error).  Returns the number of clone arms examined."""
    n = 0
    for cn, c in facts.crates.items():
        if crate_names is not None and cn not in crate_names:
            continue
        for im in c.impls:
            if im.get("trait") != CLONE.rsplit("::", 1)[0]:
                continue
            st = c.types[im["self_ty"]]
            adt = facts.adt(st.get("def") or "")
            if adt is None or adt["kind"] != "enum":
                continue
            if only_suffix and not st["def"].endswith(only_suffix):
                continue
            for it in im["items"]:
                b = facts.bodies.get(it["def"])
                if b is None or it["name"] != "clone":
                    continue
                if b.span.get("exp") or (b.j.get("span") or {}).get("exp"):
                    continue          # #[derive(Clone)]
                g = graph(b)
                for (i, j, node) in ret_assigns(tr, b):
                    for lf in leaves(node):
                        lf = peel(lf)
                        if lf[0] != "agg":
                            continue
                        _b2, rv = tr.agg_of(lf)
                        if rv.get("def") != st["def"]:
                            continue
                        arms = [e["label"] for e in dominating_edges(tr, b, lf[3]) if e["kind"] == "enum" and
                                peel(e["node"])[0] in ("param", "deref") and e["label"] in [v["name"] for v in adt["variants"]]]
                        if not arms:
                            # built after the arms merged (`A(e) | B(e) => A(..)`): one variant for several sources
                            if len(adt["variants"]) > 1:
                                n += 1
                                rep.saw(b)
                                rep.ob(rule, skey(b, "clone-merged.%s" % rv.get("variant")), False, g.where(lf[3], lf[4]),
                                       "clone of %s produces the variant %s whatever the variant of the original is: every holder of a copy "
                                       "(e.g. a coalesced waiter) can see a different outcome than the original"
                                       % (st["def"].split("::")[-1], rv.get("variant")))
                            continue
                        n += 1
                        rep.saw(b)
                        ok = arms[-1] == rv.get("variant")
                        rep.ob(rule, skey(b, "clone-arm.%s" % arms[-1]), ok, g.where(lf[3], lf[4]),
                               "clone of %s::%s is %s::%s" % (st["def"].split("::")[-1], arms[-1], st["def"].split("::")[-1], rv.get("variant")) if ok else
                               "clone of %s::%s produces %s::%s: every holder of a copy (e.g. a coalesced waiter) sees a different outcome than "
                               "the original" % (st["def"].split("::")[-1], arms[-1], st["def"].split("::")[-1], rv.get("variant")))
    return n


def outcome_reach(g, a, tag, kinds=(N,)):
    """blocks reachable after the await `a` completed with the outcome `tag` (a nested variant tag such as
    ('Ok', ('Err', None)) for Ok(Err(_))): the poll result is assumed to be Ready(tag) and infeasible arms of every
    later match on the value (however it is moved, re-wrapped or sent through `?`) are not followed"""
    if a.ready_bb is None or a.poll_local is None:
        return set()
    sw_bb = g.term(a.poll_bb)["target"]
    start = a.ready_bb
    return g.reach([start], kinds=kinds, env0={a.poll_local: ("Ready", tag)})


def state_adts(facts, crate, adt_def):
    """adt_def and the structs of the same crate it stores (transitively) in its fields: a state type that groups part
    of its bookkeeping in a private struct (`self.buckets.current`) is still one state"""
    c = crate if hasattr(crate, "adts") else facts.crates[crate]
    out, todo = set(), [adt_def]
    while todo:
        a = todo.pop()
        if a in out or a not in c.adts:
            continue
        out.add(a)
        for v in c.adts[a].get("variants", []):
            for fl in v.get("fields", []):
                ts = c.types[fl["ty"]]["s"]
                for d in c.adts:
                    if d not in out and d.startswith(c.name) and re.search(r"(^|[^\w:])" + re.escape(d) + r"($|[^\w])", ts):
                        todo.append(d)
    return out or {adt_def}


def check_stale_reads(facts, tr, rep, rule, body, adt_def):
    """a named local computed from a field of `self` must not be used after that field has been overwritten on the way
    (`let elapsed = now - self.start; if elapsed >= period { self.start = now; } .. period - elapsed`): the value then
    describes the state before the update.  Judged on the given (inlined) body: definitions of user-named locals whose
    expression reads field F of adt_def; a write to F at W; a use of the local at U; with the definition still reaching U
    along a path through W.  Returns the number of (local, field) pairs examined."""
    g = graph(body)
    n = 0
    writes = {}
    adts = state_adts(facts, body.crate, adt_def)
    for i, blk in enumerate(body.blocks):
        for j, s_ in enumerate(blk["stmts"]):
            if s_["k"] == "assign" and s_["lhs"]["p"]:
                last = s_["lhs"]["p"][-1]
                if isinstance(last, dict) and last.get("adt") in adts and last.get("n"):
                    writes.setdefault(last["n"], []).append((i, j))
    if not writes:
        return 0
    # uses of locals: (local) -> [(bb, idx)]
    uses = {}

    def note(op, loc):
        pl = op.get("copy") or op.get("move") if isinstance(op, dict) else None
        if pl is not None and not pl["p"]:
            uses.setdefault(pl["l"], []).append(loc)
    for i, blk in enumerate(body.blocks):
        for j, s_ in enumerate(blk["stmts"]):
            if s_["k"] != "assign":
                continue
            rv = s_["rv"]
            for o in ([rv["op"]] if rv["k"] in ("use", "cast") else rv.get("ops", []) if rv["k"] == "agg" else [rv.get("a"), rv.get("b")] if rv["k"] in ("binop", "unop") else []):
                if o:
                    note(o, (i, j))
        t = blk["term"]
        if t["k"] == "call":
            for a in t["args"]:
                note(a, (i, len(blk["stmts"])))
    seen_pairs = set()
    for l, us in uses.items():
        if not body.locals[l].get("user") or l <= body.arg_count:
            continue
        for (ub, ui) in us:
            for d in g.reaching(l, (ub, ui)):
                (_l, db, di, kind, proj, data, _n) = d
                if proj or kind not in ("assign", "call"):
                    continue
                node = tr.expand(tr._defnode(body, g, d, 0))
                fields = {x[2] for x in tr.walk(node, limit=80) if x[0] == "field" and x[3] in adts and isinstance(x[2], str)}
                for f in sorted(fields & set(writes)):
                    key = (l, f, db, di)
                    for (wb, wj) in writes[f]:
                        # definition executed before the write, and still the reaching definition at the write
                        if not any(dd[1] == db and dd[2] == di for dd in g.reaching(l, (wb, wj))):
                            continue
                        if (wb, wj) == (db, di):
                            continue
                        # from just after the write to the use without a redefinition of l
                        if not _reaches_unkilled(g, l, (wb, wj + 1), (ub, ui)):
                            continue
                        # a comparison right below the update, on a path where the update always happened, is the update
                        # deciding *how* to proceed from what it measured (`self.start = now; if periods_passed >= 2 { .. }`):
                        # the value is meant to describe the state before; what is looked for is such a value leaving the
                        # update (returned, stored, used where the update may or may not have happened)
                        if ui < len(g.stmts(ub)) and (wb == ub or g.node_dominates(wb, ub)) and _only_compared(g, body, ub, ui):
                            continue
                        # a recorded decision (`let refreshed = elapsed >= period;`) is meant to describe the state before
                        if body.local_ty(l)["s"] == "bool":
                            continue
                        # the write and the use sit on opposite sides of the same recorded decision
                        # (`if refreshed { self.start = now } .. if refreshed { period } else { period - elapsed }`)
                        if _opposite_flags(tr, g, body, wb, ub):
                            continue
                        if (key, wb, wj) in seen_pairs:
                            continue
                        seen_pairs.add((key, wb, wj))
                        n += 1
                        rep.ob(rule, skey(body, "stale.%s.%s@L%d" % (body.local_name(l) or "_%d" % l, f, g.line(db, di))), False, g.where(ub, ui if ui < len(g.stmts(ub)) else None),
                               "`%s` was computed from self.%s (%s) and is used here after self.%s was overwritten (%s): it describes the state before "
                               "the update" % (body.local_name(l) or "_%d" % l, f, g.where(db, di), f, g.where(wb, wj)))
    return n


def _flag_edges(tr, g, body, bb):
    """{(flag local, its single reaching definition): label} for the dominating bool edges of bb that test a local"""
    out = {}
    for e in dominating_edges(tr, body, bb):
        if e["kind"] != "bool":
            continue
        pl = e["sw"].cond.get("copy") or e["sw"].cond.get("move") if isinstance(e["sw"].cond, dict) else None
        if pl is None or pl["p"]:
            continue
        l, loc = pl["l"], (e["bb"], len(g.stmts(e["bb"])))
        for _hop in range(3):
            ds = g.reaching(l, loc)
            if len(ds) != 1:
                l = None
                break
            d = ds[0]
            if body.locals[l].get("user") or d[3] != "assign" or d[5]["k"] != "use":
                break
            src = d[5]["op"].get("copy") or d[5]["op"].get("move")
            if src is None or src["p"]:
                break
            l, loc = src["l"], (d[1], d[2])
        if l is None:
            continue
        ds = g.reaching(l, loc)
        if len(ds) == 1:
            out[(l, ds[0][1], ds[0][2])] = e["label"]
    return out


def _opposite_flags(tr, g, body, bb1, bb2):
    f1, f2 = _flag_edges(tr, g, body, bb1), _flag_edges(tr, g, body, bb2)
    return any(k in f2 and f2[k] != v for k, v in f1.items())


def _only_compared(g, body, bb, idx, depth=0):
    """the statement at (bb, idx) is a comparison, or copies/casts its operand into a compiler temporary that is only
    compared (within the same block)"""
    st = g.stmts(bb)[idx]
    if st["k"] != "assign":
        return False
    rv = st["rv"]
    if rv["k"] == "binop" and rv["op"] in ("Lt", "Le", "Gt", "Ge", "Eq", "Ne"):
        return True
    if rv["k"] not in ("use", "cast") or st["lhs"]["p"] or body.locals[st["lhs"]["l"]].get("user") or depth > 2:
        return False
    t = st["lhs"]["l"]
    found = False
    for j in range(idx + 1, len(g.stmts(bb))):
        s2 = g.stmts(bb)[j]
        if s2["k"] != "assign":
            continue
        ops = [s2["rv"].get("op"), s2["rv"].get("a"), s2["rv"].get("b")] + list(s2["rv"].get("ops", []))
        if any(isinstance(o, dict) and (o.get("copy") or o.get("move") or {}).get("l") == t for o in ops):
            if not _only_compared(g, body, bb, j, depth + 1):
                return False
            found = True
    tm = g.term(bb)
    if tm["k"] == "call" and any((a.get("copy") or a.get("move") or {}).get("l") == t for a in tm["args"]):
        return False
    return found


def _reaches_unkilled(g, local, start, goal):
    """a path from location start=(bb, idx) to goal=(bb, idx) on which `local` is not (wholly) reassigned"""
    (sb, si), (gb, gi) = start, goal

    def scan(bb, lo, hi):
        """statements lo..hi-1 of bb free of a redefinition of local?"""
        for j in range(lo, min(hi, len(g.stmts(bb)))):
            s_ = g.stmts(bb)[j]
            if s_["k"] == "assign" and s_["lhs"]["l"] == local and not s_["lhs"]["p"]:
                return False
        return True
    if sb == gb and si <= gi and scan(sb, si, gi):
        return True
    if not scan(sb, si, 10 ** 6):
        return False
    t = g.term(sb)
    if t["k"] == "call" and t["dest"]["l"] == local and not t["dest"]["p"]:
        return False
    seen = set()
    st = [x for (x, k, _l) in g.succ[sb] if k == N and x >= 0]
    while st:
        x = st.pop()
        if x in seen:
            continue
        seen.add(x)
        if x == gb:
            if scan(x, 0, gi):
                return True
            continue
        if not scan(x, 0, 10 ** 6):
            continue
        t = g.term(x)
        if t["k"] == "call" and t["dest"]["l"] == local and not t["dest"]["p"]:
            continue
        st += [y for (y, k, _l) in g.succ[x] if k == N and y >= 0]
    return False
