"""Response-transparency value flow: does the value a layer returns carry the wrapped service's outcome,
and which error constructors are applied to it on the way?

`Flow.passes(node, sources)` walks the origin DAG of a returned value backwards through the operations that
preserve an outcome's payload — projections, Result/Option/Poll re-wrapping, `?`, map_err / map / ok / clone /
into, struct-field stores (joined over all construction sites of the struct), and channel hops (the value a
receiver yields originates in the values sent on senders derived from the same `channel()` call) — and reports
whether it reaches one of `sources` (the awaited / polled future of the wrapped call) together with the error
constructors met on the way.
"""
from .core import graph, Call, peel, leaves, show
from .util import CLONE, agg_sites

PAYLOAD_CALLS = {"map_err": (0, 1), "map": (0, None), "ok": (0, None), "branch": (0, None), "from_residual": (0, None),
                 "into": (0, None), "from": (0, None), "clone": (0, None), "unwrap_or_else": (0, None), "and_then": (0, None),
                 "as_mut": (0, None), "as_ref": (0, None), "get_mut": (0, None), "new_unchecked": (0, None), "new": (0, None),
                 "deref": (0, None), "deref_mut": (0, None), "take": (0, None), "expect": (0, None), "unwrap": (0, None),
                 "into_future": (0, None), "pin": (0, None), "project": (0, None)}
RECV_NAMES = ("recv", "try_recv", "poll_recv", "blocking_recv", "poll")
WRAP_VARIANTS = ("Ok", "Err", "Some", "Ready", "Continue", "Break")


class _Seen(set):
    """nodes on the walk (cycle guard) plus the verdicts of the nodes already finished"""

    def __init__(self):
        super().__init__()
        self.done = {}


class Flow:
    def __init__(self, facts, tr):
        self.facts = facts
        self.tr = tr
        self._sends = None

    # ------------------------------------------------------------------ channel hops
    def _channel_root(self, node, depth=0):
        """('call', ..) node of the `channel()` call a sender/receiver value derives from, with the tuple index"""
        node = peel(node)
        if depth > 10:
            return None
        if node[0] == "phi":
            for x in node[1]:
                r = self._channel_root(x, depth + 1)
                if r:
                    return r
            return None
        if node[0] == "field":
            base = peel(node[1])
            if base[0] == "call" and self.tr.call_of(base).name == "channel":
                return (base, str(node[2]))
            # struct field: join over construction sites
            if node[3] and self.facts.adt(node[3]) is not None:
                for (ab, i, j, rv) in agg_sites(self.facts, node[3]):
                    if node[2] in rv["fields"]:
                        v = self.tr.expand(self.tr.operand(ab, rv["ops"][rv["fields"].index(node[2])], (i, j)), upvars=True, params=True)
                        r = self._channel_root(v, depth + 1)
                        if r:
                            return r
            return self._channel_root(base, depth + 1)
        if node[0] == "call":
            c = self.tr.call_of(node)
            if c.name in ("clone", "as_mut", "new", "new_unchecked", "get_mut", "deref", "deref_mut", "project", "as_ref", "subscribe",
                          "recv", "try_recv", "into_future", "pin") and c.args:
                return self._channel_root(self.tr.expand(self.tr.operand(c.g.b, c.args[0], c.loc), upvars=True, params=True), depth + 1)
            return None
        if node[0] in ("param", "upvar"):
            return self._channel_root(self.tr.expand(node, upvars=True, params=True), depth + 1) if depth < 6 and self.tr.expand(node, upvars=True, params=True) != node else None
        return None

    def sends(self):
        if self._sends is None:
            out = []
            for b in self.facts.all_bodies():
                for c in graph(b).calls():
                    if c.name in ("send", "try_send", "blocking_send") and len(c.args) >= 2 and any(k in (c.def_ or "") for k in ("mpsc", "oneshot", "broadcast", "watch")):
                        root = self._channel_root(self.tr.expand(self.tr.operand(b, c.args[0], c.loc), upvars=True, params=True))
                        out.append((b, c, root))
            self._sends = out
        return self._sends

    def sent_values(self, recv_node):
        root = self._channel_root(recv_node)
        if root is None:
            return []
        vals = []
        for (b, c, r) in self.sends():
            if r is not None and r[0] == root[0]:
                vals.append(self.tr.expand(self.tr.operand(b, c.args[1], c.loc), upvars=True, params=False))
        return vals

    # ------------------------------------------------------------------ the walk
    def passes(self, node, sources, depth=0, seen=None):
        """-> (reaches a source?, set of error-constructor names applied on the way)"""
        if seen is None:
            seen = _Seen()
        node = peel(node)
        if node in sources:
            return True, set()
        if node in seen.done:
            return seen.done[node]          # reached again along another alternative (both arms of a match read the same value)
        if depth > 40 or node in seen:
            return False, set()
        seen.add(node)
        r = self._passes(node, sources, depth, seen)
        seen.done[node] = r
        return r

    def _passes(self, node, sources, depth, seen):
        k = node[0]
        if k == "phi":
            ok, ctors = False, set()
            for x in node[1]:
                o, c = self.passes(x, sources, depth + 1, seen)
                if o:
                    ok = True
                    ctors |= c
            return ok, ctors
        if k in ("downcast", "field", "proj"):
            # struct fields: also join over construction sites of the struct
            o, c = self.passes(node[1], sources, depth + 1, seen)
            if o:
                return o, c
            if k == "field" and node[3] and self.facts.adt(node[3]) is not None:
                ok, ctors = False, set()
                for (ab, i, j, rv) in agg_sites(self.facts, node[3]):
                    if node[2] in rv["fields"]:
                        v = self.tr.expand(self.tr.operand(ab, rv["ops"][rv["fields"].index(node[2])], (i, j)), upvars=True, params=True)
                        o2, c2 = self.passes(v, sources, depth + 1, seen)
                        if o2:
                            ok = True
                            ctors |= c2
                return ok, ctors
            return False, set()
        if k == "agg":
            b, rv = self.tr.agg_of(node)
            ok, ctors = False, set()
            for o in rv["ops"]:
                o2, c2 = self.passes(self.tr.expand(self.tr.operand(b, o, (node[3], node[4])), upvars=True), sources, depth + 1, seen)
                if o2:
                    ok = True
                    ctors |= c2
            if ok and rv["ak"] == "adt" and rv.get("variant") not in WRAP_VARIANTS:
                ctors = ctors | {"%s::%s" % (rv["def"], rv["variant"])}
            return ok, ctors
        if k == "call":
            c = self.tr.call_of(node)
            # awaiting / polling a receiver: channel hop
            if c.name in RECV_NAMES and c.args:
                recv = self.tr.expand(self.tr.operand(c.g.b, c.args[0], c.loc), upvars=True, params=True)
                # `.await` lowers to poll(Pin(&mut into_future(x))): look through to x
                vals = self.sent_values(self._await_source(recv))
                if vals:
                    ok, ctors = False, set()
                    for v in vals:
                        o2, c2 = self.passes(v, sources, depth + 1, seen)
                        if o2:
                            ok = True
                            ctors |= c2
                    if ok:
                        return ok, ctors
            if c.name in PAYLOAD_CALLS and c.args:
                ai, fi = PAYLOAD_CALLS[c.name]
                o, ctors = self.passes(self.tr.expand(self.tr.operand(c.g.b, c.args[ai], c.loc), upvars=True, params=False), sources, depth + 1, seen)
                if o and fi is not None and fi < len(c.args):
                    f = peel(self.tr.expand(self.tr.operand(c.g.b, c.args[fi], c.loc)))
                    if f[0] == "fnconst":
                        ctors = ctors | {f[1]}
                    elif f[0] == "agg":
                        ctors = ctors | {"<closure>"}
                return o, ctors
            # a poll of an awaited future that is itself a workspace async fn / future: not followed
            return False, set()
        if k in ("param", "upvar"):
            e = self.tr.expand(node, upvars=True, params=True)
            if e != node:
                return self.passes(e, sources, depth + 1, seen)
        return False, set()

    def _await_source(self, node, depth=0):
        """Pin::new_unchecked(&mut into_future(x)) -> x"""
        node = peel(node)
        while depth < 8 and node[0] == "call" and self.tr.call_of(node).name in ("new_unchecked", "new", "as_mut", "into_future", "get_mut"):
            c = self.tr.call_of(node)
            node = peel(self.tr.expand(self.tr.operand(c.g.b, c.args[0], c.loc), upvars=True, params=True))
            depth += 1
        return node
