"""CFG services, reaching definitions, origin (value-flow) tracing, await/switch abstractions.

Everything here works on *built* MIR facts (see engine/trfacts).  A location is (bb, idx) where
idx == len(stmts) designates the terminator.
"""
from collections import defaultdict, deque
from .facts import fmt_place, fmt_op

N, U, D = "n", "u", "d"          # edge kinds: normal, unwind, coroutine-drop
EXIT_UNWIND = -1                  # virtual node: unwinding straight out of the function

EXIT_KINDS = ("return", "resume", "coroutine_drop", "terminate", "unreachable")


class G:
    """Per-body control-flow graph with definition indexes."""

    def __init__(self, body):
        self.b = body
        blocks = body.blocks
        n = len(blocks)
        self.n = n
        self.succ = [[] for _ in range(n)]
        self.pred = [[] for _ in range(n)]
        for i, blk in enumerate(blocks):
            t = blk["term"]
            k = t["k"]

            def add(tgt, kind, label):
                self.succ[i].append((tgt, kind, label))
                if tgt >= 0:
                    self.pred[tgt].append((i, kind, label))

            def unw(u):
                if isinstance(u, int):
                    add(u, U, "unwind")
                elif u == "continue":
                    add(EXIT_UNWIND, U, "unwind-continue")

            if k == "goto":
                add(t["target"], N, None)
            elif k == "switch":
                for v, bb in t["targets"]:
                    add(bb, N, ("val", v))
                add(t["otherwise"], N, ("otherwise",))
            elif k == "call":
                if t["target"] is not None:
                    add(t["target"], N, "ret")
                unw(t["unwind"])
            elif k == "drop":
                add(t["target"], N, None)
                unw(t["unwind"])
            elif k == "assert":
                add(t["target"], N, "ok")
                unw(t["unwind"])
            elif k == "yield":
                add(t["resume"], N, "resume")
                if t["drop"] is not None:
                    add(t["drop"], D, "drop")
            elif k == "false_edge":
                add(t["target"], N, None)
            elif k == "false_unwind":
                add(t["target"], N, None)
        # definitions
        self.defs = defaultdict(list)      # local -> [(bb, idx, kind, proj, data)]
        self.deflist = []
        for l in range(1, body.arg_count + 1):
            self._adddef(l, -1, -1, "param", (), l)
        for i, blk in enumerate(blocks):
            for j, s in enumerate(blk["stmts"]):
                if s["k"] == "assign":
                    p = s["lhs"]
                    self._adddef(p["l"], i, j, "assign", tuple(_pkey(e) for e in p["p"]), s["rv"])
                elif s["k"] == "setdiscr":
                    p = s["lhs"]
                    self._adddef(p["l"], i, j, "setdiscr", tuple(_pkey(e) for e in p["p"]), s)
            t = blk["term"]
            if t["k"] == "call":
                p = t["dest"]
                self._adddef(p["l"], i, len(blk["stmts"]), "call", tuple(_pkey(e) for e in p["p"]), t)
            elif t["k"] == "yield":
                p = t["resume_arg"]
                self._adddef(p["l"], i, len(blk["stmts"]), "resume", tuple(_pkey(e) for e in p["p"]), t)
        self._rd = None
        self._dom = None
        self._awaits = None

    def _adddef(self, local, bb, idx, kind, proj, data):
        d = (local, bb, idx, kind, proj, data, len(self.deflist))
        self.deflist.append(d)
        self.defs[local].append(d)

    # ------------------------------------------------------------ basics
    def term(self, bb):
        return self.b.blocks[bb]["term"]

    def stmts(self, bb):
        return self.b.blocks[bb]["stmts"]

    def line(self, bb, idx=None):
        blk = self.b.blocks[bb]
        if idx is None or idx >= len(blk["stmts"]):
            return blk["term"]["span"]["line"]
        s = blk["stmts"][idx]
        return s.get("span", blk["term"]["span"])["line"]

    def where(self, bb, idx=None):
        return "%s:%d" % (self.b.span["file"], self.line(bb, idx))

    def exits(self):
        return [i for i in range(self.n) if self.term(i)["k"] in EXIT_KINDS]

    def follow(self, bb):
        """Skip through goto / false_edge / false_unwind blocks without statements."""
        seen = set()
        while bb not in seen:
            seen.add(bb)
            t = self.term(bb)
            if t["k"] in ("goto", "false_edge", "false_unwind") and not self.stmts(bb):
                bb = t["target"]
            else:
                break
        return bb

    # ------------------------------------------------------------ reachability
    # ------------------------------------------------------------ feasibility (variant tags along a path)
    # A path that assigns `x = Enum::V(..)` (or a bool constant) to a whole local and later switches on that very
    # local (possibly after moving it, or after `Try::branch`) can only take the matching edge.  Tracking these tags
    # removes the infeasible paths that data-carrying refactors introduce (`let r = if c { Ok(a) } else { Err(e) };
    # match r { .. }`).  Tags are only ever taken from whole-local assignments on the path itself and are dropped at
    # any other definition, at a mutable borrow and at a drop of the local, so pruning never removes a real path.
    def _feas_setup(self):
        if getattr(self, "_feas", None) is not None:
            return self._feas
        b = self.b
        tracked = set()
        sw_local = {}
        for bb in range(self.n):
            t = self.term(bb)
            if t["k"] != "switch":
                continue
            sw = Switch(self, bb, t)
            if sw.kind == "enum" and sw.place is not None:
                sw_local[bb] = ("enum", sw.place, sw)
                tracked.add(sw.place["l"])
            elif sw.kind == "bool":
                pl = t["discr"].get("copy") or t["discr"].get("move")
                if pl is not None and not pl["p"]:
                    sw_local[bb] = ("bool", pl, sw)
                    tracked.add(pl["l"])
        # backward closure: values that flow into tracked locals by moves, projections, wrapping and Try::branch
        changed = True
        while changed:
            changed = False
            for blk in b.blocks:
                for s_ in blk["stmts"]:
                    if s_["k"] != "assign" or s_["lhs"]["p"] or s_["lhs"]["l"] not in tracked:
                        continue
                    rv = s_["rv"]
                    srcs = []
                    if rv["k"] == "use":
                        srcs = [rv["op"]]
                    elif rv["k"] == "agg" and rv.get("ak") == "adt":
                        srcs = rv["ops"]
                    for o in srcs:
                        src = o.get("move") or o.get("copy")
                        if src is not None and src["l"] not in tracked:
                            tracked.add(src["l"])
                            changed = True
                t = blk["term"]
                if t["k"] == "call" and not t["dest"]["p"] and t["dest"]["l"] in tracked and _is_try_branch(t) and t["args"]:
                    src = t["args"][0].get("move") or t["args"][0].get("copy")
                    if src is not None and src["l"] not in tracked:
                        tracked.add(src["l"])
                        changed = True
        self._feas = (tracked, sw_local) if sw_local else False
        self._tag_live = {} if sw_local else None
        return self._feas

    def _tag_live_of(self, l):
        """blocks at whose entry the variant tag of local l can still matter: a read that can use it (a switch / discriminant
        read, a move / copy / wrap of it, `?` on it, its drop) is still ahead.  Elsewhere the tag is dropped, which keeps
        the number of distinct environments per block small."""
        lv = self._tag_live.get(l)
        if lv is not None:
            return lv
        ubs = set()
        for bb, blk in enumerate(self.b.blocks):
            for s_ in blk["stmts"]:
                if s_["k"] != "assign":
                    continue
                rv = s_["rv"]
                ops = [rv["op"]] if rv["k"] in ("use", "cast") else rv["ops"] if rv["k"] == "agg" else []
                for o in ops:
                    src = o.get("move") or o.get("copy")
                    if src is not None and src["l"] == l:
                        ubs.add(bb)
                if rv["k"] in ("discr", "ref", "rawptr") and rv["place"]["l"] == l:
                    ubs.add(bb)
            t = blk["term"]
            if t["k"] == "switch":
                pl = t["discr"].get("copy") or t["discr"].get("move")
                if pl is not None and pl["l"] == l:
                    ubs.add(bb)
            elif t["k"] == "call":
                for a_ in t["args"]:
                    src = a_.get("move") or a_.get("copy")
                    if src is not None and src["l"] == l:
                        ubs.add(bb)
            elif t["k"] == "drop" and t["place"]["l"] == l:
                ubs.add(bb)
            elif t["k"] == "return" and l == 0:
                ubs.add(bb)
        seen = set(ubs)
        st = list(ubs)
        while st:
            x = st.pop()
            for (p_, _k, _lab) in self.pred[x]:
                if p_ >= 0 and p_ not in seen:
                    seen.add(p_)
                    st.append(p_)
        self._tag_live[l] = seen
        return seen

    @staticmethod
    def _tag_of_place(e, pl):
        """tag of a place under env e: follows `(x as V).0` projections into nested tags; None = unknown"""
        cur = e.get(pl["l"])
        for el in pl["p"]:
            if cur is None:
                return None
            if isinstance(el, dict) and "downcast" in el:
                if cur[0] != el.get("v"):
                    return None
                continue
            if isinstance(el, dict) and "f" in el:
                if el["f"] == 0:
                    cur = cur[1]
                    continue
                return None
            return None
        return cur

    def _feas_step(self, bb, env, tracked, sw_local, learn_edges=False):
        """-> list of (successor, kind, env') honouring the tags in env (a frozenset of (local, tag));
        tag = (variant name | 'true' | 'false', tag of the single payload or None)"""
        e = dict(env)
        blk = self.b.blocks[bb]
        for s_ in blk["stmts"]:
            if s_["k"] == "assign":
                l = s_["lhs"]["l"]
                rv = s_["rv"]
                if rv["k"] in ("ref", "rawptr") and rv.get("bk") != "shared":
                    e.pop(rv["place"]["l"], None)
                if l in tracked:
                    if s_["lhs"]["p"]:
                        e.pop(l, None)
                    elif rv["k"] == "agg" and rv.get("ak") == "adt" and rv.get("variant") is not None:
                        sub = None
                        if len(rv["ops"]) == 1:
                            src = rv["ops"][0].get("move") or rv["ops"][0].get("copy")
                            if src is not None:
                                sub = self._tag_of_place(e, src)
                        e[l] = (rv["variant"], sub)
                    elif rv["k"] == "use" and "const" in rv["op"] and rv["op"]["const"].get("disp") in ("true", "false"):
                        e[l] = (rv["op"]["const"]["disp"], None)
                    elif rv["k"] == "use":
                        src = rv["op"].get("move") or rv["op"].get("copy")
                        tg = self._tag_of_place(e, src) if src is not None else None
                        if tg is not None:
                            e[l] = tg
                        else:
                            e.pop(l, None)
                    else:
                        e.pop(l, None)
            elif s_["k"] == "setdiscr":
                e.pop(s_["lhs"]["l"], None)
            elif s_["k"] == "dead":
                e.pop(s_.get("l"), None)
        t = blk["term"]
        k = t["k"]
        only = None
        if k == "switch" and bb in sw_local:
            kind, pl, sw = sw_local[bb]
            tag = self._tag_of_place(e, pl)
            if tag is not None:
                if tag[0] in sw.variants:
                    only = sw.variants[tag[0]]
                elif kind == "enum":
                    only = t["otherwise"]
        out = []
        learn = None
        if learn_edges and k == "switch" and bb in sw_local and only is None:
            kind, pl, sw = sw_local[bb]
            if not pl["p"]:
                # the edge taken tells the tag of the tested local (path condition)
                inv = {}
                for nm, tg_ in sw.variants.items():
                    if tg_ is not None:
                        inv.setdefault(tg_, []).append(nm)
                locs = [pl["l"]]
                # `_t = copy _flag; switchInt(move _t)`: the flag itself is what the edge tells about
                for s_ in reversed(blk["stmts"]):
                    if s_["k"] == "assign" and s_["lhs"]["l"] == pl["l"] and not s_["lhs"]["p"]:
                        if s_["rv"]["k"] == "use":
                            src = s_["rv"]["op"].get("copy") or s_["rv"]["op"].get("move")
                            if src is not None and not src["p"]:
                                locs.append(src["l"])
                        break
                learn = (locs, {tg_: nms[0] for tg_, nms in inv.items() if len(nms) == 1})
        for (tgt, ek, lab) in self.succ[bb]:
            if only is not None and ek == N and tgt != only:
                continue
            e2 = e
            if learn is not None and ek == N and tgt in learn[1]:
                e2 = dict(e)
                for l_ in learn[0]:
                    e2[l_] = (learn[1][tgt], None)
            if k == "call" and ek == N:
                d = t["dest"]
                e2 = dict(e)
                if d["l"] in tracked:
                    if not d["p"] and _is_try_branch(t) and t["args"]:
                        src = t["args"][0].get("move") or t["args"][0].get("copy")
                        tag = self._tag_of_place(e, src) if src is not None else None
                        if tag is not None and tag[0] in ("Ok", "Some"):
                            e2[d["l"]] = ("Continue", tag[1])
                        elif tag is not None and tag[0] in ("Err", "None"):
                            e2[d["l"]] = ("Break", tag)
                        else:
                            e2.pop(d["l"], None)
                    else:
                        e2.pop(d["l"], None)
            elif k == "yield" and ek == N:
                e2 = dict(e)
                e2.pop(t["resume_arg"]["l"], None)
            elif k == "drop":
                e2 = dict(e)
                e2.pop(t["place"]["l"], None)
            if e2 and tgt >= 0 and getattr(self, "_tag_live", None) is not None:
                e2 = {l_: tg_ for l_, tg_ in e2.items() if tgt in self._tag_live_of(l_)}
            out.append((tgt, ek, frozenset(e2.items())))
        return out

    def reach(self, starts, kinds=(N, U, D), stop=None, avoid_edges=(), avoid_nodes=(), env0=None):
        """Set of blocks reachable from `starts` (inclusive).  `stop(bb)` true => bb is included
        but not expanded.  avoid_edges: set of (a, b).  Paths that contradict a variant tag they assigned
        themselves are not followed (see above); env0 = {local: tag} assumes tags at the start (used to ask
        "what can this outcome of an operation reach?")."""
        fs = self._feas_setup()
        if fs:
            tracked, sw_local = fs
            if env0:
                tracked = tracked | set(env0)
            e0 = frozenset((env0 or {}).items())
            ae = set(avoid_edges)
            seen_b = set()
            seen = set()
            dq = deque()
            for s0 in starts:
                if s0 not in avoid_nodes and s0 >= 0 and (s0, e0) not in seen:
                    seen.add((s0, e0))
                    seen_b.add(s0)
                    dq.append((s0, e0))
            while dq:
                x, env = dq.popleft()
                if stop is not None and stop(x):
                    continue
                for (t, k, env2) in self._feas_step(x, env, tracked, sw_local):
                    if t < 0 or k not in kinds or t in avoid_nodes or (x, t) in ae or (t, env2) in seen:
                        continue
                    if len(seen) > 60000:
                        env2 = frozenset()
                        if (t, env2) in seen:
                            continue
                    seen.add((t, env2))
                    seen_b.add(t)
                    dq.append((t, env2))
            return seen_b
        seen = set()
        dq = deque()
        for s in starts:
            if s not in seen and s not in avoid_nodes and s >= 0:
                seen.add(s)
                dq.append(s)
        ae = set(avoid_edges)
        while dq:
            x = dq.popleft()
            if stop is not None and stop(x):
                continue
            for (t, k, _l) in self.succ[x]:
                if t < 0 or k not in kinds or t in seen or t in avoid_nodes or (x, t) in ae:
                    continue
                seen.add(t)
                dq.append(t)
        return seen

    def path(self, start, goal_pred, kinds=(N, U, D), avoid_edges=(), avoid_nodes=()):
        """Shortest path (list of blocks) from start to a block satisfying goal_pred, or None."""
        prev = {start: None}
        dq = deque([start])
        ae = set(avoid_edges)
        while dq:
            x = dq.popleft()
            if goal_pred(x):
                out = []
                while x is not None:
                    out.append(x)
                    x = prev[x]
                return out[::-1]
            for (t, k, _l) in self.succ[x]:
                if t < 0 or k not in kinds or t in prev or t in avoid_nodes or (x, t) in ae:
                    continue
                prev[t] = x
                dq.append(t)
        return None

    def return_tags(self, starts, kinds=(N,), avoid_edges=(), avoid_nodes=(), env0=None, local=0):
        """tags the returned value (local 0) can have at the `return`s reachable from `starts` along feasible paths
        under the given avoidance: a set of variant/bool names, with None for "unknown".  Answers questions of the
        form "can this function return true without passing X?" whatever shape the code has."""
        fs = self._feas_setup()
        out = set()
        if not fs:
            for x in self.reach(starts, kinds=kinds, avoid_edges=avoid_edges, avoid_nodes=avoid_nodes):
                if self.term(x)["k"] == "return":
                    out.add(None)
            return out
        tracked, sw_local = fs
        tracked = set(tracked) | {local} | set(env0 or {})
        # values flowing into the returned local must be tracked as well
        changed = True
        while changed:
            changed = False
            for blk in self.b.blocks:
                for s_ in blk["stmts"]:
                    if s_["k"] == "assign" and not s_["lhs"]["p"] and s_["lhs"]["l"] in tracked and s_["rv"]["k"] == "use":
                        src = s_["rv"]["op"].get("move") or s_["rv"]["op"].get("copy")
                        if src is not None and src["l"] not in tracked:
                            tracked.add(src["l"])
                            changed = True
        # bool switches on the newly tracked locals take part too
        sw_local = dict(sw_local)
        for bb in range(self.n):
            t = self.term(bb)
            if t["k"] == "switch" and bb not in sw_local:
                sw = Switch(self, bb, t)
                pl = t["discr"].get("copy") or t["discr"].get("move")
                if sw.kind == "bool" and pl is not None and not pl["p"]:
                    sw_local[bb] = ("bool", pl, sw)
                    tracked.add(pl["l"])
        e0 = frozenset((env0 or {}).items())
        ae = set(avoid_edges)
        seen = set()
        dq = deque()
        for s0 in starts:
            if s0 not in avoid_nodes and s0 >= 0:
                seen.add((s0, e0))
                dq.append((s0, e0))
        while dq:
            x, env = dq.popleft()
            if self.term(x)["k"] == "return":
                # env after the block's statements: run the step on a copy and read the tag
                e = dict(env)
                for (t_, k_, env2) in [(None, None, None)]:
                    pass
                tags = self._env_after_stmts(x, env, tracked)
                tg = tags.get(local)
                out.add(tg[0] if tg is not None else None)
                continue
            for (t, k, env2) in self._feas_step(x, env, tracked, sw_local, learn_edges=True):
                if t < 0 or k not in kinds or t in avoid_nodes or (x, t) in ae or (t, env2) in seen:
                    continue
                if len(seen) > 60000:
                    env2 = frozenset()
                    if (t, env2) in seen:
                        continue
                seen.add((t, env2))
                dq.append((t, env2))
        return out

    def _env_after_stmts(self, bb, env, tracked):
        e = dict(env)
        for s_ in self.b.blocks[bb]["stmts"]:
            if s_["k"] != "assign":
                continue
            l = s_["lhs"]["l"]
            rv = s_["rv"]
            if l in tracked:
                if s_["lhs"]["p"]:
                    e.pop(l, None)
                elif rv["k"] == "agg" and rv.get("ak") == "adt" and rv.get("variant") is not None:
                    e[l] = (rv["variant"], None)
                elif rv["k"] == "use" and "const" in rv["op"] and rv["op"]["const"].get("disp") in ("true", "false"):
                    e[l] = (rv["op"]["const"]["disp"], None)
                elif rv["k"] == "use":
                    src = rv["op"].get("move") or rv["op"].get("copy")
                    tg = self._tag_of_place(e, src) if src is not None else None
                    if tg is not None:
                        e[l] = tg
                    else:
                        e.pop(l, None)
                else:
                    e.pop(l, None)
        return e

    def live(self, bb):
        """reachable from the entry along feasible paths (inlining constants for parameters makes some arms dead)"""
        r = getattr(self, "_live", None)
        if r is None:
            r = self._live = self.reach([0])
        return bb in r

    def edge_dominates(self, edge, node, kinds=(N, U, D)):
        """Every path entry -> node uses `edge` (a, b)."""
        if node == 0:
            return False
        r = self.reach([0], kinds=kinds, avoid_edges=[edge])
        return node not in r

    def edges_dominate(self, edges, node, kinds=(N, U, D)):
        """Every path entry -> node uses at least one of `edges`."""
        r = self.reach([0], kinds=kinds, avoid_edges=edges)
        return node not in r

    def node_dominates(self, a, node, kinds=(N, U, D)):
        if a == node:
            return True
        r = self.reach([0], kinds=kinds, avoid_nodes=[a])
        return node not in r

    def in_cycle(self, bb, kinds=(N,)):
        for (t, k, _l) in self.succ[bb]:
            if t >= 0 and k in kinds and bb in self.reach([t], kinds=kinds):
                return True
        return False

    # ------------------------------------------------------------ reaching definitions
    def _compute_rd(self):
        n = self.n
        gen = [0] * n
        kill = [0] * n
        allmask = defaultdict(int)
        for d in self.deflist:
            if not d[4]:        # whole-local defs only kill
                allmask[d[0]] |= 1 << d[6]
        bydefloc = defaultdict(list)
        for d in self.deflist:
            bydefloc[(d[1], d[2])].append(d)
        self._bydefloc = bydefloc
        for i in range(n):
            g = 0
            kl = 0
            nst = len(self.stmts(i))
            for j in range(nst + 1):
                for d in bydefloc.get((i, j), ()):
                    if not d[4]:
                        g &= ~allmask[d[0]]
                        kl |= allmask[d[0]]
                    g |= 1 << d[6]
            gen[i] = g
            kill[i] = kl
        IN = [0] * n
        OUT = [0] * n
        entry = 0
        for d in self.deflist:
            if d[3] == "param":
                entry |= 1 << d[6]
        IN[0] = entry
        work = deque(range(n))
        inw = [True] * n
        while work:
            i = work.popleft()
            inw[i] = False
            inn = entry if i == 0 else 0
            for (p, _k, _l) in self.pred[i]:
                inn |= OUT[p]
            IN[i] = inn
            out = gen[i] | (inn & ~kill[i])
            if out != OUT[i]:
                OUT[i] = out
                for (t, _k, _l) in self.succ[i]:
                    if t >= 0 and not inw[t]:
                        inw[t] = True
                        work.append(t)
        self._rd = (IN, OUT, allmask)

    def reaching(self, local, loc):
        """Definitions of `local` (whole or partial) that reach location loc=(bb, idx) (before the
        statement/terminator at idx executes)."""
        if self._rd is None:
            self._compute_rd()
        IN, _OUT, allmask = self._rd
        bb, idx = loc
        cur = IN[bb]
        for j in range(min(idx, len(self.stmts(bb)) + 1)):
            for d in self._bydefloc.get((bb, j), ()):
                if not d[4]:
                    cur &= ~allmask[d[0]]
                cur |= 1 << d[6]
        return [d for d in self.defs.get(local, ()) if (cur >> d[6]) & 1]

    # ------------------------------------------------------------ maybe-initialised locals
    def _ops_of_rv(self, rv):
        k = rv["k"]
        if k in ("use", "cast", "repeat"):
            return [rv["op"]]
        if k == "binop":
            return [rv["a"], rv["b"]]
        if k == "unop":
            return [rv["a"]]
        if k == "agg":
            return rv["ops"]
        return []

    def _compute_init(self):
        """forward may-analysis: bit l set = local l may hold an initialised value"""
        n = self.n
        nl = len(self.b.locals)
        IN = [0] * n
        OUT = [0] * n
        entry = 0
        for l in range(1, self.b.arg_count + 1):
            entry |= 1 << l

        def transfer(i, cur, upto=None):
            blk = self.b.blocks[i]
            stmts = blk["stmts"]
            for j, s in enumerate(stmts):
                if upto is not None and j >= upto:
                    return cur
                if s["k"] == "assign":
                    for o in self._ops_of_rv(s["rv"]):
                        pl = o.get("move")
                        if pl is not None and not pl["p"]:
                            cur &= ~(1 << pl["l"])
                    if not s["lhs"]["p"]:
                        cur |= 1 << s["lhs"]["l"]
                elif s["k"] == "dead":
                    cur &= ~(1 << s["l"])
            if upto is not None and upto <= len(stmts):
                return cur
            t = blk["term"]
            k = t["k"]
            if k == "call":
                for o in t["args"]:
                    pl = o.get("move")
                    if pl is not None and not pl["p"]:
                        cur &= ~(1 << pl["l"])
                if not t["dest"]["p"]:
                    cur |= 1 << t["dest"]["l"]
            elif k == "drop":
                if not t["place"]["p"]:
                    cur &= ~(1 << t["place"]["l"])
            elif k == "yield":
                pl = t["value"].get("move")
                if pl is not None and not pl["p"]:
                    cur &= ~(1 << pl["l"])
                if not t["resume_arg"]["p"]:
                    cur |= 1 << t["resume_arg"]["l"]
            return cur

        self._init_transfer = transfer
        IN[0] = entry
        work = deque(range(n))
        inw = [True] * n
        while work:
            i = work.popleft()
            inw[i] = False
            inn = entry if i == 0 else 0
            for (p, _k, _l) in self.pred[i]:
                inn |= OUT[p]
            IN[i] = inn
            out = transfer(i, inn)
            if out != OUT[i]:
                OUT[i] = out
                for (t, _k, _l) in self.succ[i]:
                    if t >= 0 and not inw[t]:
                        inw[t] = True
                        work.append(t)
        self._init = IN

    def maybe_init(self, local, bb):
        """may `local` be initialised just before the terminator of bb?"""
        if getattr(self, "_init", None) is None:
            self._compute_init()
        cur = self._init_transfer(bb, self._init[bb], upto=len(self.stmts(bb)))
        return bool((cur >> local) & 1)

    # ------------------------------------------------------------ dominators (all edges)
    def dominators(self):
        if self._dom is not None:
            return self._dom
        n = self.n
        order = []
        seen = [False] * n
        st = [(0, iter(self.succ[0]))]
        seen[0] = True
        while st:
            x, it = st[-1]
            adv = False
            for (t, _k, _l) in it:
                if t >= 0 and not seen[t]:
                    seen[t] = True
                    st.append((t, iter(self.succ[t])))
                    adv = True
                    break
            if not adv:
                order.append(x)
                st.pop()
        rpo = order[::-1]
        num = {b: i for i, b in enumerate(rpo)}
        idom = {0: 0}
        changed = True
        while changed:
            changed = False
            for b in rpo[1:]:
                new = None
                for (p, _k, _l) in self.pred[b]:
                    if p in idom:
                        if new is None:
                            new = p
                        else:
                            a, c = p, new
                            while a != c:
                                while num[a] > num[c]:
                                    a = idom[a]
                                while num[c] > num[a]:
                                    c = idom[c]
                            new = a
                if new is not None and idom.get(b) != new:
                    idom[b] = new
                    changed = True
        self._dom = idom
        return idom

    def dominates(self, a, b):
        idom = self.dominators()
        if b not in idom:
            return False
        while True:
            if a == b:
                return True
            if b == 0:
                return False
            b = idom[b]

    # ------------------------------------------------------------ calls
    def calls(self):
        for i, blk in enumerate(self.b.blocks):
            t = blk["term"]
            if t["k"] == "call":
                yield Call(self, i, t)

    # ------------------------------------------------------------ switches
    def switch(self, bb):
        t = self.term(bb)
        if t["k"] != "switch":
            return None
        return Switch(self, bb, t)

    # ------------------------------------------------------------ awaits
    def awaits(self):
        if self._awaits is None:
            self._awaits = _find_awaits(self)
        return self._awaits


def _pkey(e):
    if isinstance(e, str):
        return e
    if "f" in e:
        return ("f", e["f"])
    if "downcast" in e:
        return ("dc", e["downcast"])
    if "index" in e:
        return ("ix",)
    return ("o",)


def graph(body):
    g = body._cache.get("g")
    if g is None:
        g = G(body)
        body._cache["g"] = g
    return g


def _is_try_branch(t):
    f = t["func"]
    fn = f["const"]["fn"] if "const" in f and "fn" in f["const"] else None
    return fn is not None and fn.get("def") == "core::ops::try_trait::Try::branch"


class Call:
    __slots__ = ("g", "bb", "t", "fn")

    def __init__(self, g, bb, t):
        self.g = g
        self.bb = bb
        self.t = t
        f = t["func"]
        self.fn = f["const"]["fn"] if "const" in f and "fn" in f["const"] else None

    @property
    def def_(self):
        return self.fn["def"] if self.fn else None

    @property
    def path(self):
        return self.fn["path"] if self.fn else fmt_op(self.t["func"])

    @property
    def name(self):
        return self.fn.get("name") if self.fn else None

    @property
    def trait(self):
        return self.fn.get("trait") if self.fn else None

    @property
    def resolved(self):
        return self.fn.get("resolved") if self.fn else None

    @property
    def self_kind(self):
        return self.fn.get("self_kind") if self.fn else None

    @property
    def args(self):
        return self.t["args"]

    @property
    def dest(self):
        return self.t["dest"]

    @property
    def target(self):
        return self.t["target"]

    @property
    def line(self):
        return self.t["span"]["line"]

    @property
    def exp(self):
        return self.t["span"].get("exp")

    @property
    def loc(self):
        return (self.bb, len(self.g.stmts(self.bb)))

    def is_(self, *defs):
        return self.fn is not None and (self.fn["def"] in defs or self.fn.get("resolved") in defs)

    def targets_def(self):
        """def paths this call may resolve to inside the workspace"""
        if not self.fn:
            return []
        out = [self.fn["def"]]
        if self.fn.get("resolved"):
            out.append(self.fn["resolved"])
        return out

    def self_ty(self):
        if self.fn and "self_ty" in self.fn:
            return self.g.b.types[self.fn["self_ty"]]
        return None

    def where(self):
        return "%s:%d" % (self.g.b.span["file"], self.line)

    def __repr__(self):
        return "<Call %s @bb%d L%d>" % (self.path, self.bb, self.line)


class Switch:
    """A SwitchInt with its discriminant interpreted: enum variant test or boolean/int test."""

    def __init__(self, g, bb, t):
        self.g = g
        self.bb = bb
        self.t = t
        self.kind = "int"
        self.place = None          # place whose discriminant is tested (enum)
        self.variants = {}         # variant name -> target bb (enum); 'true'/'false' (bool)
        self.cond = None           # operand tested
        d = t["discr"]
        self.cond = d
        pl = d.get("copy") or d.get("move")
        rv = None
        if pl is not None and not pl["p"]:
            ds = g.reaching(pl["l"], (bb, len(g.stmts(bb))))
            if len(ds) == 1 and ds[0][3] == "assign":
                rv = ds[0][5]
                self.defloc = (ds[0][1], ds[0][2])
        self.rv = rv
        tv = {v: b for v, b in t["targets"]}
        if rv is not None and rv["k"] == "discr":
            self.kind = "enum"
            self.place = rv["place"]
            names = {val: name for name, val in rv.get("variants", [])}
            for v, b in tv.items():
                self.variants[names.get(v, v)] = b
            # the otherwise edge stands for all remaining variants
            rest = [nm for nm, val in rv.get("variants", []) if val not in tv]
            self.rest = rest
            if len(rest) == 1:
                self.variants.setdefault(rest[0], t["otherwise"])
            self.otherwise = t["otherwise"]
        else:
            ty = None
            if pl is not None:
                if not pl["p"]:
                    ty = g.b.ty(g.b.locals[pl["l"]]["ty"])["s"]
                else:
                    last = pl["p"][-1]
                    if isinstance(last, dict) and "t" in last:
                        ty = g.b.ty(last["t"])["s"]
            if ty == "bool" or (set(tv.keys()) == {"0"} and ty in (None, "bool")):
                self.kind = "bool"
                self.variants = {"false": tv.get("0"), "true": t["otherwise"]}
            self.otherwise = t["otherwise"]
            self.tv = tv

    def edge(self, name):
        """(bb, target) for variant / 'true' / 'false'."""
        tgt = self.variants.get(name)
        if tgt is None:
            return None
        return (self.bb, tgt)


class Await:
    __slots__ = ("g", "into_bb", "awaitee", "fut_local", "fut_ty", "poll_bb", "poll_local",
                 "yield_bb", "ready_bb", "result_local", "pending_bb", "line", "header", "pinned_local")

    def __repr__(self):
        return "<Await L%d into@bb%d poll@bb%s yield@bb%s ready@bb%s res=_%s fut=%s>" % (
            self.line, self.into_bb, self.poll_bb, self.yield_bb, self.ready_bb, self.result_local,
            self.fut_ty["s"][:60])


def _find_awaits(g):
    out = []
    for c in g.calls():
        if c.def_ != "core::future::into_future::IntoFuture::into_future" or c.exp != "desugar:Await":
            continue
        a = Await()
        a.g = g
        a.into_bb = c.bb
        a.awaitee = c.args[0]
        a.fut_local = c.dest["l"]
        a.fut_ty = g.b.local_ty(c.dest["l"])
        a.line = c.line
        a.poll_bb = a.yield_bb = a.ready_bb = a.result_local = a.pending_bb = a.poll_local = None
        a.header = None
        a.pinned_local = None
        # the pinned copy: `_p = move fut` in the return block
        if c.target is not None:
            for s in g.stmts(c.target):
                if s["k"] == "assign" and s["rv"]["k"] == "use":
                    src = s["rv"]["op"].get("move") or s["rv"]["op"].get("copy")
                    if src and src["l"] == a.fut_local and not src["p"]:
                        a.pinned_local = s["lhs"]["l"]
        # first poll reachable along normal edges
        seen = set()
        dq = deque([c.target] if c.target is not None else [])
        while dq:
            x = dq.popleft()
            if x in seen:
                continue
            seen.add(x)
            t = g.term(x)
            if t["k"] == "call":
                cc = Call(g, x, t)
                if cc.def_ == "core::future::future::Future::poll" and cc.exp == "desugar:Await":
                    a.poll_bb = x
                    a.poll_local = cc.dest["l"]
                    break
            for (tt, k, _l) in g.succ[x]:
                if k == N and tt >= 0:
                    dq.append(tt)
        if a.poll_bb is None:
            out.append(a)
            continue
        pt = g.term(a.poll_bb)["target"]
        sw = g.switch(pt) if pt is not None else None
        if sw and sw.kind == "enum":
            rb = sw.variants.get("Ready")
            pb = sw.variants.get("Pending")
            if rb is not None:
                rb = g.follow(rb)
                a.ready_bb = rb
                # result local: `_t = move (P as Ready).0; _r = move _t`
                tmp = None
                for s in g.stmts(rb):
                    if s["k"] != "assign" or s["rv"]["k"] != "use":
                        continue
                    src = s["rv"]["op"].get("move") or s["rv"]["op"].get("copy")
                    if not src:
                        continue
                    if src["l"] == a.poll_local and src["p"]:
                        tmp = s["lhs"]["l"]
                        a.result_local = tmp
                    elif tmp is not None and src["l"] == tmp and not src["p"]:
                        a.result_local = s["lhs"]["l"]
            if pb is not None:
                a.pending_bb = pb
                p = g.path(pb, lambda x: g.term(x)["k"] == "yield", kinds=(N,))
                if p:
                    a.yield_bb = p[-1]
        out.append(a)
    return out


# =============================================================== origin tracing

class Tracer:
    """Value-flow (origin) tracing over the facts, inter-procedural for upvars and parameters."""

    def __init__(self, facts):
        self.facts = facts
        self._callers = None
        self._aggsites = None
        self.memo = {}
        self.inprogress = set()
        self.bindings = {}      # ('param', crate, def, i) -> node, while looking through a local helper call

    # ---- indexes
    def callers(self, def_):
        if self._callers is None:
            idx = defaultdict(list)
            absorbed = getattr(self.facts, "absorbed", None)
            for b in self.facts.all_bodies():
                if absorbed is not None and absorbed(b):
                    continue
                g = graph(b)
                for c in g.calls():
                    for d in c.targets_def():
                        idx[d].append(c)
            self._callers = idx
        return self._callers.get(def_, [])

    def aggsites(self, def_):
        """Aggregate statements that build closure/coroutine `def_` -> [(body, bb, idx, rv)]"""
        if self._aggsites is None:
            idx = defaultdict(list)
            absorbed = getattr(self.facts, "absorbed", None)
            for b in self.facts.all_bodies():
                if absorbed is not None and absorbed(b):
                    continue      # the capture site is analysed in the callers this helper was inlined into
                for i, blk in enumerate(b.blocks):
                    for j, s in enumerate(blk["stmts"]):
                        if s["k"] == "assign" and s["rv"]["k"] == "agg" and s["rv"]["ak"] in ("closure", "coroutine", "coroutine_closure"):
                            idx[(b.crate.name, s["rv"]["def"])].append((b, i, j, s["rv"]))
            self._aggsites = idx
        return self._aggsites.get(def_, [])

    # ---- node constructors: tuples (hashable)
    def operand(self, body, op, loc, depth=0):
        if "const" in op:
            c = op["const"]
            if "fn" in c:
                return ("fnconst", c["fn"]["def"], c["fn"]["path"])
            return ("const", c.get("disp"), c.get("uneval"), c.get("bits"), body.ty(c["ty"])["s"])
        pl = op.get("copy") or op.get("move")
        if pl is None:
            return ("unknown",)
        return self.place(body, pl, loc, depth)

    def place(self, body, pl, loc, depth=0):
        g = graph(body)
        l = pl["l"]
        proj = pl["p"]
        if depth > 60:
            return ("deep",)
        pk = tuple(_pkey(e) for e in proj)
        key = (id(body), l, pk, loc)
        if key in self.memo:
            return self.memo[key]
        if key in self.inprogress:
            return ("cycle", l)
        self.inprogress.add(key)
        try:
            res = self._place(body, g, l, proj, pk, loc, depth)
        finally:
            self.inprogress.discard(key)
        self.memo[key] = res
        return res

    def _place(self, body, g, l, proj, pk, loc, depth):
        # closure / coroutine self
        if l == 1 and body.kind in ("closure", "coroutine"):
            # upvar access: _1.k, (*_1).k
            i = 0
            while i < len(proj) and proj[i] == "*":
                i += 1
            if i < len(proj) and isinstance(proj[i], dict) and "f" in proj[i]:
                base = ("upvar", body.crate.name, body.def_, proj[i]["f"])
                return self._project(body, base, proj[i + 1:], loc, depth)
            return ("self_closure", body.def_)
        ds = g.reaching(l, loc)
        whole = [d for d in ds if not d[4]]
        partial = [d for d in ds if d[4] and (pk[:len(d[4])] == d[4])]
        nodes = []
        for d in whole:
            base = self._defnode(body, g, d, depth)
            nodes.append(self._project(body, base, proj, loc, depth))
        for d in partial:
            base = self._defnode(body, g, d, depth)
            nodes.append(self._project(body, base, proj[len(d[4]):], loc, depth))
        if not nodes:
            if not ds:
                return self._project(body, ("undef", l), proj, loc, depth)
            # only unrelated partial defs
            return self._project(body, ("partial", l), proj, loc, depth)
        return phi(nodes)

    def _defnode(self, body, g, d, depth):
        (local, bb, idx, kind, _proj, data, _n) = d
        if kind == "param":
            return ("param", body.crate.name, body.def_, local)
        if kind == "call":
            return ("call", body.crate.name, body.def_, bb)
        if kind == "resume":
            return ("resume", body.def_, bb)
        if kind == "setdiscr":
            return ("setdiscr", body.def_, bb, idx)
        rv = data
        k = rv["k"]
        loc = (bb, idx)
        if k == "use":
            return self.operand(body, rv["op"], loc, depth + 1)
        if k == "ref":
            return ("ref", self.place(body, rv["place"], loc, depth + 1))
        if k == "rawptr":
            return ("ref", self.place(body, rv["place"], loc, depth + 1))
        if k == "cast":
            inner = self.operand(body, rv["op"], loc, depth + 1)
            ck = rv["ck"]
            if ck.startswith("PointerCoercion") or ck in ("PtrToPtr", "Transmute", "Subtype"):
                return ("cast", ck, inner)
            return ("cast", ck, inner)
        if k == "binop":
            return ("binop", rv["op"], self.operand(body, rv["a"], loc, depth + 1),
                    self.operand(body, rv["b"], loc, depth + 1))
        if k == "unop":
            return ("unop", rv["op"], self.operand(body, rv["a"], loc, depth + 1))
        if k == "discr":
            return ("discr", self.place(body, rv["place"], loc, depth + 1))
        if k == "agg":
            return ("agg", body.crate.name, body.def_, bb, idx)
        return ("rv", k)

    def _project(self, body, base, proj, loc, depth):
        node = base
        for e in proj:
            node = self.project1(node, e, depth)
        return node

    def project1(self, node, e, depth=0):
        if node[0] == "phi":
            return phi([self.project1(x, e, depth) for x in node[1]])
        if node == NEVER:
            return node
        if e == "*":
            if node[0] == "ref":
                return node[1]
            return ("deref", node)
        if isinstance(e, dict) and "f" in e:
            if node[0] == "agg":
                b = self.facts.body(node[2]) if False else self._body(node[1], node[2])
                s = b.blocks[node[3]]["stmts"][node[4]]
                ops = s["rv"]["ops"]
                rv = s["rv"]
                fi = e["f"]
                # enum-variant aggregates of a single active field / normal positional
                if fi < len(ops):
                    return self.operand(b, ops[fi], (node[3], node[4]), depth + 1)
                return ("field", node, e.get("n", fi), e.get("adt"))
            return ("field", node, e.get("n", e["f"]), e.get("adt"))
        if isinstance(e, dict) and "downcast" in e:
            if node[0] == "agg":
                b = self._body(node[1], node[2])
                rv = b.blocks[node[3]]["stmts"][node[4]]["rv"] if b is not None else {}
                if rv.get("variant") is not None and e.get("v") is not None and rv.get("variant") != e.get("v") and rv.get("ak") == "adt":
                    return NEVER        # `(X as V)` of a value built as another variant: the path is infeasible
                return node
            return ("downcast", node, e.get("v", e["downcast"]))
        return ("proj", node, str(e))

    def _body(self, crate, def_):
        b = self.facts.bodies.get(def_)
        if b is not None and b.crate.name == crate:
            return b
        for bb in self.facts.crates[crate].bodies:
            if bb.def_ == def_:
                return bb
        return None

    # ---- inter-procedural steps (explicit)
    def resolve_upvar(self, node, depth=0):
        """('upvar', crate, def, k) -> origin of the captured operand in the parent body."""
        _, crate, def_, k = node
        sites = self.aggsites((crate, def_))
        out = []
        for (b, bb, idx, rv) in sites:
            if k < len(rv["ops"]):
                out.append(self.operand(b, rv["ops"][k], (bb, idx), depth + 1))
        if not out:
            return node
        return phi(out)

    def resolve_param(self, node, depth=0):
        """('param', crate, def, i) -> join of argument i-1 over all workspace call sites."""
        _, crate, def_, i = node
        out = []
        cs_all = self.callers(def_)
        if len(cs_all) > 12:
            return node          # widely used helper: joining over all call sites says nothing
        for c in cs_all:
            if i - 1 < len(c.args):
                out.append(self.operand(c.g.b, c.args[i - 1], c.loc, depth + 1))
        if not out:
            return node
        return phi(out)

    def expand(self, node, upvars=True, params=False, limit=12):
        """Rewrite a node bottom-up resolving upvars (and optionally params) inter-procedurally."""
        if self.bindings:
            return self._expand(node, upvars, params, limit)
        mk = ("expand", node, upvars, params)
        if mk in self.memo:
            return self.memo[mk]
        r = self._expand(node, upvars, params, limit)
        self.memo[mk] = r
        return r

    def _expand(self, node, upvars, params, limit):
        def rec(nd, fuel):
            if fuel <= 0 or not isinstance(nd, tuple):
                return nd
            if nd[0] == "upvar" and upvars:
                r = self.resolve_upvar(nd)
                if r is nd:
                    return nd
                return rec(r, fuel - 1)
            if nd[0] == "param" and nd in self.bindings:
                return self.bindings[nd]
            if nd[0] == "param" and params:
                r = self.resolve_param(nd)
                if r is nd:
                    return nd
                return rec(r, fuel - 1)
            if nd[0] == "phi":
                return phi([rec(x, fuel) for x in nd[1]])
            if nd[0] in ("ref", "deref", "discr"):
                return (nd[0], rec(nd[1], fuel))
            if nd[0] == "cast":
                return ("cast", nd[1], rec(nd[2], fuel))
            if nd[0] in ("field", "downcast", "proj"):
                inner = rec(nd[1], fuel)
                return (nd[0], inner) + tuple(nd[2:])
            if nd[0] == "binop":
                return ("binop", nd[1], rec(nd[2], fuel), rec(nd[3], fuel))
            if nd[0] == "unop":
                return ("unop", nd[1], rec(nd[2], fuel))
            return nd
        return rec(node, limit)

    # ---- looking through calls of workspace-local synchronous helpers
    def local_sync_callee(self, node):
        """body of the workspace-local, non-async function a call node resolves to (or None)"""
        if node[0] != "call":
            return None
        c = self.call_of(node)
        for d in c.targets_def():
            hb = self.facts.bodies.get(d)
            if hb is not None and hb.kind == "fn" and not hb.j.get("is_async"):
                return hb
        return None

    def bound(self, hb, callnode):
        """context manager: parameters of helper `hb` stand for the arguments of the call `callnode`"""
        tr = self
        c = self.call_of(callnode)
        new = {}
        for i, a in enumerate(c.args):
            new[("param", hb.crate.name, hb.def_, i + 1)] = self.expand(self.operand(c.g.b, a, c.loc), upvars=True)

        class _Ctx:
            def __enter__(self_):
                self_.saved = dict(tr.bindings)
                tr.bindings.update(new)

            def __exit__(self_, *a):
                tr.bindings.clear()
                tr.bindings.update(self_.saved)
        return _Ctx()

    def closure_callees(self, node):
        """[(closure body, binding context)] when `node` is `Fn*::call*(f, (a, b, ..))` and every possible `f` is a
        closure built in the workspace (possibly passed down as a generic parameter from several call sites): the
        closure's parameters stand for a, b, ..; None when some callee is not such a closure"""
        if node[0] != "call":
            return None
        c = self.call_of(node)
        if c.def_ not in ("core::ops::function::Fn::call", "core::ops::function::FnMut::call_mut", "core::ops::function::FnOnce::call_once") or len(c.args) != 2:
            return None
        f = self.expand(self.operand(c.g.b, c.args[0], c.loc), upvars=True, params=True)
        cls = []
        for lf in leaves(f):
            lf = peel(lf)
            guard = 0
            while lf[0] in ("ref", "deref", "param", "upvar") and guard < 8:
                if lf[0] in ("param", "upvar"):
                    e = self.expand(lf, upvars=True, params=True)
                    if e == lf:
                        break
                    sub = [peel(x) for x in leaves(e)]
                    if len(sub) != 1:
                        # several call sites: handle each alternative
                        lf = ("phi", tuple(sub))
                        break
                    lf = sub[0]
                else:
                    lf = peel(lf[1])
                guard += 1
            alts = list(lf[1]) if lf[0] == "phi" else [lf]
            for alt in alts:
                alt = peel(alt)
                g2 = 0
                while alt[0] in ("ref", "deref") and g2 < 6:
                    alt = peel(alt[1])
                    g2 += 1
                if alt[0] == "agg":
                    b2, rv = self.agg_of(alt)
                    if rv.get("ak") == "closure":
                        if rv["def"] not in cls:
                            cls.append(rv["def"])
                        continue
                return None
        if not cls:
            return None
        tup = peel(self.expand(self.operand(c.g.b, c.args[1], c.loc), upvars=True))
        tr = self
        out = []
        for cl in cls:
            child = self.facts.bodies.get(cl)
            if child is None:
                return None
            new = {}
            if tup[0] == "agg":
                tb, trv = self.agg_of(tup)
                for k, o in enumerate(trv["ops"]):
                    new[("param", child.crate.name, child.def_, k + 2)] = self.expand(self.operand(tb, o, (tup[3], tup[4])), upvars=True)

            class _Ctx:
                def __init__(self_, new_):
                    self_.new = new_

                def __enter__(self_):
                    self_.saved = dict(tr.bindings)
                    tr.bindings.update(self_.new)

                def __exit__(self_, *a):
                    tr.bindings.clear()
                    tr.bindings.update(self_.saved)
            out.append((child, _Ctx(new)))
        return out

    def helper_returns(self, hb):
        """origins of the values a helper returns (whole assignments to _0 and call results into _0)"""
        out = []
        g = graph(hb)
        for i, blk in enumerate(hb.blocks):
            for j, s in enumerate(blk["stmts"]):
                if s["k"] == "assign" and s["lhs"]["l"] == 0 and not s["lhs"]["p"]:
                    rv = s["rv"]
                    if rv["k"] == "use":
                        out.append(self.expand(self.operand(hb, rv["op"], (i, j)), upvars=True))
                    elif rv["k"] == "agg":
                        out.append(("agg", hb.crate.name, hb.def_, i, j))
                    else:
                        for d in g.deflist:
                            if d[1] == i and d[2] == j:
                                out.append(self.expand(self._defnode(hb, g, d, 0), upvars=True))
            t = blk["term"]
            if t["k"] == "call" and t["dest"]["l"] == 0 and not t["dest"]["p"]:
                out.append(("call", hb.crate.name, hb.def_, i))
        return out

    def stmt_value(self, body, bb, idx):
        """origin of the value assigned by the assign statement at (bb, idx)"""
        g = graph(body)
        st = body.blocks[bb]["stmts"][idx]
        for d in g.deflist:
            if d[1] == bb and d[2] == idx and d[3] == "assign":
                return self.expand(self._defnode(body, g, d, 0))
        return ("unknown",)

    # ---- expression DAG
    def children(self, node):
        k = node[0]
        if k == "phi":
            return list(node[1])
        if k in ("ref", "deref", "discr"):
            return [node[1]]
        if k == "cast":
            return [node[2]]
        if k in ("field", "downcast", "proj"):
            return [node[1]]
        if k == "binop":
            return [node[2], node[3]]
        if k == "unop":
            return [node[2]]
        if k == "call":
            c = self.call_of(node)
            return [self.operand(c.g.b, a, c.loc) for a in c.args]
        if k == "agg":
            b, rv = self.agg_of(node)
            return [self.operand(b, o, (node[3], node[4])) for o in rv["ops"]]
        return []

    def walk(self, node, limit=400, upvars=True, through_calls=True):
        """all nodes of the expression DAG under `node` (calls expand into their arguments)"""
        seen = []
        seenset = set()
        st = [node]
        while st and len(seen) < limit:
            x = st.pop()
            if x in seenset:
                continue
            seenset.add(x)
            seen.append(x)
            if x[0] == "upvar" and upvars:
                r = self.resolve_upvar(x)
                if r is not x:
                    st.append(r)
                continue
            if x[0] == "call" and not through_calls:
                continue
            st.extend(self.children(x))
        return seen

    # ---- helpers on nodes
    def call_of(self, node):
        """Call object for a ('call', crate, def, bb) node."""
        b = self._body(node[1], node[2])
        return Call(graph(b), node[3], b.blocks[node[3]]["term"])

    def agg_of(self, node):
        b = self._body(node[1], node[2])
        return b, b.blocks[node[3]]["stmts"][node[4]]["rv"]


def phi(nodes):
    flat = []
    for x in nodes:
        if x[0] == "phi":
            for y in x[1]:
                if y not in flat:
                    flat.append(y)
        elif x not in flat:
            flat.append(x)
    if len(flat) > 1:
        # an alternative that projects variant V out of an aggregate built as another variant cannot be taken
        flat = [x for x in flat if x != NEVER] or [NEVER]
    if len(flat) == 1:
        return flat[0]
    return ("phi", tuple(flat))


NEVER = ("never",)


def leaves(node):
    if node[0] == "phi":
        out = []
        for x in node[1]:
            out.extend(leaves(x))
        return out
    return [node]


def peel(node, refs=True, casts=True, derefs=True):
    """Strip reference / cast / deref wrappers."""
    while True:
        if refs and node[0] == "ref":
            node = node[1]
        elif derefs and node[0] == "deref":
            node = node[1]
        elif casts and node[0] == "cast":
            node = node[2]
        else:
            return node


def show(node, depth=0):
    if not isinstance(node, tuple):
        return str(node)
    k = node[0]
    if depth > 6:
        return "…"
    if k == "phi":
        return "φ(" + " | ".join(show(x, depth + 1) for x in node[1]) + ")"
    if k in ("ref", "deref", "discr"):
        return "%s(%s)" % ({"ref": "&", "deref": "*", "discr": "discr"}[k], show(node[1], depth + 1))
    if k == "cast":
        return "cast[%s](%s)" % (node[1], show(node[2], depth + 1))
    if k == "field":
        return "%s.%s" % (show(node[1], depth + 1), node[2])
    if k == "downcast":
        return "(%s as %s)" % (show(node[1], depth + 1), node[2])
    if k == "binop":
        return "%s(%s, %s)" % (node[1], show(node[2], depth + 1), show(node[3], depth + 1))
    if k == "unop":
        return "%s(%s)" % (node[1], show(node[2], depth + 1))
    if k == "call":
        return "call@%s:bb%d" % (node[2].split("::")[-1][:30], node[3])
    if k == "param":
        return "param%d" % node[3]
    if k == "upvar":
        return "upvar%d" % node[3]
    if k == "const":
        return "const(%s)" % (node[1],)
    if k == "agg":
        return "agg@bb%d.%d" % (node[3], node[4])
    return str(node)
