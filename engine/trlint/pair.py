"""T-PAIR: after an acquire event every exit (return, unwind, coroutine drop) releases.

RAII-aware: a *guard* is a value of a type whose destructor performs the release (found by looking
at the type's Drop impl in the facts, or listed as an external trusted guard type).  The obligation
is tracked along all paths as "held raw" or "held by local x"; moving the guard moves the obligation,
dropping it (or an explicit release call) discharges it, moving it into the returned value hands it
to the caller / to the returned future, whose own exits drop their captures.
"""
from collections import deque
from .core import graph, Call, peel, leaves, show, N, U, D, EXIT_UNWIND

FORGET = ("core::mem::forget", "core::mem::ManuallyDrop::<T>::new", "core::mem::manually_drop::ManuallyDrop::<T>::new",
          "alloc::boxed::Box::<T>::leak", "alloc::boxed::Box::<T, A>::leak")
DROP_FN = "core::mem::drop"
PANIC_NAMES = ("unwrap", "expect", "unwrap_err", "expect_err", "panic", "panic_fmt", "unwrap_failed", "expect_failed",
               "begin_panic", "panic_display", "unreachable_display", "assert_failed", "panic_explicit")
FN_TRAITS = ("core::ops::function::Fn::call", "core::ops::function::FnMut::call_mut", "core::ops::function::FnOnce::call_once")


OBS_MACROS = ("debug", "info", "warn", "trace", "error", "event", "span", "counter", "gauge", "histogram",
              "describe_counter", "describe_gauge", "describe_histogram", "tracing::debug", "tracing::info", "tracing::warn",
              "tracing::trace", "tracing::error", "tracing::event", "metrics::counter", "metrics::gauge", "metrics::histogram")


def in_observability_macro(t):
    """terminator comes from the expansion of a tracing / metrics facade macro (trusted not to unwind)"""
    m = t["span"].get("omacro")
    if m is None:
        return False
    return m in OBS_MACROS or m.split("::")[-1] in OBS_MACROS


class _FeasQueue:
    """work queue of Pair.explore: entries (bb, holder, path) are extended with the variant tags known along the path
    (core.G._feas_step); a successor that contradicts a tag the path assigned itself (`let role = Role::Leader; ..
    match role { Role::Waiter(..) => ` ) is not enqueued"""

    def __init__(self, g, fs):
        self.g, self.fs = g, fs
        self.q = deque()
        self.cur = None
        self.cur_bb = None

    def __bool__(self):
        return bool(self.q)

    def append0(self, item):
        self.q.append(item + (frozenset(),))

    def popleft(self):
        it = self.q.popleft()
        self.cur_bb = it[0]
        self.cur = None
        self.cur_env = it[3]
        return it

    def append(self, item):
        tgt = item[0]
        if not self.fs:
            self.q.append(item + (frozenset(),))
            return
        if self.cur is None:
            tracked, sw_local = self.fs
            self.cur = {}
            for (t, _k, env2) in self.g._feas_step(self.cur_bb, self.cur_env, tracked, sw_local):
                self.cur.setdefault(t, env2)
        if tgt not in self.cur:
            return          # infeasible under the tags of this path
        self.q.append(item + (self.cur[tgt],))


class Unwind:
    """may-unwind policy (DESIGN §2.2)"""

    def __init__(self, facts, tr):
        self.facts = facts
        self.tr = tr
        self.summary = {}
        self.inprog = set()

    def body_may_unwind(self, body):
        k = (body.crate.name, body.def_)
        if k in self.summary:
            return self.summary[k]
        if k in self.inprog:
            return False
        self.inprog.add(k)
        res = False
        g = graph(body)
        for i in range(g.n):
            t = g.term(i)
            if g.b.blocks[i].get("cleanup"):
                continue
            if t["k"] == "assert" and not in_observability_macro(t):
                res = True
                break
            if t["k"] == "call" and self.call_may_unwind(Call(g, i, t)):
                res = True
                break
        self.inprog.discard(k)
        self.summary[k] = res
        return res

    def call_may_unwind(self, c):
        if in_observability_macro(c.t):
            return False
        if c.fn is None:
            return True
        if c.def_ in FN_TRAITS:
            st = c.self_ty()
            if st is not None and st.get("k") == "closure":
                b = self._find(st["def"])
                return self.body_may_unwind(b) if b is not None else True
            return True
        if c.self_kind in ("param", "dyn", "ref_param", "ref_dyn", "alias"):
            return True
        if c.name in PANIC_NAMES:
            return True
        for d in c.targets_def():
            b = self.facts.bodies.get(d)
            if b is not None:
                return self.body_may_unwind(b)
        if c.fn.get("local") or c.fn.get("resolved_local"):
            return True
        # std higher-order functions instantiated with a local closure that may unwind
        for a in c.args:
            for lf in leaves(self.tr.operand(c.g.b, a, c.loc)):
                lf = peel(lf)
                if lf[0] == "agg":
                    b2, rv = self.tr.agg_of(lf)
                    if rv["ak"] == "closure":
                        cb = self._find(rv["def"], b2.crate.name)
                        if cb is not None and self.body_may_unwind(cb):
                            return True
        return False

    def drop_may_unwind(self, ty, types, depth=0):
        """may running the destructor of a value of this type unwind?  Only user-controlled code can:
        type parameters, trait objects, associated types, closures/coroutines capturing such, and
        workspace-local Drop impls whose body may unwind."""
        k = ty.get("k")
        if k in ("param", "dyn", "alias"):
            return True
        if k in ("prim", "ref", "ptr", "fndef", "fnptr"):
            return False
        if depth > 3:
            return False
        if k in ("closure", "coroutine", "coroutine_closure"):
            return True
        if k in ("tuple", "array", "slice"):
            return any(isinstance(a, int) and self.drop_may_unwind(types[a], types, depth + 1) for a in ty.get("args", []))
        if k == "adt":
            adt = self.facts.adt(ty["def"])
            if adt is not None:
                # workspace-local type: its own Drop impl, then its fields
                for c in self.facts.crates.values():
                    for im in c.impls:
                        if im.get("trait") == "core::ops::drop::Drop" and c.types[im["self_ty"]].get("def") == ty["def"]:
                            for it in im["items"]:
                                b = self.facts.bodies.get(it["def"])
                                if b is not None and self.body_may_unwind(b):
                                    return True
                    if ty["def"] in c.adts:
                        for v in adt["variants"]:
                            for f in v["fields"]:
                                if self.drop_may_unwind(c.types[f["ty"]], c.types, depth + 1):
                                    return True
                return False
            return any(isinstance(a, int) and self.drop_may_unwind(types[a], types, depth + 1) for a in ty.get("args", []))
        return False

    def _find(self, def_, crate=None):
        b = self.facts.bodies.get(def_)
        if b is not None:
            return b
        for c in self.facts.crates.values():
            if crate and c.name != crate:
                continue
            for x in c.bodies:
                if x.def_ == def_:
                    return x
        return None


class Pair:
    def __init__(self, facts, tr, is_release, external_guards=()):
        self.facts = facts
        self.tr = tr
        self.is_release = is_release          # (body, Call) -> bool
        self.unw = Unwind(facts, tr)
        self.guard_types = set(external_guards)
        self.guard_release_where = {}
        self._discover_guards()

    def _discover_guards(self):
        for c in self.facts.crates.values():
            for im in c.impls:
                if im.get("trait") != "core::ops::drop::Drop":
                    continue
                st = c.types[im["self_ty"]]
                if st.get("k") != "adt":
                    continue
                for it in im["items"]:
                    b = self.facts.bodies.get(it["def"])
                    if b is None:
                        continue
                    g = graph(b)
                    for cs in g.calls():
                        if self.is_release(b, cs):
                            self.guard_types.add(st["def"])
                            self.guard_release_where[st["def"]] = cs.where()

    # ------------------------------------------------------------------ type helpers
    def is_guard_ty(self, ty, types, depth=0):
        if ty.get("k") == "adt":
            if ty["def"] in self.guard_types:
                return True
            if depth < 2 and ty["def"] in ("core::option::Option", "alloc::boxed::Box", "core::pin::Pin"):
                return any(isinstance(a, int) and self.is_guard_ty(types[a], types, depth + 1) for a in ty.get("args", []))
        return False

    # ------------------------------------------------------------------ exploration
    def explore(self, body, start_bb, holder, max_states=20000, skip_stmts=0, came_from=None):
        """Explore from the entry of start_bb with the obligation held by `holder`
        (None = raw, int = local).  Returns (violations, transfers) where
        violations = [(kind, where, path)] and transfers = [(bb, how)]"""
        g = graph(body)
        viol, transfers = [], []
        seen = set()
        fs = g._feas_setup()
        dq = _FeasQueue(g, fs)
        dq.append0((start_bb, holder, ((came_from, start_bb) if came_from is not None else (start_bb,))))
        interest = set()
        for bb_ in range(g.n):
            t_ = g.term(bb_)
            if t_["k"] == "drop" and not t_["place"]["p"] and self.unw.drop_may_unwind(body.local_ty(t_["place"]["l"]), body.types):
                interest.add(t_["place"]["l"])
        disarmed = set()      # guard locals whose destructor was made a no-op (their drop cannot unwind or release)
        n = 0
        while dq:
            bb, h, path, env = dq.popleft()
            # what this path knows about the locals whose destructor could unwind: moved out / matched as None
            pf = self._path_facts(body, path, interest)
            if (bb, h, pf, env) in seen:
                continue
            seen.add((bb, h, pf, env))
            n += 1
            if n > max_states:
                viol.append(("state-budget", g.where(bb), path))
                break
            released = False
            forgot = None
            # statements: moves of the holder
            for j, s in enumerate(g.stmts(bb)):
                if n == 1 and j < skip_stmts:
                    continue
                if s["k"] != "assign":
                    continue
                rv = s["rv"]
                lhs = s["lhs"]
                if h is None:
                    # guard constructed from the raw acquire
                    if rv["k"] == "agg" and rv["ak"] == "adt" and rv["def"] in self.guard_types and not lhs["p"]:
                        h = lhs["l"]
                    continue
                ops = []
                if rv["k"] == "use":
                    ops = [rv["op"]]
                elif rv["k"] == "agg":
                    ops = rv["ops"]
                elif rv["k"] == "cast":
                    ops = [rv["op"]]
                for o in ops:
                    pl = o.get("move")
                    if pl is not None and pl["l"] == h and not pl["p"]:
                        h = lhs["l"]
                        break
                    # moving the guard out of a field of the holder (e.g. upvar) keeps it simple: holder follows
                    if pl is not None and pl["l"] == h and pl["p"] and rv["k"] == "use" and not lhs["p"]:
                        if self.is_guard_ty(body.local_ty(lhs["l"]), body.types):
                            h = lhs["l"]
                            break
            t = g.term(bb)
            k = t["k"]
            # disarming the guard: `guard.field.take()` / mem::replace(&mut guard.field, ..) / `guard.field = ..` makes its
            # destructor a no-op; from here the obligation is held by nobody until a new guard value is built
            if h is not None and self.is_guard_ty(body.local_ty(h), body.types) and not body.local_ty(h)["s"].startswith("core::option::Option"):
                refs = set()
                for j, s in enumerate(g.stmts(bb)):
                    if n == 1 and j < skip_stmts:
                        continue
                    if s["k"] != "assign":
                        continue
                    if s["rv"]["k"] == "ref" and s["rv"].get("bk") == "mut" and s["rv"]["place"]["l"] == h and s["rv"]["place"]["p"] and not s["lhs"]["p"]:
                        refs.add(s["lhs"]["l"])
                    elif s["rv"]["k"] == "ref" and s["rv"].get("bk") == "mut" and not s["lhs"]["p"] and len(s["rv"]["place"]["p"]) >= 2 and \
                            s["rv"]["place"]["p"][0] == "*" and self._mut_alias_of(body, s["rv"]["place"]["l"]) == h:
                        refs.add(s["lhs"]["l"])       # `&mut (*self_).field` where self_ is `&mut guard` (an inlined method of the guard)
                    elif s["lhs"]["l"] == h and s["lhs"]["p"] and s["rv"]["k"] in ("use", "agg") and self._arming_field(body, h, s["lhs"]["p"]):
                        disarmed.add(h)
                        h = None
                        break
                if h is not None and k == "call":
                    # `guard.release()`: a method of the guard type that takes / clears the arming field of `self`
                    c1 = Call(g, bb, t)
                    whole = set()
                    for s_ in g.stmts(bb):
                        if s_["k"] == "assign" and s_["rv"]["k"] == "ref" and s_["rv"].get("bk") == "mut" and s_["rv"]["place"]["l"] == h and not s_["rv"]["place"]["p"] and not s_["lhs"]["p"]:
                            whole.add(s_["lhs"]["l"])
                    if whole and any((a.get("move") or {}).get("l") in whole for a in c1.args) and self._callee_disarms(c1):
                        disarmed.add(h)
                        if c1.target is not None:
                            dq.append((c1.target, None, path + (c1.target,)))
                        continue
                if h is not None and k == "call" and refs:
                    c0 = Call(g, bb, t)
                    if c0.name in ("take", "replace", "swap") and any((a.get("move") or {}).get("l") in refs for a in c0.args):
                        # continue on the normal edge with nobody holding the obligation
                        disarmed.add(h)
                        if c0.target is not None:
                            dq.append((c0.target, None, path + (c0.target,)))
                        continue
            if k == "call":
                c = Call(g, bb, t)
                if self.is_release(body, c):
                    released = True
                else:
                    moved = None
                    for ai, a in enumerate(c.args):
                        pl = a.get("move")
                        if pl is not None and h is not None and pl["l"] == h and not pl["p"]:
                            moved = ai
                    if moved is not None:
                        if c.def_ in FORGET or (c.name in ("forget", "leak")):
                            forgot = c
                        elif c.def_ == DROP_FN:
                            released = True
                        else:
                            dty = body.local_ty(c.dest["l"])
                            if dty["s"] == "()" or dty["s"] == "!":
                                released = True      # consumed by the callee, dropped there
                            else:
                                # ownership passes into the result on the normal edge; on the
                                # unwind edge the callee's frame drops its argument
                                if c.target is not None:
                                    dq.append((c.target, c.dest["l"], path + (c.target,)))
                                continue
                if forgot is not None:
                    viol.append(("forget", forgot.where(), path))
                    continue
                if released:
                    continue
                for (tgt, kind, _l) in g.succ[bb]:
                    if kind == U and not self.unw.call_may_unwind(c):
                        continue
                    if tgt == EXIT_UNWIND:
                        viol.append(("unwind-exit", c.where(), path))
                        continue
                    dq.append((tgt, h, path + (tgt,)))
                continue
            if k == "drop":
                pl = t["place"]
                if h is not None and pl["l"] == h and not pl["p"]:
                    continue        # destructor of the guard runs: released
                if h is not None and pl["l"] == h and pl["p"]:
                    # dropping the field that holds the guard
                    continue
                noop = ((not pl["p"]) and not g.maybe_init(pl["l"], bb)) or in_observability_macro(t) or ((not pl["p"]) and pl["l"] in disarmed) \
                    or ((not pl["p"]) and (("n", pl["l"]) in pf or ("m", pl["l"]) in pf)) \
                    or ((not pl["p"]) and self._tag_dataless(body, pl["l"], env))
                for (tgt, kind, _l) in g.succ[bb]:
                    if kind == U and noop:
                        continue        # dropping a moved-out local runs no destructor
                    if kind == U:
                        # destructors of other values: only user-controlled types may unwind
                        ty = body.local_ty(pl["l"]) if not pl["p"] else None
                        if pl["p"] and isinstance(pl["p"][-1], dict) and isinstance(pl["p"][-1].get("t"), int):
                            ty = body.types[pl["p"][-1]["t"]]        # dropping a field (a captured variable of an inlined async helper): its own type decides
                        if ty is not None and not self.unw.drop_may_unwind(ty, body.types):
                            continue
                        if t.get("env_drop") and not self._env_drop_may_unwind(body, t["env_drop"]):
                            continue
                    if tgt == EXIT_UNWIND:
                        viol.append(("unwind-exit", g.where(bb), path))
                        continue
                    dq.append((tgt, h, path + (tgt,)))
                continue
            if k == "return":
                if h == 0:
                    transfers.append((bb, "returned"))
                else:
                    # coroutine bodies: the guard may live in _0? no: a coroutine returning while
                    # still holding the guard in a local would have dropped it (drop precedes return)
                    viol.append(("return", g.where(bb), path))
                continue
            if k in ("resume", "coroutine_drop", "terminate"):
                if k == "terminate":
                    continue
                viol.append((k, g.where(bb), path))
                continue
            if k == "unreachable":
                continue
            for (tgt, kind, _l) in g.succ[bb]:
                if kind == U and in_observability_macro(t):
                    continue
                if tgt == EXIT_UNWIND:
                    viol.append(("unwind-exit", g.where(bb), path))
                    continue
                dq.append((tgt, h, path + (tgt,)))
        return viol, transfers

    def _mut_alias_of(self, body, local, depth=0):
        """the local `&mut x` this single-assignment local stands for (through moves of the reference), else None"""
        g = graph(body)
        ds = g.defs.get(local, [])
        if len(ds) != 1 or depth > 4:
            return None
        d = ds[0]
        if d[3] != "assign" or d[4]:
            return None
        rv = d[5]
        if rv["k"] == "ref" and rv.get("bk") == "mut" and not rv["place"]["p"]:
            return rv["place"]["l"]
        if rv["k"] == "ref" and rv.get("bk") == "mut" and rv["place"]["p"] == ["*"]:
            return self._mut_alias_of(body, rv["place"]["l"], depth + 1)       # reborrow
        if rv["k"] == "use":
            src = rv["op"].get("move") or rv["op"].get("copy")
            if src is not None and not src["p"]:
                return self._mut_alias_of(body, src["l"], depth + 1)
        return None

    def _callee_disarms(self, c):
        """the call resolves to a workspace method whose body takes / replaces / assigns an Option or bool field of
        its `&mut self`: it makes the guard's destructor a no-op"""
        for d in c.targets_def():
            hb = self.facts.bodies.get(d)
            if hb is None or hb.kind != "fn" or hb.arg_count < 1:
                continue
            t1 = hb.local_ty(1)
            if t1.get("k") != "ref":
                continue
            inner = hb.types[t1["args"][0]]
            if not self.is_guard_ty(inner, hb.types):
                continue
            hg = graph(hb)
            for i, blk in enumerate(hb.blocks):
                refs = set()
                for s_ in blk["stmts"]:
                    if s_["k"] != "assign":
                        continue
                    pl = s_["rv"].get("place") if s_["rv"]["k"] == "ref" else None
                    if pl is not None and s_["rv"].get("bk") == "mut" and pl["l"] == 1 and len(pl["p"]) >= 2 and pl["p"][0] == "*":
                        refs.add(s_["lhs"]["l"])
                    lp = s_["lhs"]
                    if lp["l"] == 1 and len(lp["p"]) >= 2 and lp["p"][0] == "*" and s_["rv"]["k"] in ("use", "agg"):
                        last = lp["p"][-1]
                        if isinstance(last, dict) and "n" in last:
                            return True
                t = blk["term"]
                if t["k"] == "call" and refs:
                    cc = Call(hg, i, t)
                    if cc.name in ("take", "replace", "swap") and any((a.get("move") or {}).get("l") in refs for a in cc.args):
                        return True
        return False

    def _env_drop_may_unwind(self, body, cdef):
        """an inlined async helper dropping its own environment at its return: only the captured values are left"""
        sites = self.tr.aggsites((body.crate.name, cdef))
        if not sites:
            return True
        for (pb, bb, idx, rv) in sites:
            for o in rv["ops"]:
                pl = o.get("move") or o.get("copy")
                if pl is None:
                    continue
                ty = pb.local_ty(pl["l"]) if not pl["p"] else (pb.types[pl["p"][-1]["t"]] if isinstance(pl["p"][-1], dict) and isinstance(pl["p"][-1].get("t"), int) else None)
                if ty is None or self.unw.drop_may_unwind(ty, pb.types):
                    return True
        return False

    def _tag_dataless(self, body, local, env):
        """along this path the local was built as a variant without fields (`Role::Leader`, `None`): dropping it runs
        no destructor"""
        tag = dict(env).get(local)
        if tag is None:
            return False
        adt = self.facts.adt(body.local_ty(local).get("def") or "")
        if adt is None:
            return False
        for v in adt.get("variants", []):
            if v.get("name") == tag[0]:
                return not v.get("fields")
        return False

    def _path_facts(self, body, path, interest):
        out = set()
        for l in interest:
            if self._known_dataless(body, l, path):
                out.add(("n", l))
            if self._moved_on_path(body, l, path) or self._fields_moved_on_path(body, l, path):
                out.add(("m", l))
        return frozenset(out)

    def _known_dataless(self, body, local, path):
        """along this path the last match on this very local (assigned once) took its `None` edge: its destructor
        has nothing to drop"""
        g = graph(body)
        if len(g.defs.get(local, ())) != 1:
            return False
        verdict = False
        for a, b in zip(path, path[1:]):
            sw = g.switch(a)
            if sw is None or sw.kind != "enum" or sw.place is None or sw.place.get("l") != local or sw.place.get("p"):
                continue
            verdict = sw.variants.get("None") == b and sw.variants.get("Some") != b
        return verdict

    def _moved_on_path(self, body, local, path):
        """along this very path the local's value was moved out (whole-local move) after its last assignment"""
        g = graph(body)
        moved = False
        for n_, bb in enumerate(path):
            if bb is None:
                continue
            last_ = n_ == len(path) - 1      # the block being left: its statements ran, its terminator is the one being judged
            for s in g.stmts(bb):
                if s["k"] != "assign":
                    continue
                rv = s["rv"]
                ops = [rv["op"]] if rv["k"] in ("use", "cast") else rv.get("ops", []) if rv["k"] == "agg" else []
                for o in ops:
                    pl = o.get("move")
                    if pl is not None and pl["l"] == local and not pl["p"]:
                        moved = True
                if s["lhs"]["l"] == local and not s["lhs"]["p"]:
                    moved = False
            t = g.term(bb)
            if t["k"] == "call" and not last_:
                for a in t["args"]:
                    pl = a.get("move")
                    if pl is not None and pl["l"] == local and not pl["p"]:
                        moved = True
                if t["dest"]["l"] == local and not t["dest"]["p"]:
                    moved = False
        return moved

    def _fields_moved_on_path(self, body, local, path):
        """the local is a tuple every field of which was moved out along this very path (`let (a, b) = pair;`): its
        drop at scope end runs no destructor"""
        ty = body.local_ty(local)
        if ty.get("k") != "tuple" or not ty.get("args"):
            return False
        g = graph(body)
        need = set(range(len(ty["args"])))
        moved = set()
        for n_, bb in enumerate(path):
            if bb is None:
                continue
            last_ = n_ == len(path) - 1
            for s in g.stmts(bb):
                if s["k"] != "assign":
                    continue
                rv = s["rv"]
                ops = [rv["op"]] if rv["k"] in ("use", "cast") else rv.get("ops", []) if rv["k"] == "agg" else []
                for o in ops:
                    pl = o.get("move")
                    if pl is not None and pl["l"] == local and len(pl["p"]) == 1 and isinstance(pl["p"][0], dict) and "f" in pl["p"][0]:
                        moved.add(pl["p"][0]["f"])
                if s["lhs"]["l"] == local and not s["lhs"]["p"]:
                    moved = set()
            t = g.term(bb)
            if t["k"] == "call" and not last_:
                for a in t["args"]:
                    pl = a.get("move")
                    if pl is not None and pl["l"] == local and len(pl["p"]) == 1 and isinstance(pl["p"][0], dict) and "f" in pl["p"][0]:
                        moved.add(pl["p"][0]["f"])
                if t["dest"]["l"] == local and not t["dest"]["p"]:
                    moved = set()
        return need <= moved

    def _arming_field(self, body, h, proj):
        """assignment to a field of the guard: treated as disarming when the field is an Option or a bool (the
        usual `armed` flags); other field writes do not change who owns the obligation"""
        ty = body.local_ty(h)
        adt = self.facts.adt(ty.get("def") or "")
        if adt is None:
            return False
        last = proj[-1]
        if not isinstance(last, dict) or "n" not in last:
            return False
        for f in adt["variants"][0]["fields"]:
            if f["name"] == last["n"]:
                crate = [c for c in self.facts.crates.values() if ty["def"] in c.adts][0]
                fs = crate.types[f["ty"]]["s"]
                return fs == "bool" or fs.startswith("core::option::Option")
        return False

    def explore_from_stmt(self, body, bb, idx, holder):
        """explore with the obligation held by `holder` from just after statement idx of block bb:
        the remaining statements of bb are interpreted (moves), then its terminator"""
        return self.explore(body, bb, holder, skip_stmts=idx + 1)

    def describe_path(self, body, path, limit=8):
        g = graph(body)
        lines = []
        last = None
        for bb in path:
            ln = g.line(bb)
            if ln != last:
                lines.append("L%d" % ln)
                last = ln
        if len(lines) > limit:
            lines = lines[:limit // 2] + ["…"] + lines[-limit // 2:]
        return "→".join(lines)

    # ------------------------------------------------------------------ captured guards in children
    def captured_guard_leaks(self, child, upvar_index):
        """forget-style calls inside a closure/coroutine body on a captured guard"""
        g = graph(child)
        out = []
        for c in g.calls():
            if c.def_ in FORGET or c.name in ("forget", "leak"):
                for a in c.args:
                    n = self.tr.operand(child, a, c.loc)
                    for lf in leaves(n):
                        lf = peel(lf)
                        if lf[0] == "upvar" and lf[3] == upvar_index:
                            out.append(c)
        return out
