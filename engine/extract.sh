#!/bin/bash
# usage: extract.sh <repo> <outdir> <config: MIN|FULL> <target-dir> [packages...]
set -e
REPO=$1; OUT=$2; CFG=$3; TGT=$4; shift 4
mkdir -p "$OUT" "$TGT"
if [ $# -eq 0 ]; then
  PK=$(ls "$REPO/crates" | sed 's/^/-p /' | tr '\n' ' ')
else
  PK=$(for p in "$@"; do echo -n "-p $p "; done)
fi
FEAT=""
[ "$CFG" = "FULL" ] && FEAT="--all-features"
# force the wrapper to run for workspace members
find "$TGT" -path '*/.fingerprint/tower-resilience*' -maxdepth 4 -type d -exec rm -rf {} + 2>/dev/null || true
cd "$REPO"
export LD_LIBRARY_PATH=$(rustc +nightly --print sysroot)/lib
export RUSTFLAGS="-Awarnings"
export RUSTC_WORKSPACE_WRAPPER=/verif/engine/trfacts/target/release/trfacts
export TRFACTS_OUT="$OUT" TRFACTS_CONFIG="$CFG" TRFACTS_PREFIX=tower_resilience
export CARGO_TARGET_DIR="$TGT" CARGO_NET_OFFLINE=true
cargo +nightly check --offline --lib $PK $FEAT
