#!/usr/bin/env python3
"""developer loop for corpus patches: extract facts of a patched scratch tree once, keep them, run modules on them.
   dev.py prep <name> <patch>          -> .work/dev/<name> (facts of /repo + patch)
   dev.py run <name> [PID ...]         -> failed obligations that the unpatched tree does not have (all modules by default)"""
import sys, os, json, shutil, subprocess, tempfile, importlib, glob
V = os.path.dirname(os.path.dirname(os.path.abspath(__file__)))
sys.path.insert(0, os.path.join(V, "engine"))
import importlib.machinery, importlib.util
spec = importlib.util.spec_from_file_location("check_runner", os.path.join(V, "check"), loader=importlib.machinery.SourceFileLoader("check_runner", os.path.join(V, "check")))
runner = importlib.util.module_from_spec(spec); spec.loader.exec_module(runner)
from trlint.facts import Facts
from trlint import selftest
DEV = os.path.join(runner.WORK, "dev")
ALL = ["C%02d" % i for i in range(1, 21)]

def prep(name, patch):
    scratch = tempfile.mkdtemp(prefix="trlint-dev-")
    try:
        subprocess.check_call(["rsync", "-a", "--exclude", "target", "--exclude", ".git", "/repo/", scratch + "/"])
        ok, msg = selftest._apply(scratch, os.path.abspath(patch))
        if not ok:
            print("does not apply:", msg); return 1
        stwork = os.path.join(runner.WORK, "selftest"); os.makedirs(stwork, exist_ok=True)
        fdir, _h, _e = runner.ensure_facts(scratch, ["FULL"], workdir=stwork)
        dst = os.path.join(DEV, name)
        shutil.rmtree(dst, ignore_errors=True); os.makedirs(DEV, exist_ok=True)
        shutil.move(fdir, dst)
        print("facts at", dst)
    finally:
        shutil.rmtree(scratch, ignore_errors=True)
    return 0

def run(name, pids):
    base_dir, _h, _x = runner.ensure_facts("/repo", ["FULL"])
    basef = Facts(base_dir, "FULL")
    f = Facts(os.path.join(DEV, name), "FULL")
    from trlint.core import Tracer
    from trlint.report import Report
    from trlint.builders import check_builders
    import trlint.builders as B
    rc = 0
    for p in pids or ALL:
        mod = importlib.import_module("trlint.props." + p.lower())
        base = selftest._failed(mod, p, basef, runner)
        B._SUMM.clear()
        tr = Tracer(f); runner.attach_inlined(f, tr)
        rep = Report(p, "FULL")
        try:
            mod.run(f, tr, rep)
            for cr in getattr(mod, "CONFIG_CRATES", []):
                check_builders(f, tr, rep, cr, p + ".CONFIG")
        except Exception:
            import traceback; traceback.print_exc()
            rep.ob("INTERNAL", "exception", False, "-", "exception")
        for o in rep.obls:
            if not o["ok"] and o["key"] not in base:
                rc = 1
                print("%s  %s\n      %s: %s" % (p, o["key"], o["where"], o["detail"][:300]))
    print("clean" if rc == 0 else "ALARMS")
    return rc

if __name__ == "__main__":
    if sys.argv[1] == "prep":
        sys.exit(prep(sys.argv[2], sys.argv[3]))
    sys.exit(run(sys.argv[2], sys.argv[3:]))
