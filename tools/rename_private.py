#!/usr/bin/env python3
"""Robustness probe: rename every private function and private struct field of the library crates (word-boundary
rename, suffix _rn) in a scratch copy of /repo, keep the renames that still compile, and run every check on the
result.  A behaviour-preserving rename must not raise an alarm: any VIOLATION here is a rule anchored on a
private name.  usage: rename_private.py [crate ...]   (scratch copy under /tmp, removed afterwards)"""
import sys, os, re, glob, json, subprocess, shutil, tempfile
VERIF = os.path.dirname(os.path.dirname(os.path.abspath(__file__)))
sys.path.insert(0, os.path.join(VERIF, "engine"))
from trlint.facts import Facts
from trlint.core import graph

def main():
    repo = os.environ.get("VERIF_REPO", "/repo")
    import importlib.util, importlib.machinery
    spec = importlib.util.spec_from_file_location("check_runner", os.path.join(VERIF, "check"), loader=importlib.machinery.SourceFileLoader("check_runner", os.path.join(VERIF, "check")))
    runner = importlib.util.module_from_spec(spec); spec.loader.exec_module(runner)
    fdir, _h, _e = runner.ensure_facts(repo, ["FULL"])
    facts = Facts(fdir, "FULL")
    only = set(a.replace("-", "_") for a in sys.argv[1:] if not a.startswith("-"))
    keep = "--keep" in sys.argv
    scratch = tempfile.mkdtemp(prefix="trlint-rn-")
    subprocess.check_call(["rsync", "-a", "--exclude", "target", "--exclude", ".git", repo.rstrip("/") + "/", scratch + "/"])
    total = {}
    for cname, crate in sorted(facts.crates.items()):
        if only and cname not in only:
            continue
        pub, priv = set(), set()
        ext = set()
        for b in crate.bodies:
            nm = b.def_.split("::")[-1]
            for c in graph(b).calls():
                if not any(d in facts.bodies for d in c.targets_def()):
                    ext.add(c.name)
            if b.kind != "fn":
                continue
            is_trait = bool(b.impl and b.impl.get("trait"))
            if b.j.get("vis") == "pub" or is_trait:
                pub.add(nm)
            else:
                priv.add(nm)
        for a in crate.adts.values():
            for v in a["variants"]:
                for f in v["fields"]:
                    if not isinstance(f["name"], str) or f["name"].isdigit():
                        continue
                    (pub if f["vis"] == "pub" else priv).add(f["name"])
        cands = sorted(n for n in priv - pub - ext if len(n) > 3 and not n.startswith("_") and n not in ("self", "main", "default", "inner_rn"))
        src = os.path.join(scratch, "crates", cname.replace("_", "-"), "src")
        files = glob.glob(os.path.join(src, "**", "*.rs"), recursive=True)
        orig = {f: open(f).read() for f in files}
        def apply(names):
            for f in files:
                s = orig[f]
                for n in names:
                    s = re.sub(r"(?<![A-Za-z0-9_])%s(?![A-Za-z0-9_])" % re.escape(n), n + "_rn", s)
                open(f, "w").write(s)
        def builds():
            r = subprocess.run(["cargo", "check", "--offline", "--workspace", "--all-features", "--lib", "-q"], cwd=scratch, stdout=subprocess.PIPE, stderr=subprocess.STDOUT, text=True,
                               env=dict(os.environ, CARGO_TARGET_DIR="/tmp/trlint-rn-target", RUSTFLAGS="-Awarnings"))
            return r.returncode == 0
        def search(names):
            apply(good + names)
            if builds():
                return names
            if len(names) == 1:
                return []
            h = len(names) // 2
            a = search(names[:h]); good.extend(a)
            b = search(names[h:])
            for x in a: good.remove(x)
            return a + b
        good = []
        ok = search(cands)
        apply(ok)
        assert builds()
        total[cname] = ok
        print("%s: renamed %d of %d private names (skipped: %s)" % (cname, len(ok), len(cands), sorted(set(cands) - set(ok))), flush=True)
    r = subprocess.run([os.path.join(VERIF, "check"), "all"], env=dict(os.environ, VERIF_REPO=scratch), stdout=subprocess.PIPE, stderr=subprocess.STDOUT, text=True)
    bad = [l for l in r.stdout.splitlines() if "VIOLATION" in l or ("[" in l and "]" in l and not l.startswith("KNOWN") and " quick:" not in l)]
    print("\n".join(l[:600] for l in bad))
    print("\n".join(l for l in r.stdout.splitlines() if " quick:" in l))
    if keep:
        print("scratch kept at", scratch)
    else:
        shutil.rmtree(scratch, ignore_errors=True)
    shutil.rmtree("/tmp/trlint-rn-target", ignore_errors=True)
    return 1 if any("VIOLATION" in l for l in bad) else 0

if __name__ == "__main__":
    sys.exit(main())
