#!/usr/bin/env python3
"""Regenerates MANIFEST.json from the property modules present under engine/trlint/props."""
import json, os, sys, importlib
V = os.path.dirname(os.path.dirname(os.path.abspath(__file__)))
sys.path.insert(0, os.path.join(V, "engine"))
ALL = ["C%02d" % i for i in range(1, 21)]
checks, na = [], []
pending = json.load(open(os.path.join(V, "tools", "not_applicable.json"))) if os.path.exists(os.path.join(V, "tools", "not_applicable.json")) else {}
for pid in ALL:
    try:
        m = importlib.import_module("trlint.props." + pid.lower())
    except ImportError:
        na.append({"property_id": pid, "reason": pending.get(pid, "no sound static rule implemented yet for this property; not claimed")})
        continue
    checks.append({
        "property_id": pid,
        "quick_cmd": "./check %s --tier quick" % pid,
        "thorough_cmd": "./check %s --tier thorough" % pid,
        "evidence_file": "/verif/evidence/%s.json" % pid,
        "replay_cmd_template": "./check replay {path}",
        "engine": "trfacts+trlint",
        "level_claimed": {"category": "other", "text": m.EXPLANATION, "design_ref": "DESIGN.md §4 " + pid},
        "level_note": "Trusted: " + "; ".join(m.TRUSTED) + ". Assumed: " + "; ".join(m.ASSUMPTIONS),
        "technique": getattr(m, "TECHNIQUE", "static analysis of built MIR (rustc_private fact extractor + rule library): dominance / path / value-flow rules"),
    })
man = {
    "version": 1,
    "setup_cmd": "cd /verif/engine/trfacts && CARGO_NET_OFFLINE=true cargo +nightly build --release --offline && cd /verif && python3 -m compileall -q engine/trlint",
    "hooks": {
        "guard": "tower_resilience_verif",
        "enable": "none needed: the analysis reads the ordinary build (cargo +nightly check with the trfacts RUSTC_WORKSPACE_WRAPPER); no hook code exists in /repo",
        "baseline_off_cmd": "cd /repo && cargo test --workspace --no-fail-fast --offline",
        "source_commits": [],
        "add_only": True,
    },
    "engines": [
        {"name": "trfacts", "path": "engine/trfacts", "serves_properties": [c["property_id"] for c in checks],
         "kind_free_text": "rustc_private driver exporting built MIR (pre drop-elaboration, pre coroutine transform) of every library crate as JSON facts"},
        {"name": "trlint", "path": "engine/trlint", "serves_properties": [c["property_id"] for c in checks],
         "kind_free_text": "Python rule library: CFG with unwind/coroutine-drop edges, dominance, reaching definitions, inter-procedural origin tracing, typestate/pairing/guard rules"},
    ],
    "checks": checks,
    "not_applicable": na,
    "notes": "Static analysis only; every check re-extracts facts from /repo's working tree (content-hash cache under /verif/.work). Genuine defects repaired by fix: commits are listed in known_findings.json as status=fixed.",
}
json.dump(man, open(os.path.join(V, "MANIFEST.json"), "w"), indent=1)
print("checks:", [c["property_id"] for c in checks], "n/a:", [n["property_id"] for n in na])
