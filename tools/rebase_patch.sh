#!/bin/bash
# rebase a corpus patch made against an older /repo commit onto /repo's current HEAD (3-way, in a scratch worktree)
# usage: rebase_patch.sh <patch> <old-base-commit>   -> rewrites the patch in place when the rebase succeeds
P=$(readlink -f $1); BASE=$2; WT=/tmp/wt/rebase$$
cd /repo && git worktree add -q --detach $WT $BASE || exit 2
cd $WT && patch -p1 -s --no-backup-if-mismatch < $P && git add -A && git -c user.name=x -c user.email=x@x commit -qm tmp || { echo "FAILED to apply on base: $P"; cd /repo; git worktree remove --force $WT; exit 1; }
if git -c user.name=x -c user.email=x@x rebase -q main >/dev/null 2>&1; then git diff main HEAD > $P; echo "rebased: $P"; rc=0; else git rebase --abort; echo "CONFLICT: $P"; rc=1; fi
cd /repo && git worktree remove --force $WT
exit $rc
