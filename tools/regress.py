#!/usr/bin/env python3
"""Regression over the whole corpus: every seeded change and reverse-fix mutant must be reported by (at least) its own
property; every benign rewrite must be silent for every property.  Uses tools/seedscan.py."""
import subprocess, json, glob, os, sys
V = os.path.dirname(os.path.dirname(os.path.abspath(__file__)))
pats = sorted(glob.glob(V + "/seeded/*/*/patch.diff")) + sorted(glob.glob(V + "/selftest/mutants/*/*.diff")) + sorted(glob.glob(V + "/selftest/benign/*/*.diff"))
pats = [p for p in pats if "/_residual/" not in p]       # known false-alarm shapes, kept as a record (DESIGN §19)
if len(sys.argv) > 1:
    pats = [p for p in pats if any(a in p for a in sys.argv[1:])]
# shards run side by side (extraction is serialised by the target-directory lock, the analysis is not); each shard
# writes its own result file under a private directory, so two regress runs do not overwrite each other
import tempfile
jobs = max(1, min(int(os.environ.get("REGRESS_JOBS", "5")), len(pats) or 1))
outdir = tempfile.mkdtemp(prefix="trlint-regress-")
procs = []
for k in range(jobs):
    shard = pats[k::jobs]
    if shard:
        procs.append(subprocess.Popen([sys.executable, V + "/tools/seedscan.py"] + shard, stdout=subprocess.DEVNULL, stderr=subprocess.DEVNULL,
                                      env=dict(os.environ, SEEDSCAN_RELEVANT="1", SEEDSCAN_OUT=os.path.join(outdir, "scan_%d.json" % k))))
for pr in procs:
    pr.wait()
res = {}
for f in glob.glob(os.path.join(outdir, "scan_*.json")):
    res.update(json.load(open(f)))
json.dump(res, open(os.path.join(outdir, "all.json"), "w"), indent=1)
print("results in %s/all.json" % outdir)
bad = 0
for p in pats:
    r = res.get(p, {})
    rel = os.path.relpath(p, V)
    pid = rel.split("/")[1] if rel.startswith("seeded") else rel.split("/")[2]
    det = r.get("detected", {})
    if r.get("status") != "ok":
        print("SKIP  %-60s %s" % (rel, r.get("status")))
        continue
    if "/benign/" in rel:
        if det:
            bad += 1
            print("FALSE-ALARM %-55s %s" % (rel, {k: v[:2] for k, v in det.items()}))
    else:
        mp = os.path.join(os.path.dirname(p), "meta.json")
        meta = json.load(open(mp)) if os.path.exists(mp) else {}
        if meta.get("documented_miss"):
            if pid in det:
                print("NOTE  %-60s documented miss is now detected: %s" % (rel, sorted(det)))
            continue
        if pid not in det:
            bad += 1
            print("MISSED %-60s detected only by %s" % (rel, sorted(det)))
print("corpus: %d patches, %d problems" % (len(pats), bad))
sys.exit(1 if bad else 0)
