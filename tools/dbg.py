"""interactive helper: from dbg import *; f, tr = load("b4_cache_r1")  (facts under .work/dev/<name>, or 'repo')"""
import sys, os, importlib.machinery, importlib.util
V = os.path.dirname(os.path.dirname(os.path.abspath(__file__)))
sys.path.insert(0, os.path.join(V, "engine"))
spec = importlib.util.spec_from_file_location("check_runner", os.path.join(V, "check"), loader=importlib.machinery.SourceFileLoader("check_runner", os.path.join(V, "check")))
runner = importlib.util.module_from_spec(spec); spec.loader.exec_module(runner)
from trlint.facts import Facts
from trlint.core import Tracer, graph, peel, show, leaves, Call, N, U, D
from trlint.util import *
DEV = os.path.join(runner.WORK, "dev")

def load(name, cfg="FULL"):
    d = runner.ensure_facts("/repo", [cfg])[0] if name == "repo" else os.path.join(DEV, name)
    f = Facts(d, cfg)
    tr = Tracer(f); runner.attach_inlined(f, tr)
    return f, tr
