#!/bin/bash
# Confirms seeded changes: demo passes on pristine HEAD, fails with the patch; existing tests pass with the patch.
# usage: confirm_seeds.sh <seed-root> <out.tsv> id/mN:<demo-dest>:<pkg>:<existing test spec> ...
ROOT=$1; OUT=$2; shift 2
WT=${WT:-/tmp/wt/confirm}
cd /repo && (git worktree list | grep -q $WT || git worktree add --detach $WT HEAD -q)
cd $WT && git checkout -q --detach main 2>/dev/null
for spec in "$@"; do
  IFS=: read -r sid dest pkg existing extra <<< "$spec"
  cd $WT && git checkout -q -- . && git clean -qfd crates tests >/dev/null
  mkdir -p "$(dirname $dest)" && cp $ROOT/$sid/demo.rs $dest
  tname=$(basename $dest .rs)
  if [ "$pkg" = "root" ]; then DEMO="cargo test --offline -p tower-resilience-tests --test $tname"; else DEMO="cargo test --offline -p $pkg $extra --test $tname"; fi
  $DEMO > /tmp/confirm_$$.log 2>&1; r1=$?
  if ! git apply $ROOT/$sid/patch.diff 2>/tmp/confirm_apply_$$.log; then echo -e "$sid\tAPPLY-FAIL\t-\t-" | tee -a $OUT; continue; fi
  $DEMO > /tmp/confirm_$$.log2 2>&1; r2=$?
  rm -f $dest
  r3=0
  for e in $(echo $existing | tr ',' ' '); do
    if [[ $e == root/* ]]; then cargo test --offline -p tower-resilience-tests --test ${e#root/} > /tmp/confirm_$$.log3 2>&1 || r3=1
    else cargo test --offline -p $e > /tmp/confirm_$$.log3 2>&1 || r3=1; fi
  done
  echo -e "$sid\tpristine_demo_exit=$r1\tpatched_demo_exit=$r2\texisting_tests_exit=$r3" | tee -a $OUT
done
cd $WT && git checkout -q -- . && git clean -qfd crates tests >/dev/null
