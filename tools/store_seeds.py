#!/usr/bin/env python3
"""store confirmed seeded changes: store_seeds.py <round-dir> <scan.json> <confirm.tsv> <spec.json>
spec.json: {"C01/m1": {"to": "C01/m3", "needs": "...", "property": "C01", "note": "...", "documented_miss": "..."}, ...}"""
import sys, json, os, shutil
V = os.path.dirname(os.path.dirname(os.path.abspath(__file__)))
rnd, scanf, conff, specf = sys.argv[1:5]
scan = json.load(open(scanf))
conf = {}
for l in open(conff):
    p = l.rstrip("\n").split("\t")
    conf[p[0]] = p[1:]
titles = {json.loads(l)["id"]: json.loads(l)["title"] for l in open(os.path.join(V, "properties.jsonl"))}
spec = json.load(open(specf))
for src, sp in spec.items():
    c = conf.get(src)
    assert c and c[0] == "pristine_demo_exit=0" and c[1] != "patched_demo_exit=0" and c[2] == "existing_tests_exit=0", (src, c)
    r = scan[os.path.join(rnd, src, "patch.diff")]
    assert r["status"] == "ok", (src, r)
    dst = os.path.join(V, "seeded", sp["to"])
    os.makedirs(dst, exist_ok=True)
    for f in ("patch.diff", "demo.rs", "notes.md"):
        shutil.copy(os.path.join(rnd, src, f), os.path.join(dst, f))
    pid = sp["property"]
    det = r["detected"]
    meta = {"property": pid, "title": titles[pid], "round": 2,
            "source": "independent sub-agent given only the property text, the circumstances of the two round-1 changes to avoid, and a scratch worktree",
            "needs_to_manifest": sp["needs"],
            "confirmed": {"how": "tools/confirm_seeds.sh in a scratch worktree of /repo HEAD (git worktree, outside /repo and /verif)",
                          "demo_on_unchanged_tree": c[0], "demo_with_patch": c[1], "existing_crate_and_workspace_tests_with_patch": c[2]},
            "retargeted": False,
            "detected_by": {k: sorted({x.split("|")[0] for x in v}) for k, v in det.items()},
            "detected_keys": det}
    if sp.get("note"):
        meta["note"] = sp["note"]
    if sp.get("documented_miss"):
        meta["documented_miss"] = sp["documented_miss"]
    json.dump(meta, open(os.path.join(dst, "meta.json"), "w"), indent=1)
    print(sp["to"], sorted(meta["detected_by"]))
