#!/usr/bin/env python3
"""print the markdown table of all seeded changes from seeded/*/*/meta.json (DESIGN.md section 11)"""
import json, glob, os
V = os.path.dirname(os.path.dirname(os.path.abspath(__file__)))
print("| seed | round | needs, in order to manifest | reported by |")
print("|---|---|---|---|")
for m in sorted(glob.glob(V + "/seeded/*/*/meta.json")):
    d = json.load(open(m))
    sid = "/".join(m.split("/")[-3:-1])
    det = d.get("detected_by", {})
    rep = "; ".join("%s: %s" % (k, ", ".join(v)) for k, v in sorted(det.items())) or ("**documented miss** — " + d.get("documented_miss", "")[:90])
    print("| %s | %s | %s | %s |" % (sid, d.get("round", 1), d["needs_to_manifest"], rep))
