#!/usr/bin/env python3
"""For every candidate seed patch, apply it to a scratch copy of /repo, extract facts once, and run every
property module to see which checks report it.  Prints a JSON summary.  (Tool for maintaining /verif/seeded.)"""
import sys, os, json, glob, shutil, subprocess, tempfile, importlib
V = os.path.dirname(os.path.dirname(os.path.abspath(__file__)))
sys.path.insert(0, os.path.join(V, "engine"))
import importlib.machinery, importlib.util
spec = importlib.util.spec_from_file_location("check_runner", os.path.join(V, "check"), loader=importlib.machinery.SourceFileLoader("check_runner", os.path.join(V, "check")))
runner = importlib.util.module_from_spec(spec); spec.loader.exec_module(runner)
from trlint.facts import Facts
from trlint import selftest
REPO = "/repo"
ALL = ["C%02d" % i for i in range(1, 21)]
mods = {p: importlib.import_module("trlint.props." + p.lower()) for p in ALL}
base_dir, _h, _x = runner.ensure_facts(REPO, ["FULL"])
basef = Facts(base_dir, "FULL")
base = {p: selftest._failed(mods[p], p, basef, runner) for p in ALL}
out = {}
stwork = os.path.join(runner.WORK, "selftest")
os.makedirs(stwork, exist_ok=True)
for patch in sys.argv[1:]:
    scratch = tempfile.mkdtemp(prefix="trlint-seed-")
    try:
        subprocess.check_call(["rsync", "-a", "--exclude", "target", "--exclude", ".git", REPO + "/", scratch + "/"])
        ok, msg = selftest._apply(scratch, patch)
        if not ok:
            out[patch] = {"status": "does-not-apply", "msg": msg.strip()[-200:]}
            continue
        try:
            fdir, _h2, _e = runner.ensure_facts(scratch, ["FULL"], workdir=stwork)
        except SystemExit as e:
            out[patch] = {"status": "does-not-build", "msg": str(e)[:200]}
            continue
        f = Facts(fdir, "FULL")
        det = {}
        mods_here = ALL
        if os.environ.get("SEEDSCAN_RELEVANT"):
            # only the modules that analyse a crate the patch touches (C20 analyses all of them)
            touched = set()
            for line in open(patch):
                if line.startswith("+++ b/crates/"):
                    touched.add(line.split("/")[2].replace("-", "_"))
            def crates_of(p_):
                m_ = mods[p_]
                cs = set(getattr(m_, "CONFIG_CRATES", []))
                if getattr(m_, "CRATE", None):
                    cs.add(m_.CRATE)
                return cs
            mods_here = [p_ for p_ in ALL if p_ == "C20" or "tower_resilience_core" in touched or (crates_of(p_) & touched)
                         or (p_ in ("C08", "C13", "C14") and touched & {"tower_resilience_retry", "tower_resilience_reconnect", "tower_resilience_adaptive", "tower_resilience_core"})]
        for p in mods_here:
            fails = selftest._failed(mods[p], p, f, runner) - base[p]
            if fails:
                det[p] = sorted(fails)
        out[patch] = {"status": "ok", "detected": det}
        shutil.rmtree(fdir, ignore_errors=True)
    finally:
        shutil.rmtree(scratch, ignore_errors=True)
    print(patch, json.dumps(out[patch])[:400], flush=True)
json.dump(out, open(os.environ.get("SEEDSCAN_OUT", "/tmp/seedscan.json"), "w"), indent=1)
